"""C09: config parser delivers every line once, in order, to the innermost open context; state threading; balanced stacks."""
import vf
import c0x_common as cx


def build(flavor='asan'):
    return cx.build('c09', flavor)


def rebuild_for_replay(rec):
    return build()


def run(chk):
    per = chk.pick(600, 2500)            # per shard: 9.6e3 / 4.0e4 trees
    chk.run('asan', build(), per)
    if not chk.quick():
        # memcheck: any branch on / use of an uninitialised byte in the parser (which pattern-fill cannot expose) is an error
        chk.run('memcheck', cx.build('c09', 'plain'), 40, wrapper=cx.MEMCHECK, timeout=3000)
        chk.assumptions.append('thorough: 640 further trees under valgrind memcheck (plain -O0 build; table-size probes need ASan and are skipped there)')
    chk.rule = ('case = registered context set (0..90 names, built-in null handler kept or replaced) + generated tree of config files (main + 0..22 %include\'d files, '
                'include chains of 1-4 / 9-11 / 19-21) over the line grammar comment | blank | begin NAME | end [junk] | %include F | text, nesting depth classes '
                '0-3, 9-11, 19-21, 39-41, 79-81, 159-161, 250-255 (thorough: every depth 0..255), surplus ends, unbalanced inputs, near-miss keywords; every handler '
                'logs (context, kind, text, state in) and returns a unique token; expected events from the A.5 line-grammar model; distinct = distinct '
                '(event kind, depth bucket, context class, null-handler class) and (depth class, include class, ...) hashes')
    chk.assumptions += ['files are well-formed text files for this parser (magic first line, lines < 20480 bytes ending in newline); other files belong to C11',
                        'states returned by libast\'s own null handler are not asserted (opaque); state carried in slot 0 across two parses is not asserted']
    for name, n in (('depth_0_3', 20), ('depth_9_11', 20), ('depth_19_21', 20), ('depth_39_41', 20), ('depth_79_81', 20), ('depth_159_161', 20), ('depth_250_255', 20),
                    ('reached_depth_250_plus', 20), 
                    ('include_chain_9_plus', 20), ('include_chain_19_plus', 10),
                    ('unknown_begins', 100), ('surplus_ends', 50), ('includes', 500), ('state_checks', 10000),
                    ('events_checked', 50000), ('null_replaced_cases', 100), ('builtin_null_cases', 100), ('second_parses', 50), ('expansion_cases', 30),
                    ('unbalanced_cases', 50)):
        chk.require(name, n)
    chk.min_cases = per * 12
