"""C11: config subsystem memory-safe on arbitrary files/paths, spawns nothing unasked, safe temp files, restartable."""
import vf
import c0x_common as cx


def build(flavor='asan-pat'):
    # pattern auto-init: a read of a never-written local (e.g. the line buffer of an empty file) is deterministic
    return cx.build('c11', flavor)


def rebuild_for_replay(rec):
    return build()


def run(chk):
    per = chk.pick(640, 19000)           # per shard; 16 shards -> 1.0e4 / 3.0e5 cases (6/16 mutated trees, 4/16 random bytes, 2/16 lifecycle, ...)
    chk.run('asan-pat', build(), per)
    # the same cases with never-written locals reading as zero: a branch on such a local (NULL / not NULL) goes the other way
    chk.run('asan-zero', build('asan-zero'), per)
    chk.rule = ('case classes rotate over the case index: random-byte files; well-formed trees with 1-4 hostile mutations (NUL, no final newline, lines of '
                '20477..61440 bytes, 100-600 begin lines, lone %, missing/repeated/cyclic %include, empty file, damaged magic line, %preproc, backquote/%exec, '
                '%get( nested up to 3000 deep, include chains of 250-262 distinct files, byte flips, truncation); registration stress (1..300 contexts, 0..300 built-ins) with the C09 model while inside the '
                '8-bit id space; spifconf_find_file with lengths up to 70000 and 0..50 components; lifecycle programs (init, register, parse 1-3 trees, %put, free) x 1..5 '
                'with heap balance and cycle equality; spiftool_temp_file x 200 per case.  Every scenario with a heap balance is executed twice, a residue counts only if '
                'it repeats.  distinct = distinct (mutation kind, file class), (lengths classes, result), (registration counts), ... hashes')
    chk.assumptions += ['external commands are never executed: system/fork/exec*/popen/posix_spawn are link-time wrapped (the monitor may simulate the command\'s output file)',
                        'termination is decided on a logical budget of fgets calls (64 x lines of all files + 1000; 600 x when the monitor plays a pass-through preprocessor, whose copy may legitimately be re-entered through %include down to the 255-level file index), not on time',
                        'TMPDIR/TMP always point into the scratch directory (the /tmp fallback of spiftool_temp_file is not exercised)',
                        'magic lines keep the version part short: spiftool_version_compare overflows are C17\'s subject']
    for name, n in (('bytes_cases', 500), ('mutated_tree_cases', 1000), ('registration_cases', 200), ('find_cases', 100), ('lifecycle_programs', 300), ('temp_cases', 100),
                    ('temp_files_created', 5000), ('heap_balance_checks', 2000), ('no_spawn_checked', 1000), ('spawn_monitor_hits', 20), ('long_lines', 50),
                    ('many_begins', 50), ('percent_lines', 50), ('bad_includes', 50), ('cyclic_includes', 20), ('empty_files', 50), ('magic_damaged', 50),
                    ('preproc_lines', 50), ('exec_lines', 50), ('deep_nesting_lines', 50), ('nesting_450_plus_lines', 15), ('include_chains_over_255', 5), ('tmpdir_missing_cases', 100), ('overlong_commands', 10), ('find_file_found', 100), ('find_file_null', 100), ('find_file_huge_path', 50),
                    ('find_file_name_at_limit', 20), ('lifecycle_cycles', 900), ('reg_contexts_160_plus', 20), ('reg_builtins_160_plus', 5), ('parse_via_path', 100),
                    ('events_checked', 10000)):
        chk.require(name, n)
    chk.min_cases = per * 24
