#!/bin/bash
# tools/sweep.sh "<seeds>" PROP...   -- quick tier of each property at each seed; prints one line per run
D="$(cd "$(dirname "$0")/.." && pwd)"
SEEDS=$1; shift
for p in "$@"; do for s in $SEEDS; do VERIF_SEED=$s $D/bin/check $p 2>&1 | grep "^C[0-9][0-9] \|^VIOLATION\|^INCONCLUSIVE\|^KNOWN\|^UNREPRO\|key=" | tr '\n' ' ' | cut -c1-400; echo; done; done
