/* C15: the debug memory tracker mirrors the live allocation set exactly.  DESIGN.md §4 C15.
 *
 * Built twice: flavor `asan-dbg5` (library and this file compiled with DEBUG 5: the MALLOC family maps to
 * spifmem_*, tracking is compiled in) and flavor `asan` (DEBUG 4: the MALLOC family maps to libc).
 *
 * Populations (selected by case index, see population()):
 *   A  tracker interleavings  -- spifmem_* functions and MALLOC-family macros mixed, runtime level toggled,
 *                                table compared with a shadow dictionary after every operation   (dbg5 build only)
 *   B  macro programs         -- MALLOC/CALLOC/REALLOC/STRDUP/FREE only; identical programs run in both builds; a
 *                                digest of the visible allocation semantics is compared by checks/c15.py; in the
 *                                dbg5 build the table oracle applies as well
 *   P  table primitives       -- memrec_add/find/rem/chg_var on a private table with live, stale, unknown and NULL keys
 *   O  object workload        -- strs, lists, maps created/filled/deleted through the public API at level 5:
 *                                the table must be empty afterwards                                (dbg5 build only)
 */
#define _GNU_SOURCE
#include <config.h>
#include <libast.h>
#include "vh.h"

#ifndef LIBAST_VERIF
# error "needs -DLIBAST_VERIF"
#endif
extern spifmem_memrec_t *spifmem_verif_malloc_rec(void);

#if DEBUG >= DEBUG_MEM
# define TRACKING_BUILD 1
#else
# define TRACKING_BUILD 0
#endif

typedef struct { char b[3]; } c15_unit_t;      /* CALLOC(type, n) element: 3 bytes, so size = 3 n */

/* ------------------------------------------------------------------ macro call sites (different __FILE__ lengths) */
#include "c15_sites.h"
#define SITE 0
#define SITE_FILE C15_SITE0_FILE
#define SITE_LINE C15_SITE0_LINE
#include "c15_site.h"
#undef SITE
#undef SITE_FILE
#undef SITE_LINE
#define SITE 1
#define SITE_FILE C15_SITE1_FILE
#define SITE_LINE C15_SITE1_LINE
#include "c15_site.h"
#undef SITE
#undef SITE_FILE
#undef SITE_LINE
#define SITE 2
#define SITE_FILE C15_SITE2_FILE
#define SITE_LINE C15_SITE2_LINE
#include "c15_site.h"
#undef SITE
#undef SITE_FILE
#undef SITE_LINE
#define SITE 3
#define SITE_FILE C15_SITE3_FILE
#define SITE_LINE C15_SITE3_LINE
#include "c15_site.h"
#undef SITE
#undef SITE_FILE
#undef SITE_LINE
#define SITE 4
#define SITE_FILE C15_SITE4_FILE
#define SITE_LINE C15_SITE4_LINE
#include "c15_site.h"
#undef SITE
#undef SITE_FILE
#undef SITE_LINE
#define SITE 5
#define SITE_FILE C15_SITE5_FILE
#define SITE_LINE C15_SITE5_LINE
#include "c15_site.h"
#undef SITE
#undef SITE_FILE
#undef SITE_LINE
#define SITE 6
#define SITE_FILE C15_SITE6_FILE
#define SITE_LINE C15_SITE6_LINE
#include "c15_site.h"
#undef SITE
#undef SITE_FILE
#undef SITE_LINE

#define SITEROW(i) { site_malloc_##i, site_calloc_##i, site_realloc_##i, site_strdup_##i, site_free_##i, site_file_##i }
static const struct site {
    void *(*m)(size_t, unsigned long *);
    void *(*c)(size_t, unsigned long *);
    void *(*r)(void *, size_t, unsigned long *);
    char *(*s)(const char *, unsigned long *);
    void (*f)(void **, unsigned long *);
    const char *(*file)(void);
} SITES[C15_NSITES] = { SITEROW(0), SITEROW(1), SITEROW(2), SITEROW(3), SITEROW(4), SITEROW(5), SITEROW(6) };

/* file names for the direct spifmem_* calls: lengths 0, 1, 19, 20, 21, 22, 300 (built in main) */
static const int FNAME_LENS[7] = { 0, 1, 19, 20, 21, 22, 300 };
static char fname_buf[7][304];
static const char *FNAMES[7] = { fname_buf[0], fname_buf[1], fname_buf[2], fname_buf[3], fname_buf[4], fname_buf[5], fname_buf[6] };
static const unsigned long LINES[] = { 0, 1, 2, 99, 4096, 65535, 65536, 2147483647UL, 4294967295UL };

/* ------------------------------------------------------------------ shadow dictionary */
struct shadow { void *addr; size_t size; char file[SPIFMEM_FNAME_LEN + 1]; unsigned long line; };
#define MAXSH 512
static struct shadow sh[MAXSH];
static int nsh;

static void trunc20(char *dst, const char *src)
{
    if (!src) src = "<filename null>";       /* what every tracked entry point records for a caller that passes no file name */
    size_t n = strlen(src);
    if (n > SPIFMEM_FNAME_LEN) n = SPIFMEM_FNAME_LEN;
    memcpy(dst, src, n); dst[n] = 0;
}
static int sh_find(const void *a) { for (int i = 0; i < nsh; i++) if (sh[i].addr == a) return i; return -1; }
static void sh_add(void *a, size_t size, const char *file, unsigned long line)
{
    if (nsh >= MAXSH) vh_fail("harness:shadow-full", "shadow table full");
    sh[nsh].addr = a; sh[nsh].size = size; trunc20(sh[nsh].file, file); sh[nsh].line = line; nsh++;
}
static void sh_rem(const void *a) { int i = sh_find(a); if (i >= 0) { memmove(&sh[i], &sh[i + 1], sizeof sh[0] * (size_t) (nsh - i - 1)); nsh--; } }
static void sh_chg(const void *old, void *newp, size_t size, const char *file, unsigned long line)
{
    int i = sh_find(old);
    if (i >= 0) { sh[i].addr = newp; sh[i].size = size; trunc20(sh[i].file, file); sh[i].line = line; }
}

/* compare a libast table with a shadow as sets; `live` = the records must name live heap blocks of the recorded size */
static void compare_table(const spifmem_memrec_t *t, const struct shadow *s, int ns, int live, const char *opkey)
{
    char key[80];
    vh_evals(1);
    if ((long) t->cnt != ns) {
        snprintf(key, sizeof key, "%s:count", opkey);
        vh_fail(key, "table holds %lu records, model %d live tracked blocks", (unsigned long) t->cnt, ns);
    }
    if (t->cnt && !t->ptrs) { snprintf(key, sizeof key, "%s:count", opkey); vh_fail(key, "cnt=%lu but ptrs==NULL", (unsigned long) t->cnt); }
    for (int i = 0; i < ns; i++) {
        int hits = 0; const spifmem_ptr_t *r = NULL;
        for (size_t j = 0; j < t->cnt; j++) if (t->ptrs[j].ptr == s[i].addr) { hits++; r = &t->ptrs[j]; }
        if (hits != 1) {
            snprintf(key, sizeof key, "%s:%s", opkey, hits ? "duplicate-record" : "missing-record");
            vh_fail(key, "block %d of the model (size %zu, %s:%lu) has %d records in the table", i, s[i].size, vh_qs(s[i].file), s[i].line, hits);
        }
        if (r->size != s[i].size) {
            snprintf(key, sizeof key, "%s:size", opkey);
            vh_fail(key, "record says %zu bytes, last requested size is %zu (%s:%lu)", r->size, s[i].size, vh_qs(s[i].file), s[i].line);
        }
        if (memchr(r->file, 0, sizeof r->file) == NULL || strcmp((const char *) r->file, s[i].file)) {
            snprintf(key, sizeof key, "%s:file", opkey);
            vh_fail(key, "record file %s, expected %s", vh_q(r->file, (long) strnlen((const char *) r->file, sizeof r->file)), vh_qs(s[i].file));
        }
        if ((unsigned long) r->line != (s[i].line & 0xffffffffUL)) {
            snprintf(key, sizeof key, "%s:line", opkey);
            vh_fail(key, "record line %lu, expected %lu (file %s)", (unsigned long) r->line, s[i].line, vh_qs(s[i].file));
        }
        if (live && s[i].size && vh_have_asan() && vh_alloc_size(s[i].addr) != s[i].size) {
            snprintf(key, sizeof key, "%s:not-live", opkey);
            vh_fail(key, "record for a block of %zu bytes, allocator says %zu (0 = not a live block)", s[i].size, vh_alloc_size(s[i].addr));
        }
    }
    /* counts equal and every model block matched exactly once => no other records */
}

/* ------------------------------------------------------------------ pointer pool */
enum { K_NULL = 0, K_TRACKED, K_UNTRACKED };     /* nominal kinds: as the DEBUG 5 build sees them */
struct slot { void *p; int kind; size_t size; unsigned char fill; };
#define NSLOT 40
static struct slot pool[NSLOT];
#define MAXSTALE 256
static void *stale[MAXSTALE];
static int nstale;

static spifmem_memrec_t *REC;
static int level;                 /* current runtime level */
static uint64_t dg;               /* digest of the visible semantics (population B) */
static int pop;
static long n_moved, n_same;

#define ACTIVE() (level >= DEBUG_MEM)
static void dg_add(uint64_t x) { dg = vh_mix(dg, x); }

static void add_stale(void *p) { if (p && nstale < MAXSTALE) stale[nstale++] = p; }
static void unstale(void *p) { for (int i = 0; i < nstale; i++) if (stale[i] == p) { stale[i] = stale[--nstale]; i--; } }

static void fill(struct slot *s) { if (s->p && s->size) memset(s->p, s->fill, s->size); }
static void check_fill(const struct slot *s, size_t n, const void *p, const char *opkey)
{
    char key[80];
    const unsigned char *b = p;
    for (size_t i = 0; i < n; i++) if (b[i] != s->fill) { snprintf(key, sizeof key, "%s:content", opkey); vh_fail(key, "byte %zu of the block is 0x%02x, expected 0x%02x", i, b[i], s->fill); }
}

static int pick_slot_of(int kindmask)      /* random slot whose kind is in the mask, or -1 */
{
    int c[NSLOT], n = 0;
    for (int i = 0; i < NSLOT; i++) if (kindmask & (1 << pool[i].kind)) c[n++] = i;
    return n ? c[vh_below((uint64_t) n)] : -1;
}

static size_t pick_size(void)
{
    switch (vh_below(10)) {
    case 0: return 1;
    case 1: return (size_t) vh_range(2, 8);
    case 2: return (size_t) vh_range(9, 64);
    case 3: return (size_t) vh_range(65, 700);
    case 4: return 4096;
    default: return (size_t) vh_range(1, 48);
    }
}

static void set_level(int l) { level = l; libast_debug_level = (unsigned) l; }

static void check_table(const char *opkey)
{
    if (TRACKING_BUILD || pop == 'A') compare_table(REC, sh, nsh, 1, opkey);
    else { vh_evals(1); if (REC->cnt) vh_fail("macro:untracked-build-table", "DEBUG<5 build: table has %lu records after macro-only operations", (unsigned long) REC->cnt); }
}

/* ------------------------------------------------------------------ one allocation operation */
/* via: -1 = direct spifmem_* call with (file,line) chosen here, 0..6 = macro at call site `via` */
static void do_op(void)
{
    int via = (pop == 'B') ? (int) vh_below(C15_NSITES) : (vh_coin(50) ? -1 : (int) vh_below(C15_NSITES));
    const char *file; unsigned long line = 0;
    int macro_tracks = TRACKING_BUILD && ACTIVE();
    int tracks = via < 0 ? ACTIVE() : macro_tracks;      /* does this call reach the table? */
    int op = (int) vh_below(100);
    const char *viaS = via < 0 ? "spifmem" : "MACRO";
    if (via < 0) { file = FNAMES[vh_below(7)]; line = LINES[vh_below(sizeof LINES / sizeof LINES[0])]; if (vh_coin(6)) { file = NULL; vh_count("direct_calls_without_a_file_name", 1); } }
    else file = SITES[via].file();

    if (op < 4) {                                            /* toggle the runtime level */
        int nl = ACTIVE() ? 4 : 5;
        if (vh_coin(12)) nl = ACTIVE() ? (int) vh_range(0, 3) : (int) vh_range(6, 9);
        vh_op("level %d -> %d", level, nl);
        set_level(nl);
        vh_count("level_toggles", 1);
        check_table("toggle");
        return;
    }
    if (op < 9) {                                            /* plain malloc: an untracked-live pointer */
        int i = pick_slot_of(1 << K_NULL);
        if (i < 0) return;
        size_t n = pick_size();
        vh_op("slot %d = plain malloc(%zu)", i, n);
        pool[i].p = malloc(n); pool[i].kind = K_UNTRACKED; pool[i].size = n; pool[i].fill = (unsigned char) vh_next(); fill(&pool[i]);
        unstale(pool[i].p);
        vh_count("op_plain_malloc", 1);
        check_table("plain-malloc");
        return;
    }
    if (op >= 27 && op < 36 && level == 0 && vh_coin(30)) {     /* calloc whose element count times element size does not fit: no block, no record */
        size_t cnt = ((size_t) -1) / 3 + 2 + (size_t) vh_below(1000);
        vh_op("%s calloc(%zu x 3): the product overflows", viaS, cnt);
        void *p = via < 0 ? spifmem_calloc(file, line, cnt, 3) : SITES[via].c(cnt, &line);
        vh_evals(1); dg_add(p != NULL);
        if (p) vh_fail("calloc:overflow", "calloc(%zu, 3) returned a block although %zu x 3 bytes cannot exist", cnt, cnt);
        vh_count("calloc_overflowing_requests", 1);
        check_table("calloc-overflow");
        return;
    }
    if (op < 45) {                                           /* malloc / calloc / strdup into an empty slot */
        int i = pick_slot_of(1 << K_NULL);
        if (i < 0) return;
        int which = op < 27 ? 0 : op < 36 ? 1 : 2;
        size_t n = pick_size();
        void *p; const char *opkey;
        if (which == 0) {
            if (vh_coin(3)) n = 0;
            opkey = "malloc";
            vh_op("slot %d = %s malloc(%zu) file=%s level=%d", i, viaS, n, vh_qs(file), level);
            p = via < 0 ? spifmem_malloc(file, line, n) : SITES[via].m(n, &line);
        } else if (which == 1) {
            size_t cnt = (n + 2) / 3;
            if (vh_coin(5)) { cnt = 0; vh_count("op_calloc_zero_elements", 1); }     /* a zero-element block is still a live block with a record */
            n = cnt * 3;
            opkey = "calloc";
            vh_op("slot %d = %s calloc(%zu x 3) file=%s level=%d", i, viaS, cnt, vh_qs(file), level);
            p = via < 0 ? spifmem_calloc(file, line, cnt, 3) : SITES[via].c(cnt, &line);
        } else {
            static char src[800];
            if (n > 700) n = 700;
            for (size_t k = 0; k + 1 < n; k++) src[k] = (char) ('a' + vh_below(26));
            src[n ? n - 1 : 0] = 0; if (!n) n = 1;
            opkey = "strdup";
            vh_op("slot %d = %s strdup(len %zu) file=%s level=%d", i, viaS, n - 1, vh_qs(file), level);
            p = via < 0 ? spifmem_strdup("src", file, line, src) : SITES[via].s(src, &line);
            if (p && strcmp(p, src)) vh_fail("strdup:content", "copy differs from the source string");
        }
        vh_evals(1);
        dg_add(p != NULL);
        vh_op("  -> %s", p ? "non-NULL" : "NULL");
        if (!p) { char key[40]; snprintf(key, sizeof key, "%s:null", opkey); vh_fail(key, "%s returned NULL for %zu bytes", opkey, n); }
        if (which == 1) for (size_t k = 0; k < n; k++) if (((char *) p)[k]) vh_fail("calloc:not-zeroed", "byte %zu of a calloc block is non-zero", k);
        if (n && vh_have_asan() && vh_alloc_size(p) != n) { char key[40]; snprintf(key, sizeof key, "%s:block-size", opkey); vh_fail(key, "asked for %zu bytes, block has %zu", n, vh_alloc_size(p)); }
        unstale(p);
        pool[i].p = p; pool[i].size = n; pool[i].fill = (unsigned char) vh_next();
        pool[i].kind = ACTIVE() ? K_TRACKED : K_UNTRACKED;     /* nominal */
        if (which != 2) fill(&pool[i]); else pool[i].fill = 0, memset(p, 0, n);
        if (tracks) sh_add(p, n, file, line);
        vh_count(which == 0 ? "op_malloc" : which == 1 ? "op_calloc" : "op_strdup", 1);
        if (tracks) vh_count("tracked_allocations", 1); else vh_count("untracked_allocations", 1);
        vh_cov(vh_mix(vh_mix((uint64_t) which, (uint64_t) (via < 0 ? 100 + (file ? (int) strlen(file) % 50 : 49) : via)), (uint64_t) ACTIVE() * 64 + (uint64_t) (nsh > 31 ? 31 : nsh)));
        check_table(opkey);
        return;
    }
    /* realloc / free of a pool pointer.  At an inactive level only untracked pointers and NULL are used
     * (releasing a tracked block behind the tracker's back is outside the statement). */
    {
        int mask = ACTIVE() ? ((1 << K_TRACKED) | (1 << K_UNTRACKED)) : (1 << K_UNTRACKED);
        int i = vh_coin(8) ? pick_slot_of(1 << K_NULL) : pick_slot_of(mask);
        if (i < 0) i = pick_slot_of(1 << K_NULL);
        if (i < 0) return;
        struct slot *s = &pool[i];
        int was_tracked = s->p && sh_find(s->p) >= 0;
        const char *cls = !s->p ? "NULL" : s->kind == K_TRACKED ? "tracked" : "unknown";       /* nominal: same text in both builds */
        if (op < 72) {                                       /* realloc */
            size_t n = vh_coin(12) ? 0 : pick_size();
            void *old = s->p; size_t oldn = s->size;
            vh_op("slot %d = %s realloc(%s ptr of %zu -> %zu) file=%s level=%d", i, viaS, cls, oldn, n, vh_qs(file), level);
            void *p = via < 0 ? spifmem_realloc("var", file, line, old, n) : SITES[via].r(old, n, &line);
            vh_evals(1);
            dg_add(((uint64_t) (old != NULL) << 2) | ((uint64_t) (n != 0) << 1) | (p != NULL));
            vh_op("  -> %s", p ? "non-NULL" : "NULL");
            vh_count("op_realloc", 1);
            if (old && n == 0) {                             /* realloc to size 0 frees */
                if (p) vh_fail("realloc:zero-not-freed", "realloc(p, 0) returned a block");
                if (vh_have_asan() && vh_alloc_size(old)) vh_fail("realloc:zero-not-freed", "realloc(p, 0): p is still a live block");
                if (was_tracked && tracks) sh_rem(old);
                add_stale(old);
                s->p = NULL; s->kind = K_NULL; s->size = 0;
                vh_count(was_tracked ? "realloc_zero_tracked" : "realloc_zero_unknown", 1);
                check_table(was_tracked ? "realloc-zero" : "realloc-zero-unknown");
                return;
            }
            if (!old && n == 0) {                            /* the statement's two clauses meet: NULL or a fresh block are both legal here */
                vh_count("realloc_null_zero", 1);
                if (p) {
                    unstale(p);
                    s->p = p; s->size = 0; s->kind = ACTIVE() ? K_TRACKED : K_UNTRACKED;
                    if (vh_have_asan() && !vh_alloc_size(p)) vh_fail("realloc:null-zero", "realloc(NULL, 0) returned a pointer that is not a live block");
                    /* if the implementation hands out a block it must track it like any other */
                    if (tracks) sh_add(p, 0, file, line);
                }
                check_table("realloc-null-zero");
                return;
            }
            if (!p) vh_fail("realloc:null", "realloc(%s, %zu) returned NULL", cls, n);
            if (vh_have_asan() && vh_alloc_size(p) != n) vh_fail("realloc:block-size", "asked for %zu bytes, block has %zu", n, vh_alloc_size(p));
            if (old) { check_fill(s, oldn < n ? oldn : n, p, "realloc"); if (p != old) { n_moved++; add_stale(old); vh_count("realloc_moved", 1); } else n_same++; }
            unstale(p);
            if (!old) {                                      /* realloc of NULL allocates */
                s->kind = ACTIVE() ? K_TRACKED : K_UNTRACKED;
                if (tracks) sh_add(p, n, file, line);
                vh_count("realloc_null_allocates", 1);
            } else if (was_tracked && tracks) {
                sh_chg(old, p, n, file, line);
                vh_count("realloc_tracked", 1);
            } else {
                vh_count("realloc_unknown", 1);              /* unknown pointer: table unchanged (new block stays unknown) */
            }
            s->p = p; s->size = n; fill(s);
            vh_cov(vh_mix(vh_mix(7, (uint64_t) (!old ? 0 : was_tracked ? 1 : 2)), vh_mix((uint64_t) (via < 0 ? 100 + (file ? (int) strlen(file) % 50 : 49) : via), (uint64_t) (nsh > 31 ? 31 : nsh))));
            check_table(!old ? "realloc-null" : was_tracked ? "realloc" : "realloc-unknown");
            return;
        }
        {                                                    /* free */
            void *old = s->p;
            vh_op("%s free(slot %d: %s ptr of %zu) file=%s level=%d", viaS, i, cls, s->size, vh_qs(file), level);
            if (via < 0) { spifmem_free("var", file, line, old); s->p = NULL; }
            else {
                void *arg = old;
                SITES[via].f(&arg, &line);
                vh_evals(1);
                dg_add(arg == NULL);
                if (arg != NULL) vh_fail("FREE:not-nulled", "FREE(ptr) left ptr non-NULL");
                s->p = NULL;
                vh_count("FREE_nulled_argument", 1);
            }
            vh_evals(1);
            if (old && vh_have_asan() && vh_alloc_size(old)) vh_fail("free:not-freed", "block is still live after free");
            if (old && was_tracked && tracks) sh_rem(old);
            add_stale(old);
            s->kind = K_NULL; s->size = 0;
            vh_count(!old ? "free_null" : was_tracked ? "free_tracked" : "free_unknown", 1);
            vh_cov(vh_mix(vh_mix(9, (uint64_t) (!old ? 0 : was_tracked ? 1 : 2)), vh_mix((uint64_t) (via < 0 ? 100 : via), (uint64_t) (nsh > 31 ? 31 : nsh))));
            check_table(!old ? "free-null" : was_tracked ? "free" : "free-unknown");
        }
    }
}

/* table primitives on the real table with keys that are not in it: stale (already freed) addresses, unknown live blocks, NULL */
static void probe_real_table(void)
{
    void *k; const char *cls;
    /* all random draws first, so that the number of draws never depends on addresses */
    int c = (int) vh_below(3);
    int which = (int) vh_below(3);
    uint64_t pick = vh_below(MAXSTALE);
    int us = pick_slot_of(1 << K_UNTRACKED);
    int known = (int) vh_below(MAXSH);
    if (c == 0 && nstale) { k = stale[pick % (uint64_t) nstale]; cls = "stale"; if (sh_find(k) >= 0) return; }
    else if (c == 1) { if (us < 0) return; k = pool[us].p; cls = "unknown-live"; if (sh_find(k) >= 0) return; }
    else { k = NULL; cls = "NULL"; }
    vh_op("primitive %s on the allocation table with a %s key", which == 0 ? "find" : which == 1 ? "rem" : "chg", cls);
    if (which == 0) { vh_evals(1); if (memrec_find_var(REC, k)) vh_fail("memrec_find_var:found-unknown", "found a record for a %s address", cls); }
    else if (which == 1) memrec_rem_var(REC, "var", "probe", 1, k);
    else memrec_chg_var(REC, "var", "probe", 1, k, (void *) &pool[0], 12345);
    vh_count(c == 0 ? "primitive_stale_key" : c == 1 ? "primitive_unknown_key" : "primitive_null_key", 1);
    compare_table(REC, sh, nsh, 1, which == 0 ? "memrec_find_var" : which == 1 ? "memrec_rem_var-unknown" : "memrec_chg_var-unknown");
    /* and a known key is found */
    if (nsh) {
        int i = known % nsh;
        spifmem_ptr_t *r = memrec_find_var(REC, sh[i].addr);
        vh_evals(1);
        if (!r || r->ptr != sh[i].addr) vh_fail("memrec_find_var:not-found", "a tracked live block is not found");
    }
}

/* release everything (tracking active), then: empty table, balanced heap */
static void drain_pool(void)
{
    set_level(5);
    vh_op("drain: level 5, free every pool pointer");
    for (int i = 0; i < NSLOT; i++) {
        if (!pool[i].p) continue;
        if (pop == 'B' || vh_coin(50)) { void *a = pool[i].p; unsigned long ln; SITES[vh_below(C15_NSITES)].f(&a, &ln); if (a) vh_fail("FREE:not-nulled", "FREE(ptr) left ptr non-NULL"); }
        else spifmem_free("drain", "drain", 1, pool[i].p);
        if ((TRACKING_BUILD || pop == 'A')) sh_rem(pool[i].p);
        pool[i].p = NULL; pool[i].kind = K_NULL; pool[i].size = 0;
        if (vh_coin(20)) check_table("free");
    }
    check_table("free");
    vh_evals(1);
    if (REC->cnt) vh_fail("drain:table-not-empty", "%lu records left after every block was freed", (unsigned long) REC->cnt);
}

static void reset_state(void)
{
    /* after a failed case: forget leftovers (blocks are abandoned), empty the table through the public primitive */
    int guard = 0;
    while (REC->cnt && guard++ < 2000) memrec_rem_var(REC, "reset", "reset", 0, REC->ptrs[REC->cnt - 1].ptr);
    if (REC->cnt) REC->cnt = 0;       /* a broken rem primitive must not make later cases depend on this one */
    nsh = 0; nstale = 0; memset(pool, 0, sizeof pool);
    n_moved = n_same = 0;
}

static size_t table_bytes(void) { return REC->ptrs ? vh_alloc_size(REC->ptrs) : 0; }

/* ------------------------------------------------------------------ population A / B */
static void run_interleaving(void)
{
    reset_state();
    set_level(vh_coin(70) ? 5 : 4);
    dg = 0x15;
    size_t heap0 = vh_heap_bytes() - table_bytes();
    int nops = (int) (vh_coin(15) ? vh_range(150, 300) : vh_range(5, 120));
    vh_op("population %c, %d ops, start level %d", pop, nops, level);
    for (int k = 0; k < nops; k++) {
        if (pop == 'A' && vh_coin(6)) probe_real_table();
        else do_op();
        if (nsh >= 20) vh_count("table_reached_20_records", 1), k += 0;
        if (pop == 'A' && nsh > 2 && vh_coin(1)) { vh_op("MALLOC_DUMP"); spifmem_dump_mem_tables(); vh_count("dumps", 1); }
    }
    long live_before_drain = nsh;
    drain_pool();
    size_t heap1 = vh_heap_bytes() - table_bytes();
    vh_evals(1);
    dg_add(heap1 == heap0);
    vh_op("  -> heap %s", heap1 == heap0 ? "balanced" : "NOT balanced");
    if (vh_have_asan() && heap1 != heap0)
        vh_fail("heap-balance", "heap holds %ld bytes more than before the program after every block was freed", (long) heap1 - (long) heap0);
    if (pop == 'B') vh_digest(dg);
    vh_count(pop == 'A' ? "interleavings_tracker" : "interleavings_macro", 1);
    vh_count("ops", nops);
    if (live_before_drain >= 8) vh_count("drained_8plus_records", 1);
    if (vh_coin(2)) vh_sample("population %c: %d ops, %ld records before the final drain, %ld reallocs moved the block; table empty and heap balanced at the end", pop, nops, live_before_drain, n_moved);
}

/* ------------------------------------------------------------------ population P: primitives on a private table */
static void run_primitives(void)
{
    spifmem_memrec_t t = { 0, NULL };
    static struct shadow m[MAXSH]; int nm = 0;
    static void *gone[MAXSH]; int ngone = 0;
    uintptr_t next = 0x10000;
    int nops = (int) vh_range(10, 250);
    set_level(vh_coin(50) ? 5 : 4);         /* the primitives are not level-gated */
    vh_op("population P, %d ops on a private table", nops);
    for (int k = 0; k < nops; k++) {
        int op = (int) vh_below(100);
        const char *file = FNAMES[vh_below(7)]; unsigned long line = LINES[vh_below(sizeof LINES / sizeof LINES[0])];
        const char *opkey;
        if (op < 40 && nm < 200) {
            void *a = (void *) (next += 16); size_t sz = (size_t) vh_range(0, 5000);
            vh_op("add key#%lx size %zu file %s", (unsigned long) (uintptr_t) a, sz, vh_qs(file));
            memrec_add_var(&t, file, line, a, sz);
            m[nm].addr = a; m[nm].size = sz; trunc20(m[nm].file, file); m[nm].line = line; nm++;
            opkey = "memrec_add_var"; vh_count("prim_add", 1);
        } else if (op < 75) {
            /* remove: known (first / middle / last), stale, never seen, NULL */
            int c = (int) vh_below(10); void *a;
            if (c < 6 && nm) { int i = c == 0 ? 0 : c == 1 ? nm - 1 : (int) vh_below((uint64_t) nm); a = m[i].addr; opkey = "memrec_rem_var";
                vh_op("rem known key#%lx (index %d of %d)", (unsigned long) (uintptr_t) a, i, nm);
                memmove(&m[i], &m[i + 1], sizeof m[0] * (size_t) (nm - i - 1)); nm--; if (ngone < MAXSH) gone[ngone++] = a;
                vh_count(i == 0 ? "prim_rem_first" : i == nm ? "prim_rem_last" : "prim_rem_middle", 1);
                if (nm == 0) vh_count("prim_shrunk_to_zero", 1);
            } else if (c < 8 && ngone) { a = gone[vh_below((uint64_t) ngone)]; opkey = "memrec_rem_var-unknown"; vh_op("rem stale key#%lx", (unsigned long) (uintptr_t) a); vh_count("prim_rem_stale", 1); }
            else if (c < 9) { a = (void *) (uintptr_t) 0x8; opkey = "memrec_rem_var-unknown"; vh_op("rem never-seen key"); vh_count("prim_rem_unknown", 1); }
            else { a = NULL; opkey = "memrec_rem_var-unknown"; vh_op("rem NULL key"); vh_count("prim_rem_null", 1); }
            memrec_rem_var(&t, "var", file, line, a);
        } else if (op < 92) {
            int c = (int) vh_below(10); void *a; void *nw = (void *) (next += 16); size_t sz = (size_t) vh_range(0, 5000);
            if (c < 7 && nm) { int i = (int) vh_below((uint64_t) nm); a = m[i].addr; opkey = "memrec_chg_var";
                vh_op("chg known key#%lx -> key#%lx size %zu file %s", (unsigned long) (uintptr_t) a, (unsigned long) (uintptr_t) nw, sz, vh_qs(file));
                if (ngone < MAXSH) gone[ngone++] = a;
                m[i].addr = nw; m[i].size = sz; trunc20(m[i].file, file); m[i].line = line; vh_count("prim_chg", 1);
            } else if (ngone) { a = gone[vh_below((uint64_t) ngone)]; opkey = "memrec_chg_var-unknown"; vh_op("chg stale key#%lx", (unsigned long) (uintptr_t) a); vh_count("prim_chg_stale", 1); }
            else { a = NULL; opkey = "memrec_chg_var-unknown"; vh_op("chg NULL key"); }
            memrec_chg_var(&t, "var", file, line, a, nw, sz);
        } else {
            opkey = "memrec_find_var";
            if (nm && vh_coin(60)) { int i = (int) vh_below((uint64_t) nm); spifmem_ptr_t *r = memrec_find_var(&t, m[i].addr);
                vh_op("find known key"); vh_evals(1);
                if (!r || r->ptr != m[i].addr) vh_fail("memrec_find_var:not-found", "key %d of %d not found", i, nm); }
            else if (ngone) { void *a = gone[vh_below((uint64_t) ngone)]; vh_op("find stale key"); vh_evals(1);
                if (memrec_find_var(&t, a)) vh_fail("memrec_find_var:found-unknown", "found a record for a removed key"); }
            vh_count("prim_find", 1);
        }
        compare_table(&t, m, nm, 0, opkey);
        if (t.cnt && vh_have_asan() && vh_alloc_size(t.ptrs) < t.cnt * sizeof(spifmem_ptr_t))
            vh_fail("memrec:array-too-small", "pointer array has %zu bytes for %lu records", vh_alloc_size(t.ptrs), (unsigned long) t.cnt);
        vh_cov(vh_mix(vh_mix(21, vh_hash_str(opkey, 1)), (uint64_t) (nm > 40 ? 40 : nm)));
        if (nm >= 20) vh_count("table_reached_20_records", 1);
    }
    free(t.ptrs);
    vh_count("interleavings_primitives", 1);
    vh_count("ops", nops);
}

/* ------------------------------------------------------------------ population O: object workload at level 5 */
static void run_objects(void)
{
    reset_state();
    set_level(5);
    size_t heap0 = vh_heap_bytes() - table_bytes();
    int rounds = (int) vh_range(1, 4);
    long peak = 0, nobj = 0;
    vh_op("population O: %d rounds of create/fill/delete", rounds);
    for (int r = 0; r < rounds; r++) {
        int kind = (int) vh_below(3);
        int n = (int) vh_range(1, 12);
        char buf[64];
        {   /* a list of strings */
            spif_list_t l = kind == 0 ? SPIF_LIST_NEW(array) : kind == 1 ? SPIF_LIST_NEW(linked_list) : SPIF_LIST_NEW(dlinked_list);
            vh_op("list kind %d: append %d strings, delete", kind, n);
            if (SPIF_LIST_ISNULL(l)) vh_fail("objects:list-new", "SPIF_LIST_NEW returned NULL");
            for (int i = 0; i < n; i++) {
                snprintf(buf, sizeof buf, "item-%d-%lu", i, (unsigned long) vh_below(100000));
                spif_str_t s = spif_str_new_from_ptr((spif_charptr_t) buf);
                SPIF_LIST_APPEND(l, s); nobj++;
            }
            if ((long) REC->cnt > peak) peak = (long) REC->cnt;
            vh_evals(1);
            if ((long) SPIF_LIST_COUNT(l) != n) vh_fail("objects:list-count", "list holds %ld items, %d appended", (long) SPIF_LIST_COUNT(l), n);
            if ((long) REC->cnt < n + 1) vh_fail("objects:not-tracked", "a list of %d strings is live but the table holds only %lu records", n, (unsigned long) REC->cnt);
            SPIF_LIST_DEL(l);
        }
        {   /* a map string -> string */
            int mk = (int) vh_below(3);
            spif_map_t mp = mk == 0 ? SPIF_MAP_NEW(array) : mk == 1 ? SPIF_MAP_NEW(linked_list) : SPIF_MAP_NEW(dlinked_list);
            vh_op("map kind %d: set %d pairs, delete", mk, n);
            if (SPIF_MAP_ISNULL(mp)) vh_fail("objects:map-new", "SPIF_MAP_NEW returned NULL");
            for (int i = 0; i < n; i++) {
                snprintf(buf, sizeof buf, "key-%03d", i);
                spif_str_t k = spif_str_new_from_ptr((spif_charptr_t) buf);
                snprintf(buf, sizeof buf, "value-%lu", (unsigned long) vh_below(100000));
                spif_str_t v = spif_str_new_from_ptr((spif_charptr_t) buf);
                SPIF_MAP_SET(mp, k, v);             /* the map stores duplicates of key and value ... */
                spif_str_del(k); spif_str_del(v);   /* ... so the originals are still ours to delete */
                nobj += 4;
            }
            if ((long) REC->cnt > peak) peak = (long) REC->cnt;
            SPIF_MAP_DEL(mp);
        }
        {   /* free-standing strings */
            spif_str_t a = spif_str_new_from_ptr((spif_charptr_t) "free-standing string"), b = spif_str_new_from_ptr((spif_charptr_t) "x");
            spif_str_del(a); spif_str_del(b); nobj += 2;
        }
    }
    vh_evals(1);
    if (REC->cnt) {
        /* summarise the allocation sites of the leftovers */
        char d[900]; size_t o = 0; int shown = 0;
        for (size_t a = 0; a < REC->cnt && shown < 8; a++) {
            const spifmem_ptr_t *q = &REC->ptrs[a]; int first = 1; long same = 0;
            for (size_t b = 0; b < REC->cnt; b++)
                if (REC->ptrs[b].line == q->line && !strncmp((const char *) REC->ptrs[b].file, (const char *) q->file, sizeof q->file)) { if (b < a) first = 0; same++; }
            if (!first) continue;
            o += (size_t) snprintf(d + o, sizeof d - o, " %ldx %.20s:%lu (%zu bytes)", same, (const char *) q->file, (unsigned long) q->line, q->size);
            shown++;
        }
        vh_fail("objects:table-not-empty", "%lu records left after every object was deleted; allocation sites:%s", (unsigned long) REC->cnt, d);
    }
    size_t heap1 = vh_heap_bytes() - table_bytes();
    vh_evals(1);
    if (vh_have_asan() && heap1 != heap0) vh_fail("objects:heap-balance", "heap holds %ld bytes more than before the object program", (long) heap1 - (long) heap0);
    vh_count("object_programs", 1);
    vh_count("objects_created_and_deleted", nobj);
    if (peak >= 20) vh_count("table_reached_20_records", 1);
    vh_cov(vh_mix(33, (uint64_t) (peak > 60 ? 60 : peak)));
    if (vh_coin(10)) vh_sample("population O: %ld objects created and deleted at level 5, table peaked at %ld records and is empty at the end", nobj, peak);
}

static int population(long idx)
{
    switch (idx % 8) {
    case 1: case 5: return 'B';
    case 3: return 'P';
    case 7: return 'O';
    default: return 'A';
    }
}

int main(int argc, char **argv)
{
    vh_init(argc, argv, "C15");
    for (int i = 0; i < 7; i++) {
        for (int k = 0; k < FNAME_LENS[i]; k++) fname_buf[i][k] = (char) (k < 4 ? "dir/"[k] : 'a' + (k * 7 + i) % 26);
        fname_buf[i][FNAME_LENS[i]] = 0;
    }
    spifmem_init();                       /* as a client does once at start-up */
    REC = spifmem_verif_malloc_rec();
    /* warm-up: everything the harness itself allocates lazily is allocated before any heap baseline is taken */
    vh_cov(1); vh_count("warmup", 0);
    if (!vh_verbose) { FILE *nul = fopen("/dev/null", "w"); if (nul) { stderr = nul; fprintf(stderr, "warm\n"); fflush(stderr); } }
    printf("C15 harness: DEBUG=%d tracking_build=%d\n", (int) DEBUG, TRACKING_BUILD);
    { void *w = MALLOC(8); FREE(w); }

    while (vh_next_case()) {
        pop = population(vh_case_idx);
        if (!TRACKING_BUILD && pop != 'B') { vh_case_done(); continue; }
        if (VH_CASE_TRY()) {
            switch (pop) {
            case 'A': case 'B': run_interleaving(); break;
            case 'P': run_primitives(); break;
            case 'O': run_objects(); break;
            }
        }
        vh_case_done();
    }
    set_level(0);
    return vh_finish();
}
