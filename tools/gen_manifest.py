#!/usr/bin/env python3
"""Regenerates MANIFEST.json from the table below (kept valid at all times)."""
import json, os, sys
ROOT = os.path.dirname(os.path.dirname(os.path.abspath(__file__)))
sys.path.insert(0, os.path.join(ROOT, 'checks'))

ALL = ['C%02d' % i for i in range(1, 21)]
# property -> (technique, level text, level note)
CLAIMED = {}
def claim(pid, technique, text, note):
    CLAIMED[pid] = (technique, text, note)

exec(open(os.path.join(ROOT, 'tools', 'manifest_claims.py')).read()) if os.path.exists(os.path.join(ROOT, 'tools', 'manifest_claims.py')) else None

hooks_commits = []
hc = os.path.join(ROOT, 'tools', 'hook_commits.txt')
if os.path.exists(hc):
    hooks_commits = [l.split()[0] for l in open(hc) if l.strip() and not l.startswith('#')]

m = {
    'version': 1,
    'setup_cmd': 'bin/setup',
    'hooks': {
        'guard': 'LIBAST_VERIF',
        'enable': 'harnesses compile /repo/src/*.c directly with -DLIBAST_VERIF (lib/vf.py build_lib); the repo build itself never defines it',
        'baseline_off_cmd': 'cd /repo && make -j8 >/dev/null 2>&1; make -k -j8 test',
        'source_commits': hooks_commits,
        'add_only': True,
    },
    'engines': [{'name': 'vf', 'path': 'lib/vf.py', 'serves_properties': sorted(CLAIMED), 'kind_free_text':
                 'runtime monitoring: sanitizer builds of the current tree + C harnesses with reference-model monitors, sharded over 16 processes; python runner parses sanitizer reports, matches known findings, writes evidence'}],
    'checks': [],
    'notes': 'Exit codes: 0 held on everything observed, 1 violation (VIOLATION line), 2 inconclusive/harness failure. See DESIGN.md.',
    'not_applicable': [],
}
for pid in ALL:
    if pid in CLAIMED:
        tech, text, note = CLAIMED[pid]
        m['checks'].append({
            'property_id': pid,
            'quick_cmd': 'bin/check %s --tier quick' % pid,
            'thorough_cmd': 'bin/check %s --tier thorough' % pid,
            'evidence_file': 'evidence/%s.json' % pid,
            'replay_cmd_template': 'bin/check %s --replay {path}' % pid,
            'engine': 'vf',
            'level_claimed': {'category': 'exploration', 'text': text, 'design_ref': 'DESIGN.md §4 ' + pid},
            'level_note': note,
            'technique': tech,
        })
    else:
        m['not_applicable'].append({'property_id': pid, 'reason': 'runtime-monitoring check designed (DESIGN.md §4 %s) but not yet built/validated in this tree; not claimed until it is silent on the unchanged tree and fires on mutants' % pid})
json.dump(m, open(os.path.join(ROOT, 'MANIFEST.json'), 'w'), indent=1)
print('claimed:', sorted(CLAIMED))
