/* C20: debug output and assertions are gated exactly by the compile-time and runtime levels.
 * DESIGN.md §4 C20.
 *
 * One translation unit, built seven times with -DPROBE_DEBUG=N (N in 0,1,2,3,4,5,9999): the macros
 * under test are header-only, so the compile-time level of *this* file is what is being varied; the
 * library objects (msgs.c debug.c strings.c mem.c) keep the configured level.
 *
 * case index -> cell (macro, runtime level, silent).  Every cell runs the macro once in a forked child whose
 * stdout/stderr are pipes; the child reports through a shared page how often the macro argument was
 * evaluated, whether control continued past the macro, and the value returned.  The oracle is the truth
 * table of the property statement (function expect()).
 */
#define _GNU_SOURCE
#include <config.h>
#undef DEBUG
#ifndef PROBE_DEBUG
# error "build with -DPROBE_DEBUG=N"
#endif
#define DEBUG PROBE_DEBUG
#include <libast.h>
#include <sys/mman.h>
#include <sys/wait.h>
#include <poll.h>
#include <signal.h>
#include <time.h>
#include "vh.h"

/* ------------------------------------------------------------------ shared result page */
struct shared {
    volatile int evals;      /* side-effect counter in the macro argument */
    volatile int cont;       /* control continued past the macro */
    volatile int rval;       /* value returned by the *_RVAL wrappers */
    volatile int finished;   /* the wrapper returned to the child driver */
};
static struct shared *g;

static int falsev(void) { g->evals++; return 0; }
static int truev(void) { g->evals++; return 1; }
static int one(void) { return g != 0; }       /* second operands: not counted as evaluations of the condition */
static int zero(void) { return g == 0; }
static int two(void) { return 2 * (g != 0); }

#define RET_CONT 11          /* wrapper ran to its end */
#define RET_VAL 77           /* the "stated failure value" */

/* ------------------------------------------------------------------ wrappers: one macro use each */
#define MSG "MARK<%d>\n"
static void w_d_options(void) { D_OPTIONS((MSG, ++g->evals)); g->cont = 1; }
static void w_d_obj(void) { D_OBJ((MSG, ++g->evals)); g->cont = 1; }
static void w_d_conf(void) { D_CONF((MSG, ++g->evals)); g->cont = 1; }
static void w_d_mem(void) { D_MEM((MSG, ++g->evals)); g->cont = 1; }
static void w_d_strings(void) { D_STRINGS((MSG, ++g->evals)); g->cont = 1; }
static void w_d_parse(void) { D_PARSE((MSG, ++g->evals)); g->cont = 1; }
static void w_d_never(void) { D_NEVER((MSG, ++g->evals)); g->cont = 1; }
static void w_if_options(void) { D_OPTIONS_IF { g->evals++; } g->cont = 1; }
static void w_if_obj(void) { D_OBJ_IF { g->evals++; } g->cont = 1; }
static void w_if_conf(void) { D_CONF_IF { g->evals++; } g->cont = 1; }
static void w_if_mem(void) { D_MEM_IF { g->evals++; } g->cont = 1; }
static void w_if_strings(void) { D_STRINGS_IF { g->evals++; } g->cont = 1; }
static void w_if_parse(void) { D_PARSE_IF { g->evals++; } g->cont = 1; }
static void w_dprintf0(void) { DPRINTF((MSG, ++g->evals)); g->cont = 1; }
static void w_dprintf1(void) { DPRINTF1((MSG, ++g->evals)); g->cont = 1; }
static void w_dprintf2(void) { DPRINTF2((MSG, ++g->evals)); g->cont = 1; }
static void w_dprintf3(void) { DPRINTF3((MSG, ++g->evals)); g->cont = 1; }
static void w_dprintf4(void) { DPRINTF4((MSG, ++g->evals)); g->cont = 1; }
static void w_dprintf5(void) { DPRINTF5((MSG, ++g->evals)); g->cont = 1; }
static void w_dprintf6(void) { DPRINTF6((MSG, ++g->evals)); g->cont = 1; }
static void w_dprintf7(void) { DPRINTF7((MSG, ++g->evals)); g->cont = 1; }
static void w_dprintf8(void) { DPRINTF8((MSG, ++g->evals)); g->cont = 1; }
static void w_dprintf9(void) { DPRINTF9((MSG, ++g->evals)); g->cont = 1; }
static void w_moo(void) { MOO(); g->cont = 1; }
static void w_fn_dprintf(void) { libast_dprintf(MSG, ++g->evals); g->cont = 1; }
static void w_fn_error(void) { libast_print_error(MSG, ++g->evals); g->cont = 1; }
static void w_fn_warning(void) { libast_print_warning(MSG, ++g->evals); g->cont = 1; }
static void w_fn_fatal(void) { libast_fatal_error(MSG, ++g->evals); g->cont = 1; }
static void w_abort(void) { ABORT(); g->cont = 1; }
/* conditions are compound expressions, the way the library writes its own (a == b, p && n): a macro that uses its argument
 * without parentheses misreads them */
static void w_assert_t(void) { ASSERT(truev() == one()); g->cont = 1; }
static void w_assert_f(void) { ASSERT(truev() == two()); g->cont = 1; }
static int w_assert_rval_t(void) { ASSERT_RVAL(truev() && one(), RET_VAL); g->cont = 1; return RET_CONT; }
static int w_assert_rval_f(void) { ASSERT_RVAL(truev() && zero(), RET_VAL); g->cont = 1; return RET_CONT; }
static void w_notreached(void) { ASSERT_NOTREACHED(); g->cont = 1; }
static int w_notreached_rval(void) { ASSERT_NOTREACHED_RVAL(RET_VAL); g->cont = 1; return RET_CONT; }
static void w_require_t(void) { REQUIRE(truev() == one()); g->cont = 1; }
static void w_require_f(void) { REQUIRE(truev() == two()); g->cont = 1; }
/* as the unbraced arm of an if/else: the macro must be one statement, or the else pairs with an if hidden inside it */
static void w_require_t_arm(void) { if (one()) REQUIRE(truev() == one()); else g->evals += 100; g->cont = 1; }
static int w_require_rval_t(void) { REQUIRE_RVAL(truev() && one(), RET_VAL); g->cont = 1; return RET_CONT; }
static int w_require_rval_f(void) { REQUIRE_RVAL(truev() && zero(), RET_VAL); g->cont = 1; return RET_CONT; }

enum kind { K_D, K_DIF, K_DPRINTFN, K_DPRINTF0, K_NEVER, K_MOO, K_FN_DPRINTF, K_FN_ERROR, K_FN_WARNING, K_FN_FATAL, K_ABORT,
            K_ASSERT_T, K_ASSERT_F, K_NOTREACHED, K_REQUIRE_T, K_REQUIRE_F };

static const struct macro {
    const char *name;
    enum kind kind;
    long level;                 /* subsystem level (from libast.h: DEBUG_*) or n of DPRINTFn */
    void (*fv)(void);
    int (*fi)(void);            /* set for the *_RVAL forms */
} M[] = {
    {"D_OPTIONS", K_D, DEBUG_OPTIONS, w_d_options, 0},
    {"D_OBJ", K_D, DEBUG_OBJ, w_d_obj, 0},
    {"D_CONF", K_D, DEBUG_CONF, w_d_conf, 0},
    {"D_MEM", K_D, DEBUG_MEM, w_d_mem, 0},
    {"D_STRINGS", K_D, DEBUG_STRINGS, w_d_strings, 0},
    {"D_PARSE", K_D, DEBUG_PARSE, w_d_parse, 0},
    {"D_NEVER", K_NEVER, 0, w_d_never, 0},
    {"D_OPTIONS_IF", K_DIF, DEBUG_OPTIONS, w_if_options, 0},
    {"D_OBJ_IF", K_DIF, DEBUG_OBJ, w_if_obj, 0},
    {"D_CONF_IF", K_DIF, DEBUG_CONF, w_if_conf, 0},
    {"D_MEM_IF", K_DIF, DEBUG_MEM, w_if_mem, 0},
    {"D_STRINGS_IF", K_DIF, DEBUG_STRINGS, w_if_strings, 0},
    {"D_PARSE_IF", K_DIF, DEBUG_PARSE, w_if_parse, 0},
    {"DPRINTF", K_DPRINTF0, 0, w_dprintf0, 0},
    {"DPRINTF1", K_DPRINTFN, 1, w_dprintf1, 0},
    {"DPRINTF2", K_DPRINTFN, 2, w_dprintf2, 0},
    {"DPRINTF3", K_DPRINTFN, 3, w_dprintf3, 0},
    {"DPRINTF4", K_DPRINTFN, 4, w_dprintf4, 0},
    {"DPRINTF5", K_DPRINTFN, 5, w_dprintf5, 0},
    {"DPRINTF6", K_DPRINTFN, 6, w_dprintf6, 0},
    {"DPRINTF7", K_DPRINTFN, 7, w_dprintf7, 0},
    {"DPRINTF8", K_DPRINTFN, 8, w_dprintf8, 0},
    {"DPRINTF9", K_DPRINTFN, 9, w_dprintf9, 0},
    {"MOO", K_MOO, 0, w_moo, 0},
    {"libast_dprintf", K_FN_DPRINTF, 0, w_fn_dprintf, 0},
    {"libast_print_error", K_FN_ERROR, 0, w_fn_error, 0},
    {"libast_print_warning", K_FN_WARNING, 0, w_fn_warning, 0},
    {"libast_fatal_error", K_FN_FATAL, 0, w_fn_fatal, 0},
    {"ABORT", K_ABORT, 0, w_abort, 0},
    {"ASSERT(true)", K_ASSERT_T, 0, w_assert_t, 0},
    {"ASSERT", K_ASSERT_F, 0, w_assert_f, 0},
    {"ASSERT_RVAL(true)", K_ASSERT_T, 0, 0, w_assert_rval_t},
    {"ASSERT_RVAL", K_ASSERT_F, 0, 0, w_assert_rval_f},
    {"ASSERT_NOTREACHED", K_NOTREACHED, 0, w_notreached, 0},
    {"ASSERT_NOTREACHED_RVAL", K_NOTREACHED, 0, 0, w_notreached_rval},
    {"REQUIRE(true)", K_REQUIRE_T, 0, w_require_t, 0},
    {"REQUIRE", K_REQUIRE_F, 0, w_require_f, 0},
    {"REQUIRE(true) as an if/else arm", K_REQUIRE_T, 0, w_require_t_arm, 0},
    {"REQUIRE_RVAL(true)", K_REQUIRE_T, 0, 0, w_require_rval_t},
    {"REQUIRE_RVAL", K_REQUIRE_F, 0, 0, w_require_rval_f},
};
#define NM ((int) (sizeof M / sizeof M[0]))

/* runtime levels: the stated 0..6 plus 9999 so that the positive side of DPRINTF7..9 and of the
 * 9999-class subsystem macros (D_STRINGS, D_PARSE) is observed as well */
static const unsigned RLEVELS[] = { 0, 1, 2, 3, 4, 5, 6, 9999 };
#define NR ((int) (sizeof RLEVELS / sizeof RLEVELS[0]))
#define NCELLS (NM * NR * 2)

/* ------------------------------------------------------------------ expectation (truth table of the statement) */
enum outx { O_NONE, O_SOME, O_ANY };                       /* stderr: must be empty / must be non-empty / not asserted */
enum flow { F_CONT, F_RET, F_FATAL, F_CONT_OR_RET, F_ANY_NOCRASH };
struct expect {
    enum outx out;
    const char *must1, *must2;   /* substrings required when out == O_SOME (or when O_ANY and non-empty: must1 only) */
    int ev_lo, ev_hi;
    enum flow flow;
    const char *why;
};

static struct expect expect(const struct macro *m, long C, unsigned R, int S)
{
    struct expect e = { O_NONE, NULL, NULL, 0, 0, F_CONT, "" };
    int gate;
    switch (m->kind) {
    case K_D:
    case K_DPRINTFN:
        gate = m->kind == K_D ? (C >= m->level && (long) R >= m->level) : (C >= 1 && (long) R >= m->level);
        if (!gate) { e.why = "level insufficient: no output, argument not evaluated"; break; }
        if (S) { e.out = O_NONE; e.ev_lo = 0; e.ev_hi = 1; e.why = "level sufficient but silenced: prints nothing"; break; }
        e.out = O_SOME; e.must1 = "MARK<1>"; e.ev_lo = e.ev_hi = 1; e.why = "level sufficient: output, argument evaluated once";
        break;
    case K_DIF:
        gate = (C >= m->level && (long) R >= m->level);
        e.ev_lo = e.ev_hi = gate; e.why = gate ? "level sufficient: guarded block runs" : "level insufficient: guarded block skipped";
        break;
    case K_NEVER:
        e.why = "D_NEVER: nothing, ever";
        break;
    case K_DPRINTF0:
        if (C < 1) { e.why = "debugging compiled out: no output, argument not evaluated"; break; }
        if (S) { e.out = O_NONE; e.ev_hi = 1; e.why = "silenced: prints nothing"; break; }
        e.out = O_ANY; e.must1 = "MARK<1>"; e.ev_hi = 1; e.why = "unconditional DPRINTF (statement silent): weak";
        break;
    case K_MOO:
        if (S) { e.out = O_NONE; e.why = "silenced: prints nothing"; break; }
        e.out = O_ANY; e.why = "MOO (statement silent): weak";
        break;
    case K_FN_DPRINTF:
    case K_FN_ERROR:
    case K_FN_WARNING:
        e.ev_lo = e.ev_hi = 1;
        if (S) { e.why = "silenced: messages, warnings and errors print nothing"; break; }
        e.out = O_SOME; e.must1 = "MARK<1>";
        e.must2 = m->kind == K_FN_ERROR ? "Error" : m->kind == K_FN_WARNING ? "Warning" : NULL;
        e.why = "not silenced: message printed";
        break;
    case K_FN_FATAL:
        e.ev_lo = e.ev_hi = 1; e.flow = F_FATAL;
        if (S) { e.why = "silenced fatal error: prints nothing, still terminates"; break; }
        e.out = O_SOME; e.must1 = "MARK<1>"; e.must2 = "FATAL"; e.why = "fatal error: message and termination";
        break;
    case K_ABORT:
        e.flow = F_ANY_NOCRASH;
        if (S) { e.why = "silenced: prints nothing"; break; }
        e.out = O_ANY; e.why = "ABORT (statement silent): weak";
        break;
    case K_ASSERT_T:
        if (C < 1) { e.why = "debugging compiled out: ASSERT vanishes"; break; }
        e.ev_lo = e.ev_hi = 1; e.why = "assertion holds: nothing happens";
        break;
    case K_ASSERT_F:
    case K_NOTREACHED:
        if (C < 1) {
            if (m->kind == K_ASSERT_F) { e.why = "debugging compiled out: ASSERT vanishes (not evaluated, function continues)"; break; }
            e.flow = F_CONT_OR_RET; e.why = "debugging compiled out: NOTREACHED vanishes or is a bare return (weak)";
            break;
        }
        if (m->kind == K_ASSERT_F) e.ev_lo = e.ev_hi = 1;
        if (R == 0) {
            e.flow = F_RET;
            if (S) { e.why = "failed assertion at level 0, silenced: returns the failure value, prints nothing"; break; }
            e.out = O_SOME; e.must1 = "Warning"; e.why = "failed assertion at level 0: warns and returns the failure value";
        } else {
            e.flow = F_FATAL;
            if (S) { e.why = "failed assertion at level >=1, silenced: fatal, prints nothing"; break; }
            e.out = O_SOME; e.must1 = "FATAL"; e.why = "failed assertion at level >=1: fatal";
        }
        break;
    case K_REQUIRE_T:
        e.ev_lo = e.ev_hi = 1; e.why = "requirement holds: nothing happens";
        break;
    case K_REQUIRE_F:
        e.ev_lo = e.ev_hi = 1; e.flow = F_RET;
        if (C < 1) { e.why = "debugging compiled out: bare return"; break; }
        if (R == 0) { e.why = "failed REQUIRE at level 0: only returns"; break; }
        if (S) { e.why = "failed REQUIRE at level >=1, silenced: returns, prints nothing"; break; }
        e.out = O_SOME; e.why = "failed REQUIRE at level >=1: returns and logs";
        break;
    }
    return e;
}

/* ------------------------------------------------------------------ run one cell in a child */
#define ERRCAP 3000
struct cell {
    char err[ERRCAP + 1]; size_t errn, errtotal;
    char out[256 + 1]; size_t outn, outtotal;
    int exited, code, signaled, sig, timedout;
    struct shared sh;
};

static void drain(int fd, char *buf, size_t cap, size_t *n, size_t *total, int *open)
{
    char tmp[4096];
    ssize_t r = read(fd, tmp, sizeof tmp);
    if (r <= 0) { *open = 0; return; }
    *total += (size_t) r;
    size_t room = cap - *n;
    if ((size_t) r < room) room = (size_t) r;
    memcpy(buf + *n, tmp, room); *n += room; buf[*n] = 0;
}

static void run_cell(const struct macro *m, unsigned R, int S, struct cell *c)
{
    int pe[2], po[2];
    memset(c, 0, sizeof *c);
    memset((void *) g, 0, sizeof *g);
    g->rval = -1;
    if (pipe(pe) || pipe(po)) { perror("pipe"); exit(3); }
    fflush(NULL);
    pid_t pid = fork();
    if (pid < 0) { perror("fork"); exit(3); }
    if (pid == 0) {
        dup2(po[1], 1); dup2(pe[1], 2);
        close(pe[0]); close(pe[1]); close(po[0]); close(po[1]);
        alarm(60);
        libast_debug_level = R;
        /* any non-zero flag silences: odd runtime levels use TRUE, even ones another true value */
        libast_set_silent(S ? ((R & 1) ? TRUE : (spif_bool_t) 4) : FALSE);
        if (m->fi) g->rval = m->fi(); else m->fv();
        g->finished = 1;
        fflush(NULL);
        _exit(0);
    }
    close(pe[1]); close(po[1]);
    int eo = 1, oo = 1;
    struct timespec t0, t; clock_gettime(CLOCK_MONOTONIC, &t0);
    while (eo || oo) {
        struct pollfd pf[2] = { { eo ? pe[0] : -1, POLLIN, 0 }, { oo ? po[0] : -1, POLLIN, 0 } };
        int pr = poll(pf, 2, 1000);
        if (pr > 0) {
            if (eo && pf[0].revents) drain(pe[0], c->err, ERRCAP, &c->errn, &c->errtotal, &eo);
            if (oo && pf[1].revents) drain(po[0], c->out, 256, &c->outn, &c->outtotal, &oo);
        }
        clock_gettime(CLOCK_MONOTONIC, &t);
        if (t.tv_sec - t0.tv_sec > 90) { c->timedout = 1; kill(pid, SIGKILL); break; }
    }
    close(pe[0]); close(po[0]);
    int st = 0;
    while (waitpid(pid, &st, 0) < 0 && errno == EINTR) { }
    if (WIFEXITED(st)) { c->exited = 1; c->code = WEXITSTATUS(st); }
    if (WIFSIGNALED(st)) { c->signaled = 1; c->sig = WTERMSIG(st); }
    c->sh = *g;
}

/* neutralise the time stamp of __DEBUG() for samples / details */
static const char *scrub(const char *s)
{
    static char b[700]; size_t o = 0;
    for (; *s && o < sizeof b - 2; s++) {
        if (*s == '[' && s[1] >= '0' && s[1] <= '9') { b[o++] = '['; b[o++] = 'T'; while (s[1] >= '0' && s[1] <= '9') s++; continue; }
        b[o++] = *s;
    }
    b[o] = 0;
    return b;
}

int main(int argc, char **argv)
{
    for (int i = 1; i < argc; i++)
        if (!strcmp(argv[i], "--ncells")) { printf("%d\n", NCELLS); return 0; }
    vh_init(argc, argv, "C20");
    g = mmap(NULL, 4096, PROT_READ | PROT_WRITE, MAP_SHARED | MAP_ANONYMOUS, -1, 0);
    if (g == MAP_FAILED) return 3;
    signal(SIGPIPE, SIG_IGN);
    const long C = PROBE_DEBUG;
    static struct cell c;

    while (vh_next_case()) {
        if (vh_case_idx >= NCELLS) { vh_case_done(); continue; }
        if (VH_CASE_TRY()) {
            long idx = vh_case_idx;
            const struct macro *m = &M[idx % NM];
            unsigned R = RLEVELS[idx / NM % NR];
            int S = (int) (idx / NM / NR);
            char key[96];
            struct expect e = expect(m, C, R, S);
            vh_op("compile-time DEBUG=%ld runtime level=%u silent=%d macro=%s -- expect: %s", C, R, S, m->name, e.why);
            run_cell(m, R, S, &c);
            int fin = c.sh.finished, cont = c.sh.cont;
            int sanit = strstr(c.err, "Sanitizer") != NULL || strstr(c.err, "runtime error:") != NULL;
            char cell[600];
            snprintf(cell, sizeof cell, "DEBUG=%ld level=%u silent=%d %s: exit=%s%d finished=%d continued=%d rval=%d evals=%d stderr(%zu bytes)=%s stdout(%zu)=%s",
                     C, R, S, m->name, c.signaled ? "signal " : "", c.signaled ? c.sig : c.code, fin, cont, c.sh.rval, c.sh.evals,
                     c.errtotal, vh_q(scrub(c.err), (long) (strlen(scrub(c.err)) > 160 ? 160 : strlen(scrub(c.err)))), c.outtotal, vh_q(c.out, (long) (c.outn > 40 ? 40 : c.outn)));
#define KEY(clause) (snprintf(key, sizeof key, "%s:%s", m->name, clause), key)
            /* 0. the child must not crash or hang, whatever the cell */
            vh_evals(1);
            if (c.timedout) vh_fail(KEY("hang"), "%s -- child did not terminate", cell);
            if (sanit || (c.signaled && !(c.sig == SIGABRT && e.flow == F_FATAL)))
                vh_fail(KEY(S ? "crash-when-silent" : "crash"), "%s -- expected: %s", cell, e.why);
            /* 1. nothing ever goes to stdout (LIBAST_DEBUG_FD and the message primitives use stderr) */
            vh_evals(1);
            if (c.outtotal) vh_fail(KEY("stdout"), "%s -- output on stdout", cell);
            /* 2. output */
            vh_evals(1);
            if (e.out == O_NONE && c.errtotal)
                vh_fail(KEY(S ? "output-when-silent" : "spurious-output"), "%s -- expected no output: %s", cell, e.why);
            if (e.out == O_SOME && !c.errtotal)
                vh_fail(KEY("no-output"), "%s -- expected output: %s", cell, e.why);
            if ((e.out == O_SOME || (e.out == O_ANY && c.errtotal)) && e.must1 && !strstr(c.err, e.must1))
                vh_fail(KEY("output-text"), "%s -- output lacks \"%s\": %s", cell, e.must1, e.why);
            if (e.out == O_SOME && e.must2 && !strstr(c.err, e.must2))
                vh_fail(KEY("output-text"), "%s -- output lacks \"%s\": %s", cell, e.must2, e.why);
            /* 3. argument evaluation */
            vh_evals(1);
            if (c.sh.evals < e.ev_lo || c.sh.evals > e.ev_hi)
                vh_fail(KEY(e.ev_hi == 0 ? "argument-evaluated" : "evaluation-count"), "%s -- expected %d..%d evaluations: %s", cell, e.ev_lo, e.ev_hi, e.why);
            /* 4. control flow */
            vh_evals(1);
            int is_fatal = !fin && !cont && ((c.exited && c.code != 0) || (c.signaled && c.sig == SIGABRT));
            int is_cont = fin && cont && c.exited && c.code == 0 && (!m->fi || c.sh.rval == RET_CONT);
            int is_ret = fin && !cont && c.exited && c.code == 0 && (!m->fi || c.sh.rval == RET_VAL);
            switch (e.flow) {
            case F_CONT: if (!is_cont) vh_fail(KEY("flow"), "%s -- expected control to continue past the macro: %s", cell, e.why); break;
            case F_RET:
                if (fin && !cont && m->fi && c.sh.rval != RET_VAL) vh_fail(KEY("return-value"), "%s -- expected return of %d: %s", cell, RET_VAL, e.why);
                if (!is_ret) vh_fail(KEY(is_fatal ? "fatal-instead-of-return" : "flow"), "%s -- expected an immediate return: %s", cell, e.why);
                break;
            case F_FATAL: if (!is_fatal) vh_fail(KEY("not-fatal"), "%s -- expected termination of the process: %s", cell, e.why); break;
            case F_CONT_OR_RET: if (!is_cont && !is_ret) vh_fail(KEY("flow"), "%s -- expected continue or return: %s", cell, e.why); break;
            case F_ANY_NOCRASH: break;
            }
            /* bookkeeping */
            vh_cov(vh_mix(vh_mix((uint64_t) C, (uint64_t) R * 2 + (uint64_t) S), vh_hash_str(m->name, 3)));
            vh_count("cells", 1);
            if (S) vh_count("cells_silent", 1);
            if (S && e.out == O_NONE && e.ev_hi >= 1 && c.errtotal == 0) vh_count("silenced_output_suppressed", 1);
            if (c.errtotal) vh_count("cells_with_output", 1);
            if (e.out == O_NONE && e.ev_hi == 0 && c.sh.evals == 0) vh_count("cells_argument_not_evaluated", 1);
            if (is_fatal) { vh_count("fatal_exits_observed", 1); if (c.exited && c.code == 255) vh_count("fatal_exit_status_255", 1); }
            if (e.flow == F_RET && is_ret) vh_count("failure_returns_observed", 1);
            if (e.flow == F_RET && e.out == O_SOME && m->kind != K_REQUIRE_F) vh_count("assert_warnings_observed", 1);
            if (m->kind == K_REQUIRE_F && e.out == O_SOME) vh_count("require_logs_observed", 1);
            if ((m->kind == K_ASSERT_F) && C < 1 && is_cont) vh_count("assert_vanished_observed", 1);
            if ((m->kind == K_D || m->kind == K_DPRINTFN) && e.out == O_SOME) vh_count("gated_output_observed", 1);
            if ((m->kind == K_D && m->level >= 9999 && e.out == O_SOME)) vh_count("class9999_output_observed", 1);
            if ((m->kind == K_ASSERT_F && R == 0 && !S) || (m->kind == K_REQUIRE_F && R == 1 && !S) || (m->kind == K_D && m->level == 3 && R == 3 && !S) || (m->kind == K_FN_FATAL && R == 2))
                vh_sample("%s", cell);
        }
        vh_case_done();
    }
    return vh_finish();
}
