"""C03: the three map classes are one finite dictionary.  DESIGN.md §4 C03, App. A.3."""
import vf

EXH_CASES = 7 * 7
EXH_TOTAL = 7 ** 6


def build(flavor='asan'):
    return vf.build_harness('c03', flavor, ['c03.c'])


def rebuild_for_replay(rec):
    return build()


def run(chk):
    chk.run('asan', build(), chk.pick(700, 30000))
    if not chk.quick():
        r = chk.run('exhaustive', build(), (EXH_CASES + vf.NCPU - 1) // vf.NCPU, args=['--mode', 'exh'], timeout=3000)
        n = r.counts.get('exh_sequences', 0)
        chk.cov['exhaustive_small_scope'] = ('all %d sequences of length 6 (prefixes = lengths 1..5) over set/remove of 3 keys and dup (caller '
                                             'objects overwritten and deleted after every set): %d run' % (EXH_TOTAL, n))
        if n != EXH_TOTAL and not r.violations:
            chk.inconclusive.append('exhaustive enumeration ran %d of %d sequences' % (n, EXH_TOTAL))
    chk.rule = ('case = one random history (1..160 map operations; 1..200 keys in play so overwrite, remove-smallest, remove-largest, '
                'remove-only, remove-then-reinsert and use-after-removal all occur; set through key+value and through an objpair with NULL '
                'value; after every set the caller overwrites its key/value text in place and deletes the objects, by coin; dup copies join '
                'the pool) applied in lock-step to array, linked_list, dlinked_list maps and a reference dictionary; after every operation '
                'each class is compared with the model on the return value and on a full read-back (count, walk of the public struct, fresh '
                'iterator incl. exhaustion, get_keys: all must equal the ascending model sequence; get/has_key for the present keys, both '
                'ends, just outside both ends and absent keys; has_value) plus the structural invariants of C02(d); distinct = (size '
                'bucket, previous mutator, operation, key class, what the caller did to its objects) tuples')
    for name, m in (('set', 500), ('set_pair', 100), ('remove', 300), ('get', 100), ('has_key', 40), ('has_value', 40), ('dup', 30), ('dup_empty', 3),
                    ('get_keys', 30), ('get_values', 20), ('get_pairs', 30), ('iterate', 20),
                    ('set_new_key', 300), ('set_existing_key', 100), ('set_below_min', 50), ('set_above_max', 50),
                    ('caller_key_overwritten', 200), ('caller_value_overwritten', 200), ('caller_objects_deleted_before_readback', 200),
                    ('removed_smallest', 50), ('removed_largest', 50), ('removed_only_entry', 20), ('followup_after_remove', 50),
                    ('op_after_remove', 100), ('op_after_dup', 20), ('iter_exhaustion_checks', 1000), ('struct_walks', 1000)):
        chk.require(name, m)
    chk.min_cases = 1000
    chk.coverage(build('cov'), 200)       # thorough tier: gcov line coverage of the anchored sources under this workload
