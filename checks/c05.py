"""C05: object protocol -- dup independent & equal, comp a consistent order, type names the class."""
import vf


def build(flavor='asan'):
    return vf.build_harness('c05', flavor, ['c05.c'])


def rebuild_for_replay(rec):
    return build()


def run(chk):
    exe = build()
    r = chk.run('asan', exe, chk.pick(12000, 800000))
    chk.rule = ('case index selects (class of 16: str ustr mbuff objpair tok url regexp and list/vector/map x array/linked/dlinked, scenario); '
                'dup scenario: object from a random construction history -> dup -> class/type()/value/representation checks -> mutate copy, mutate '
                'original, done/del one, mutate survivor, all against canonical renderings; comp scenario: 7 objects incl. NULL, duplicates of '
                'equal value and (containers) objects in far-apart heap regions -> reflexive/antisymmetric/transitive/NULL-first on the full '
                '7x7 matrix, strict-prefix pairs for buffers; distinct = distinct (class, canonical value) for dup, distinct value-sets for comp')
    for k in ('str', 'ustr', 'mbuff', 'objpair', 'tok', 'url', 'regexp', 'array_list', 'linked_list_list', 'dlinked_list_list',
              'array_vector', 'linked_list_vector', 'dlinked_list_vector', 'array_map', 'linked_list_map', 'dlinked_list_map'):
        chk.require(k, 20)
        chk.require('comp_' + k, 10)
    chk.require('comp_far_address_sets', 10)
    chk.require('prefix_pairs', 10)
    chk.require('comp_near_relatives', 50)
    chk.require('comp_equal_pairs_checked', 50)
    chk.min_cases = 1000
    chk.coverage(build('cov'), 600)       # thorough tier: gcov line coverage of the anchored sources under this workload
