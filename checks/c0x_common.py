"""Shared by checks/c09.py, c10.py, c11.py: link-time wrappers of harness/c0x_conf.h (DESIGN §3.3)."""
import vf

# must equal CX_WRAP_LIST in harness/c0x_conf.h
WRAPS = ('system fork vfork execve execv execvp execl execlp execle popen posix_spawn posix_spawnp '
         'getenv libast_print_error libast_print_warning rand srand fgets').split()

ASAN_FILL_85 = {'ASAN_OPTIONS': vf.ASAN_ENV['ASAN_OPTIONS'].replace('malloc_fill_byte=190', 'malloc_fill_byte=85')}


def build(name, flavor='asan'):
    return vf.build_harness(name, flavor, [name + '.c'], wraps=WRAPS)

MEMCHECK = ['valgrind', '-q', '--error-exitcode=99', '--track-origins=yes', '--num-callers=12']
