#!/usr/bin/env python3
"""tools/seed_prep.py <PROP> [N] [suffix]: scratch worktree /tmp/seed-<PROP><suffix> + prompt /tmp/seedprompt-<PROP><suffix>.txt"""
import sys, json, subprocess
pid = sys.argv[1]; n = sys.argv[2] if len(sys.argv) > 2 else '4'; suf = sys.argv[3] if len(sys.argv) > 3 else ''
props = {json.loads(l)['id']: json.loads(l) for l in open('/verif/properties.jsonl')}
wt = subprocess.run(['/verif/tools/seed_setup.sh', pid + suf], stdout=subprocess.PIPE, text=True).stdout.strip().splitlines()[-1]
p = props[pid]
t = open('/verif/tools/seed_prompt.tmpl').read()
t = (t.replace('{WT}', wt).replace('{ID}', pid).replace('{TITLE}', p['title']).replace('{STATEMENT}', p['statement'])
      .replace('{QUANT}', p['quantifier']['text']).replace('{FILES}', ', '.join(p['anchors']['files'])).replace('{N}', n))
t += ('\nPractical notes: the test suite\'s socket test binds a fixed TCP port and can fail spuriously with "Address already in use" when other '
      'processes run the same suite at the same time — re-run before concluding that a change broke a test. Name the seed directories '
      '%s%s-1 .. %s%s-%s.\n' % (pid, suf, pid, suf, n))
open('/tmp/seedprompt-%s%s.txt' % (pid, suf), 'w').write(t)
print(wt, '/tmp/seedprompt-%s%s.txt' % (pid, suf))
