"""C07: mbuff objects are faithful byte-sequence values under any history (DESIGN.md §4 C07, App. A.1)."""
import os, re, glob, shutil, subprocess, tempfile
import vf

SRCS = ['c07.c']


def build(flavor='asan'):
    return vf.build_harness('c07', flavor, SRCS)


def rebuild_for_replay(rec):
    return build()


def line_coverage(chk):
    exe = build('cov')
    libdir = os.path.dirname(vf.build_lib('cov')[0])
    tmp = tempfile.mkdtemp(prefix='gcov-', dir=vf.BUILD)
    try:
        # the objects were compiled in a scratch directory that was renamed afterwards: redirect the .gcda files
        r = vf.run_harness(exe, chk.prop, chk.seed, 120, tier=chk.tier, label='cov', env={'GCOV_PREFIX': tmp, 'GCOV_PREFIX_STRIP': '99'})
        shutil.rmtree(getattr(r, 'outdir', tmp), ignore_errors=True)    # findings of the unsanitized build are not verdict inputs
        shutil.copy(os.path.join(libdir, 'mbuff.gcno'), tmp)
        out = subprocess.run(['gcov', '-o', tmp, os.path.join(vf.SRC, 'src', 'mbuff.c')], cwd=tmp, stdout=subprocess.PIPE,
                             stderr=subprocess.STDOUT, text=True).stdout
        m = re.search(r"File '[^']*mbuff\.c'\s*Lines executed:([0-9.]+)% of (\d+)", out)
        missed = []
        gp = os.path.join(tmp, 'mbuff.c.gcov')
        if os.path.exists(gp):
            for l in open(gp, errors='replace'):
                a = l.split(':', 2)
                if len(a) == 3 and a[0].strip() == '#####':
                    missed.append(int(a[1]))
        return {'cases': r.cases, 'lines_executed_pct': float(m.group(1)) if m else None, 'lines': int(m.group(2)) if m else None,
                'lines_never_executed': missed[:200]}
    finally:
        shutil.rmtree(tmp, ignore_errors=True)


def run(chk):
    exe = build()
    per = chk.pick(700, 30000)          # histories per shard: 4 000 quick, 100 000 thorough
    chk.run('asan', exe, per)
    if not chk.quick():
        # same generator under pattern-initialised locals (an uninitialised cursor then points nowhere) ...
        chk.run('asan-pat', build('asan-pat'), 600)
        # ... and line coverage of mbuff.c under the workload, so a reader sees which lines no execution reached
        try:
            chk.cov['gcov_mbuff_c'] = line_coverage(chk)
        except Exception as e:          # coverage is a report, never a verdict
            chk.assumptions.append('gcov line coverage not collected: %s' % e)
    chk.rule = ('case = one random history of 1-60 operations over a pool of <=6 mbuff objects (cases 32-35: exhaustive single-step table '
                'splice/splice_from_ptr/subbuff/subbuff_to_ptr x idx,cnt in [-L-2,L+2] x insert length {0,1,3} for L in {0,1,2,5}); every constructor '
                '(new, new_from_ptr, new_from_buff, new_from_fd/new_from_fp on a pipe and on a memfd/tmpfile regular file with lengths '
                '0,1,4095..4097,8192,3*4096+k, dup, subbuff) and mutator (append*, prepend*, splice*, trim, reverse, clear incl. 0, sprintf, done + every '
                'init form, del) through direct calls and through the class table; after every operation all live objects are compared with a byte '
                'model (bytes, length, buff/len/size invariant, sanitizer block size >= reported size) and a query battery runs on the touched object '
                '(index/rindex present+absent, find*, subbuff*, cmp/comp/cmp_with_ptr/ncmp/ncmp_with_ptr with equal/prefix/longer/differing operands); '
                'heap balance per del/done/case; distinct = distinct (operation or query, route, representation+length class of the object, argument class) tuples')
    chk.assumptions += ['ncmp on a strict-prefix pair, splice with a negative count and an empty regular file are weak-assertion regions (App. A.1)',
                        'cmp_with_ptr/ncmp_with_ptr with a pointer operand longer than the object are generated in the 32 probe cases 0-31 only '
                        '(an implementation reading that far aborts the process)',
                        'the SPIF_MBUFF_<METHOD>() convenience macros of mbuff.h do not compile; the class-table route uses SPIF_MBUFF_CALL_METHOD']
    need = {
        'histories': 3000, 'operations': 50000, 'table_cases': 4, 'table_steps': 1000,
        'new': 100, 'new_from_ptr': 300, 'new_from_buff': 200, 'new_from_fd': 200, 'new_from_fp': 200, 'dup': 200, 'subbuff': 100,
        'fd-pipe': 150, 'fd-regular-file': 150, 'fp-pipe': 150, 'fp-regular-file': 150,
        'stream_over_one_chunk': 80, 'file_over_one_chunk': 80,
        'append': 1000, 'append_from_ptr': 1000, 'prepend': 800, 'prepend_from_ptr': 800, 'splice': 500, 'splice_from_ptr': 500,
        'splice_ok': 800, 'refused_splice': 500, 'splice_null_insert': 30, 'splice_negative_count_weak': 50,
        'trim': 800, 'trim_empty': 20, 'trim_all_blank': 50, 'trim_padded': 100, 'reverse': 500, 'clear': 400, 'sprintf': 500,
        'sprintf_embedded_nul': 20, 'done': 500, 'init': 30, 'init_from_ptr': 30, 'init_from_buff': 60, 'init_from_fd': 60, 'init_from_fp': 60,
        'del': 300, 'first_op_on_empty': 200, 'add_to_empty_null_buffer': 100, 'add_to_empty_with_buffer': 100, 'alias_operand': 100,
        'buffer_moved': 1000, 'alloc_size_checked': 100000,
        'scan_absent': 50000, 'scan_absent_len0': 3000, 'scan_absent_len1': 3000, 'scan_present': 50000, 'scan_present_len1': 3000,
        'find_present': 20000, 'find_absent': 20000, 'find_empty_needle': 5000,
        'subbuff_ok': 20000, 'subbuff_to_ptr_ok': 20000, 'refused_subbuff': 20000,
        'cmp_equal_prefix_other_length': 5000, 'cmp_with_ptr_operand_not_longer': 20000,
        'ncmp_strong': 20000, 'ncmp_with_ptr_cnt_beyond_len': 3000, 'ncmp_weak_region': 2000, 'null_object_probe': 30,
        'heap_balance_checked': 3000, 'del_release_checked': 3000, 'done_release_checked': 300,
    }
    for k, v in need.items():
        chk.require(k, v)
    chk.min_cases = 16 * per - 40      # the 32 probe cases may end in a (known) abort, which also voids the case before it in that process
