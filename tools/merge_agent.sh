#!/bin/bash
# tools/merge_agent.sh <X>: cherry-pick the commits of /tmp/lw-X (branch fix-X) onto /repo main, oldest first, skipping tmp(...) commits
set -e
X=$1
cd /repo
git fetch -q /tmp/lw-$X fix-$X
for c in $(git rev-list --reverse 585bfc1..FETCH_HEAD); do
  subj=$(git log -1 --format=%s $c)
  case "$subj" in
    tmp*) echo "SKIP $c $subj"; continue;;
  esac
  if git log --format=%s 585bfc1..HEAD | grep -qxF "$subj"; then continue; fi
  if git cherry-pick $c >/dev/null 2>&1; then echo "OK   $(git rev-parse --short HEAD) $subj"; else echo "CONFLICT $c $subj"; git status --short | head; exit 1; fi
done
