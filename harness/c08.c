/* C08: the option parser assigns exactly what the command line says and nothing else.
 * DESIGN.md §4 C08, Appendix A.4.
 *
 * Three case families (case index decides, see main()):
 *   exhaustive  - every argv of length <= L over a 12-token alphabet, for 4 fixed tables and the 6 pass
 *                 schedules (L = 2 quick, 3 thorough); safety clause only
 *   well-formed - random table, abstract command -> random spelling printer -> argv; a reference reader of the
 *                 *abstract command* (never of argv) gives the expected targets / argv; strong oracle
 *   arbitrary   - random table (also hostile short letters, NULL targets), random hostile words; safety clause only
 *
 * Everything the parser may touch is its own exact-size heap block (table, long names, every target, argv[argc+1],
 * every word) so that a stray read or write is a sanitizer report.  Termination is decided by a logical step
 * counter (wrapped libast_print_error/warning, help handler, abstract handlers), bound 4*(argv bytes)+16.
 */
#define _GNU_SOURCE
#include <config.h>
#include <libast.h>
#include <stdarg.h>
#include <setjmp.h>
#include <signal.h>
#include <sys/time.h>
#include "vh.h"

#define MAXOPT   10
#define MAXITEM  12
#define MAXW     6
#define MAXARGV  24
#define MAXCALL  64

enum { K_BOOL, K_INT, K_STR, K_ARGS, K_ABST };
static const char *KNAME[] = { "bool", "int", "str", "args", "abst" };
enum { SP_SHORT, SP_GLUED, SP_SHORT_SEP, SP_LONG, SP_LONG_EQ, SP_LONG_SEP };
static const char *SPNAME[] = { "short", "glued", "short_sep", "long", "long_eq", "long_sep" };

/* ------------------------------------------------------------------ table */
typedef struct {
    int kind, pp, dep, nulltarget;
    char sh;
    const char *lname;
    int tgt;                 /* bool: index of the (possibly shared) bitfield */
    uint32_t mask;
    void *target;            /* heap block handed to the parser */
} optdef_t;

static optdef_t T[MAXOPT];
static int NT;
static unsigned long *btgt[MAXOPT];
static unsigned long bcanary[MAXOPT];
static uint32_t bunion[MAXOPT];
static int nbt;
static spifopt_t *tab, *tab_copy;
static char tabdesc[700];

#define INT_SENTINEL 0x5ea71e55
static char str_sentinel[] = "<unset>";
static char *args_sentinel[1] = { NULL };

/* ------------------------------------------------------------------ argv */
static char *bw[MAXARGV];           /* words being built */
static int bn;
static int argc0;
static char **av;
static char *orig_ptr[MAXARGV + 1];
static char *orig_txt[MAXARGV + 1];
static long argv_bytes;
static char argvdesc[600];

/* ------------------------------------------------------------------ step counter / wrappers */
static long steps, step_bound, n_err, n_warn, n_help;
static volatile sig_atomic_t in_parse;
static sigjmp_buf parse_env;
static int wd_fired;            /* CPU-time backstop firings in this process */

static void step(void)
{
    if (!in_parse) return;
    if (++steps > step_bound) { in_parse = 0; siglongjmp(parse_env, 2); }
}
/* Backstop only: a loop that makes no observable call cannot be counted.  One spifopt_parse() call on <= 24 words
 * costs ~1e-5 s; 3 s of *process CPU time* (ITIMER_VIRTUAL, so machine load does not matter) inside one call is a hang. */
static void on_vtalrm(int sig) { (void) sig; if (in_parse) { in_parse = 0; siglongjmp(parse_env, 3); } }
static void wd_arm(int on)
{
    struct itimerval it;
    memset(&it, 0, sizeof it);
    if (on) { if (wd_fired) it.it_value.tv_usec = 300000; else it.it_value.tv_sec = 3; }
    setitimer(ITIMER_VIRTUAL, &it, NULL);
}

void __wrap_libast_print_error(const char *fmt, ...)
{
    char buf[512];
    va_list ap;
    va_start(ap, fmt);
    vsnprintf(buf, sizeof buf, fmt, ap);     /* touches every argument the real function would read */
    va_end(ap);
    if (vh_verbose) fprintf(stderr, "    [error] %s", buf);
    n_err++;
    step();
}
void __wrap_libast_print_warning(const char *fmt, ...)
{
    char buf[512];
    va_list ap;
    va_start(ap, fmt);
    vsnprintf(buf, sizeof buf, fmt, ap);
    va_end(ap);
    if (vh_verbose) fprintf(stderr, "    [warning] %s", buf);
    n_warn++;
    step();
}
static void help_count(void) { n_help++; step(); }
static void help_giveup(void) { n_help++; if (in_parse) { in_parse = 0; siglongjmp(parse_env, 1); } }

static struct { int j; int isnull; char v[96]; } calls[MAXCALL];
static int ncalls;
static void abst_record(int j, spif_charptr_t v)
{
    if (ncalls < MAXCALL) {
        calls[ncalls].j = j;
        calls[ncalls].isnull = (v == NULL);
        if (v) snprintf(calls[ncalls].v, sizeof calls[0].v, "%s", (char *) v); else calls[ncalls].v[0] = 0;
    }
    ncalls++;
    step();
}
#define H(n) static void abst_h##n(spif_charptr_t v) { abst_record(n, v); }
H(0) H(1) H(2) H(3) H(4) H(5) H(6) H(7) H(8) H(9)
static spifopt_abstract_handler_t ABH[MAXOPT] = { abst_h0, abst_h1, abst_h2, abst_h3, abst_h4, abst_h5, abst_h6, abst_h7, abst_h8, abst_h9 };

/* returns 0 parse returned, 1 help handler gave up (legal: it "does not return"), 2 step bound exceeded,
 * 3 CPU-time backstop fired */
static int run_parse(int argc, char **argv)
{
    int r;
    steps = 0;
    r = sigsetjmp(parse_env, 1);
    if (r == 0) {
        in_parse = 1;
        wd_arm(1);
        spifopt_parse(argc, argv);
    }
    in_parse = 0;
    wd_arm(0);
    if (r == 3) wd_fired++;
    return r;
}

/* ------------------------------------------------------------------ small helpers */
static char arena[16384];
static size_t arena_n;
static char *arena_fmt(const char *fmt, ...)
{
    va_list ap;
    char *p = arena + arena_n;
    size_t room = sizeof arena - arena_n;
    if (room < 160) { arena_n = 0; p = arena; room = sizeof arena; }   /* never happens within one case */
    va_start(ap, fmt);
    int n = vsnprintf(p, room, fmt, ap);
    va_end(ap);
    if (n < 0) n = 0;
    if ((size_t) n >= room) n = (int) room - 1;
    arena_n += (size_t) n + 1;
    return p;
}

static const char *TRUEW[] = { "1", "on", "true", "yes", "ON", "True", "YES", "yEs" };
static const char *FALSEW[] = { "0", "off", "false", "no", "OFF", "False", "NO", "nO" };
static int is_boolword(const char *s)
{
    static const char *w[] = { "1", "on", "true", "yes", "0", "off", "false", "no" };
    for (int i = 0; i < 8; i++) if (!strcasecmp(s, w[i])) return 1;
    return 0;
}
#define PICK(a) ((a)[vh_below(sizeof(a) / sizeof((a)[0]))])

static const char *LNAMES[] = {
    "file", "filename", "f", "fi", "exec", "ex", "color", "colour", "debug", "debug-level", "no", "on", "yes", "name", "n", "x",
    "verbose", "version", "v", "geometry", "geom", "theme", "login", "map-alert", "reverse-video", "scrollbar", "buttonbar",
    "foo", "bar", "a", "b1", "a-rather-long-option-name", "0", "true", "t", "args", "arg", "e", "display", "num"
};
#define NLNAMES ((int) (sizeof LNAMES / sizeof LNAMES[0]))
static const char SHORTSAFE[] = "bcdghjkmpqvwxz";                 /* cannot spell a boolean word (App. A.4) */
static const char SHORTANY[] = "bcdghjkmpqvwxzonefayt10ulsr?=";    /* arbitrary population only */

static const char *PLAINW[] = { "foo", "bar.txt", "some", "stuff", "a=b", "x y", "123", "=", "file name", "w", "eatme", "Zed",
    "/usr/bin", "42abc", "+x", "a-b", "", "help", "me", "rhonda", "yes", "no", "on", "off", "true", "false", "1", "0", "TRUE", "Off" };
static const char *STRV[] = { "somefile", "mytheme", "This is a name", "foo:0", "a=b", "=x", "x", "0", "yes", "off", "12", "a-b",
    "  lead", "with\ttab", "q\"uote", "it's", "back\\slash", "trail ", "ssh foo@bar.com", "n", "false" };
static const char *ARGW[] = { "ssh", "foo@bar.com", "ls", "-l", "a", "b=c", "--x", "/bin/sh", "0", "yes", "-", "x=" };
static const char *TRAILW[] = { "blah", "-d", "eatme", "--foo", "-", "--", "-abc", "--name=x", "help", "me", "rhonda", "", "a b",
    "yes", "0", "=", "\"q\"", "--exec=a b" };

/* ------------------------------------------------------------------ table construction */
static void table_begin(void)
{
    NT = 0; nbt = 0; arena_n = 0; tabdesc[0] = 0;
    memset(T, 0, sizeof T);
    memset(bunion, 0, sizeof bunion);
}
static void table_add(int kind, int pp, char sh, const char *lname, int tgt, uint32_t mask, int dep, int nulltarget)
{
    optdef_t *o = &T[NT++];
    o->kind = kind; o->pp = pp; o->sh = sh; o->lname = lname; o->tgt = tgt; o->mask = mask; o->dep = dep; o->nulltarget = nulltarget;
    if (kind == K_BOOL && tgt >= nbt) nbt = tgt + 1;
}
static void table_finish(void)
{
    size_t o = 0;
    for (int k = 0; k < nbt; k++) {
        bcanary[k] = vh_next();
        btgt[k] = malloc(sizeof(unsigned long));
        *btgt[k] = bcanary[k];
    }
    tab = malloc(sizeof(spifopt_t) * (size_t) NT);
    memset(tab, 0, sizeof(spifopt_t) * (size_t) NT);
    for (int j = 0; j < NT; j++) {
        optdef_t *d = &T[j];
        unsigned flags = 0;
        switch (d->kind) {
            case K_BOOL: flags = SPIFOPT_FLAG_BOOLEAN; d->target = btgt[d->tgt]; bunion[d->tgt] |= d->mask; break;
            case K_INT:  flags = SPIFOPT_FLAG_INTEGER; d->target = malloc(sizeof(int)); *(int *) d->target = INT_SENTINEL; break;
            case K_STR:  flags = SPIFOPT_FLAG_STRING;  d->target = malloc(sizeof(char *)); *(char **) d->target = str_sentinel; break;
            case K_ARGS: flags = SPIFOPT_FLAG_ARGLIST; d->target = malloc(sizeof(char **)); *(char ***) d->target = args_sentinel; break;
            case K_ABST: flags = SPIFOPT_FLAG_ABSTRACT; d->target = NULL; break;
        }
        if (d->pp) flags |= SPIFOPT_FLAG_PREPARSE;
        if (d->dep) flags |= SPIFOPT_FLAG_DEPRECATED;
        tab[j].short_opt = d->sh;
        tab[j].long_opt = (spif_charptr_t) vh_heapstr(d->lname);
        tab[j].desc = (spif_charptr_t) vh_heapstr("d");
        tab[j].flags = (spif_uint16_t) flags;
        tab[j].mask = d->mask;
        if (d->kind == K_ABST) tab[j].value = d->nulltarget ? NULL : (void *) ABH[j];
        else if (d->nulltarget) { if (d->kind != K_BOOL) { free(d->target); d->target = NULL; } tab[j].value = d->target; }
        else tab[j].value = d->target;
        if (o < sizeof tabdesc - 80) {
            o += (size_t) snprintf(tabdesc + o, sizeof tabdesc - o, "%s%d:%s%s", j ? " " : "", j, KNAME[d->kind], d->pp ? "_pp" : "");
            if (d->sh) o += (size_t) snprintf(tabdesc + o, sizeof tabdesc - o, " -%c", d->sh);
            o += (size_t) snprintf(tabdesc + o, sizeof tabdesc - o, " --%s", d->lname);
            if (d->kind == K_BOOL) o += (size_t) snprintf(tabdesc + o, sizeof tabdesc - o, " t%d m=0x%x", d->tgt, d->mask);
            if (d->nulltarget) o += (size_t) snprintf(tabdesc + o, sizeof tabdesc - o, " NULLTARGET");
            if (d->dep) o += (size_t) snprintf(tabdesc + o, sizeof tabdesc - o, " dep");
            o += (size_t) snprintf(tabdesc + o, sizeof tabdesc - o, ";");
        }
    }
    tab_copy = vh_heapdup(tab, sizeof(spifopt_t) * (size_t) NT);
}

static void gen_table(int arbitrary)
{
    char letters[40];
    int nl, names[NLNAMES], ntg;
    table_begin();
    int n = (int) vh_range(1, MAXOPT);
    strcpy(letters, arbitrary && vh_coin(50) ? SHORTANY : SHORTSAFE);
    nl = (int) strlen(letters);
    for (int i = nl - 1; i > 0; i--) { int k = (int) vh_below((uint64_t) i + 1); char t = letters[i]; letters[i] = letters[k]; letters[k] = t; }
    for (int i = 0; i < NLNAMES; i++) names[i] = i;
    for (int i = NLNAMES - 1; i > 0; i--) { int k = (int) vh_below((uint64_t) i + 1); int t = names[i]; names[i] = names[k]; names[k] = t; }
    ntg = (int) vh_range(1, 3);
    for (int j = 0; j < n; j++) {
        int kind = (int) vh_below(5);
        if (vh_coin(15)) kind = K_BOOL;
        uint32_t mask = 0;
        if (kind == K_BOOL) {
            mask = vh_coin(70) ? (uint32_t) 1 << vh_below(32) : (uint32_t) vh_next();
            if (!mask) mask = 0x80000000u;
        }
        table_add(kind, vh_coin(35), vh_coin(72) ? letters[j] : 0, LNAMES[names[j]], (int) vh_below((uint64_t) ntg), mask,
                  vh_coin(4), arbitrary && kind != K_BOOL && vh_coin(4));
    }
    table_finish();
}

/* fixed tables + alphabets of the exhaustive family */
#define NALPHA 12
static const char *ALPHA[4][NALPHA] = {
    { "-a", "-avf", "somefile", "-n1", "-n", "-e", "-eX", "--exec=", "-", "--dillhole", "no", "--num=0x10" },
    { "-t", "mytheme", "--name", "--exec=ssh foo", "--exec=\"a b\" c", "--scrollbar", "no", "-mld", "--color", "4", "--foo", "--" },
    { "-", "--", "--abs", "--abs=-", "--on=off", "--ON", "--i", "-5", "--s=", "--rest", "--rest= ", "x" },
    { "-on", "-no", "-off", "-y", "-yes", "-1", "-t", "--true", "-r", "--r=a 'b c", "yes", "--o=1" },
};
static void fixed_table(int which)
{
    table_begin();
    switch (which) {
        case 0:
            table_add(K_BOOL, 0, 'a', "agony", 0, 0x01, 0, 0);
            table_add(K_BOOL, 0, 0, "dillhole", 0, 0x08, 0, 0);
            table_add(K_ARGS, 0, 'e', "exec", 0, 0, 0, 0);
            table_add(K_STR, 0, 'f', "file", 0, 0, 0, 0);
            table_add(K_INT, 0, 'n', "num", 0, 0, 0, 0);
            table_add(K_BOOL, 1, 'v', "verbose", 0, 0x10, 0, 0);
            break;
        case 1:
            table_add(K_STR, 1, 'd', "display", 0, 0, 0, 0);
            table_add(K_ARGS, 1, 'e', "exec", 0, 0, 0, 0);
            table_add(K_BOOL, 1, 'l', "login", 0, 0x01, 0, 0);
            table_add(K_BOOL, 0, 'm', "map-alert", 0, 0x02, 0, 0);
            table_add(K_STR, 0, 'n', "name", 0, 0, 0, 0);
            table_add(K_ABST, 1, 't', "theme", 0, 0, 0, 0);
            table_add(K_BOOL, 0, 0, "scrollbar", 0, 0x10, 0, 0);
            table_add(K_INT, 0, 0, "color", 0, 0, 0, 0);
            table_add(K_ARGS, 0, 0, "foo", 0, 0, 0, 0);
            break;
        case 2:
            table_add(K_ABST, 0, 0, "abs", 0, 0, 0, 0);
            table_add(K_BOOL, 0, 0, "on", 0, 0x80000000u, 0, 0);
            table_add(K_INT, 1, 0, "i", 0, 0, 0, 0);
            table_add(K_STR, 0, 0, "s", 0, 0, 0, 0);
            table_add(K_ARGS, 0, 0, "rest", 0, 0, 0, 0);
            break;
        default:
            table_add(K_BOOL, 0, 'o', "o", 0, 0x01, 0, 0);
            table_add(K_BOOL, 0, 'n', "on", 0, 0x02, 0, 0);
            table_add(K_BOOL, 1, 'f', "off", 1, 0x04, 0, 0);
            table_add(K_STR, 0, 'y', "yes", 0, 0, 0, 0);
            table_add(K_INT, 0, '1', "one", 0, 0, 0, 0);
            table_add(K_ABST, 0, 't', "true", 0, 0, 0, 0);
            table_add(K_ARGS, 1, 'r', "r", 0, 0, 0, 0);
            break;
    }
    table_finish();
}

static void free_table(void)
{
    for (int j = 0; j < NT; j++) {
        free(tab[j].long_opt); free(tab[j].desc);
        if (T[j].kind != K_BOOL && T[j].target) free(T[j].target);
    }
    for (int k = 0; k < nbt; k++) free(btgt[k]);
    free(tab); free(tab_copy);
}

/* ------------------------------------------------------------------ argv construction */
static void push_word(const char *s) { if (bn < MAXARGV - 1) bw[bn++] = vh_heapstr(s); }
static void append_to_word(int idx, const char *s)
{
    size_t a = strlen(bw[idx]), b = strlen(s);
    char *p = malloc(a + b + 1);
    memcpy(p, bw[idx], a); memcpy(p + a, s, b + 1);
    free(bw[idx]); bw[idx] = p;
}
static void argv_begin(void) { bn = 0; push_word("prog"); }
static void argv_finish(void)
{
    size_t o = 0;
    argc0 = bn;
    av = malloc(sizeof(char *) * (size_t) (argc0 + 1));
    argv_bytes = 0;
    argvdesc[0] = 0;
    for (int k = 0; k < argc0; k++) {
        av[k] = bw[k];
        orig_ptr[k] = bw[k];
        orig_txt[k] = vh_heapstr(bw[k]);
        argv_bytes += (long) strlen(bw[k]) + 1;
        if (k && o < sizeof argvdesc - 60) o += (size_t) snprintf(argvdesc + o, sizeof argvdesc - o, "%s%.48s", k > 1 ? " " : "", vh_qs(bw[k]));
    }
    av[argc0] = NULL; orig_ptr[argc0] = NULL; orig_txt[argc0] = NULL;
    step_bound = 4 * argv_bytes + 16;
}
static void free_argv(void)
{
    for (int k = 0; k < argc0; k++) { free(orig_ptr[k]); free(orig_txt[k]); }
    free(av);
}

/* ------------------------------------------------------------------ abstract command (well-formed population) */
typedef struct {
    int is_opt, j, sp, truth, nw, trailing, noval;
    const char *val;
    const char *w[MAXW];
    const char *word;
} item_t;
static item_t IT[MAXITEM];
static int nitems;

static const char *gen_int(void)
{
    switch (vh_below(10)) {
        case 0: return "0";
        case 1: return "2147483647";
        case 2: return "-2147483648";
        case 3: return arena_fmt("0x%lx", (long) vh_below(0x7fffffff));
        case 4: return arena_fmt("0%lo", (long) vh_below(07777777));
        case 5: return arena_fmt("-%ld", (long) vh_below(100000));
        case 6: return arena_fmt("+%ld", (long) vh_below(1000));
        default: return arena_fmt("%ld", vh_range(-2147483647L, 2147483647L) / (vh_coin(50) ? 1 : 65536));
    }
}

static void gen_items(void)
{
    int want = (int) vh_range(0, 7), words = 0;
    nitems = 0;
    while (nitems < want && words < 8 && nitems < MAXITEM) {
        item_t *it = &IT[nitems], *prev = nitems ? &IT[nitems - 1] : NULL;
        memset(it, 0, sizeof *it);
        if (vh_coin(28)) {
            const char *w;
            do w = PICK(PLAINW); while (prev && prev->is_opt && T[prev->j].kind == K_BOOL && is_boolword(w));
            if (prev && prev->is_opt && prev->noval) {
                /* a value-less abstract option would read this word as its value: give it a value of its own */
                prev->noval = 0; prev->val = PICK(STRV);
                if (prev->sp == SP_SHORT) prev->sp = vh_coin(50) ? SP_GLUED : SP_SHORT_SEP; else prev->sp = vh_coin(50) ? SP_LONG_EQ : SP_LONG_SEP;
                words++;
            }
            it->word = w; words++;
        } else {
            int j = (int) vh_below((uint64_t) NT);
            optdef_t *o = &T[j];
            it->is_opt = 1; it->j = j; it->truth = 1;
            switch (o->kind) {
                case K_BOOL:
                    if (o->sh && vh_coin(50)) it->sp = SP_SHORT;
                    else {
                        int r = (int) vh_below(10);
                        it->sp = r < 4 ? SP_LONG : r < 7 ? SP_LONG_EQ : SP_LONG_SEP;
                        if (it->sp != SP_LONG) { it->truth = vh_coin(50); it->val = it->truth ? PICK(TRUEW) : PICK(FALSEW); }
                    }
                    break;
                case K_INT: case K_STR: case K_ABST:
                    if (o->kind == K_ABST && vh_coin(25)) { it->noval = 1; it->sp = o->sh && vh_coin(50) ? SP_SHORT : SP_LONG; break; }
                    it->val = o->kind == K_INT ? gen_int() : PICK(STRV);
                    /* a string value may look like an option, even like one of this table: it is still the value */
                    if (o->kind == K_STR && vh_coin(8)) {
                        optdef_t *q = &T[vh_below((uint64_t) NT)];
                        it->val = (q->sh && vh_coin(50)) ? arena_fmt("-%c", q->sh) : arena_fmt("--%s", q->lname);
                        vh_count("wf_string_value_spelling_an_option", 1);
                    }
                    if (o->sh && vh_coin(50)) it->sp = vh_coin(50) ? SP_GLUED : SP_SHORT_SEP; else it->sp = vh_coin(50) ? SP_LONG_EQ : SP_LONG_SEP;
                    /* --long= with nothing after the '=': the value of a string option is the empty string */
                    if (o->kind == K_STR && vh_coin(7)) { it->val = ""; it->sp = SP_LONG_EQ; vh_count("wf_empty_long_eq_value", 1); }
                    break;
                case K_ARGS:
                    it->nw = (int) vh_range(1, 4);
                    if (vh_coin(50)) { it->sp = SP_LONG_EQ; for (int k = 0; k < it->nw; k++) it->w[k] = PICK(ARGW); }
                    else { it->trailing = 1; it->sp = o->sh && vh_coin(50) ? (vh_coin(40) ? SP_GLUED : SP_SHORT_SEP) : SP_LONG_SEP; for (int k = 0; k < it->nw; k++) it->w[k] = PICK(TRAILW);
                           if (it->sp == SP_GLUED && !it->w[0][0]) it->sp = SP_SHORT_SEP;     /* "-x" + "" would be the separate spelling of a shorter list */ }
                    break;
            }
            words += 1 + (it->sp == SP_SHORT_SEP || it->sp == SP_LONG_SEP) + (it->trailing ? it->nw - 1 : 0);
        }
        nitems++;
        if (it->trailing) break;
    }
}

/* the spelling printer */
static uint64_t shape_hash;
static void print_items(void)
{
    int bundle = -1;        /* index of an argv word consisting so far of "-" + boolean letters only */
    char tmp[400];
    argv_begin();
    shape_hash = 0x1234;
    for (int i = 0; i < nitems; i++) {
        item_t *it = &IT[i];
        if (!it->is_opt) { push_word(it->word); bundle = -1; shape_hash = vh_mix(shape_hash, 99); vh_count("wf_plain_word", 1); continue; }
        optdef_t *o = &T[it->j];
        int bundled = 0;
        char l[2] = { o->sh, 0 };
        const char *value = it->val;
        if (o->kind == K_ARGS && it->sp == SP_LONG_EQ) {
            size_t n = 0;
            tmp[0] = 0;
            if (vh_coin(8)) n += (size_t) snprintf(tmp + n, sizeof tmp - n, " ");
            for (int k = 0; k < it->nw; k++) n += (size_t) snprintf(tmp + n, sizeof tmp - n, "%s%s", k ? (vh_coin(85) ? " " : vh_coin(50) ? "  " : "\t") : "", it->w[k]);
            if (vh_coin(8)) n += (size_t) snprintf(tmp + n, sizeof tmp - n, " ");
            value = arena_fmt("%s", tmp);
        }
        switch (it->sp) {
            case SP_SHORT: case SP_GLUED: case SP_SHORT_SEP:
                if (bundle >= 0 && vh_coin(60)) { append_to_word(bundle, l); bundled = 1; }
                else { snprintf(tmp, sizeof tmp, "-%s", l); push_word(tmp); bundle = bn - 1; }
                if (it->sp == SP_GLUED) {
                    /* -xVALUE for an argument-list option: the list is VALUE followed by the rest of the line */
                    if (it->trailing) { append_to_word(bundle, it->w[0]); for (int k = 1; k < it->nw; k++) push_word(it->w[k]); vh_count("wf_arglist_glued", 1); }
                    else append_to_word(bundle, value);
                }
                if (it->sp == SP_SHORT_SEP) { if (it->trailing) for (int k = 0; k < it->nw; k++) push_word(it->w[k]); else push_word(value); }
                if (o->kind != K_BOOL) bundle = -1;
                break;
            case SP_LONG: snprintf(tmp, sizeof tmp, "--%s", o->lname); push_word(tmp); bundle = -1; break;
            case SP_LONG_EQ: snprintf(tmp, sizeof tmp, "--%s=%s", o->lname, value); push_word(tmp); bundle = -1; break;
            case SP_LONG_SEP:
                snprintf(tmp, sizeof tmp, "--%s", o->lname); push_word(tmp);
                if (it->trailing) for (int k = 0; k < it->nw; k++) push_word(it->w[k]); else push_word(value);
                bundle = -1; break;
        }
        shape_hash = vh_mix(shape_hash, (uint64_t) (o->kind * 2 + o->pp) * 16 + (uint64_t) it->sp * 2 + (uint64_t) bundled);
        vh_count(arena_fmt("wf_sp_%s", SPNAME[it->sp]), 1);
        vh_count(arena_fmt("wf_kind_%s%s", KNAME[o->kind], o->pp ? "_pp" : ""), 1);
        if (bundled) vh_count("wf_sp_bundled", 1);
        if (o->kind == K_BOOL && it->val) vh_count(it->truth ? "wf_boolword_true" : "wf_boolword_false", 1);
        if (it->trailing) vh_count("wf_arglist_trailing", 1);
        if (o->kind == K_ARGS && !it->trailing) vh_count("wf_arglist_eq", 1);
        if (it->noval) vh_count("wf_abstract_novalue", 1);
    }
    argv_finish();
}

/* ------------------------------------------------------------------ the reference reader (of the abstract command) */
typedef struct {
    unsigned long b[MAXOPT];
    int iset[MAXOPT], ival[MAXOPT];
    const char *sval[MAXOPT];
    int aset[MAXOPT], an[MAXOPT];
    const char *aw[MAXOPT][MAXW];
    int ncall;
    struct { int j; const char *v; } call[MAXCALL];
} model_t;
static model_t M;

static void model_init(void)
{
    memset(&M, 0, sizeof M);
    for (int k = 0; k < nbt; k++) M.b[k] = bcanary[k];
}
static void model_pass(int pass_pp)
{
    for (int i = 0; i < nitems; i++) {
        item_t *it = &IT[i];
        if (!it->is_opt) continue;
        optdef_t *o = &T[it->j];
        if (o->pp != pass_pp) continue;           /* an occurrence takes effect only in its own pass */
        switch (o->kind) {
            case K_BOOL: M.b[o->tgt] = (M.b[o->tgt] & ~(unsigned long) o->mask) | (it->truth ? (unsigned long) o->mask : 0UL); break;
            case K_INT: M.iset[it->j] = 1; M.ival[it->j] = (int) strtol(it->val, NULL, 0); break;
            case K_STR: M.sval[it->j] = it->val; break;
            case K_ARGS: M.aset[it->j] = 1; M.an[it->j] = it->nw; for (int k = 0; k < it->nw; k++) M.aw[it->j][k] = it->w[k]; break;
            case K_ABST: if (M.ncall < MAXCALL) { M.call[M.ncall].j = it->j; M.call[M.ncall].v = it->noval ? NULL : it->val; M.ncall++; } break;
        }
    }
}

#define CTX "table{%s} argv[%s] %s"
#define CTXA tabdesc, argvdesc, when

static void check_common(const char *when, const char *pfx)
{
    char key[64];
    /* the parser never writes the words or the table */
    for (int k = 0; k < argc0; k++) {
        vh_evals(1);
        if (memcmp(orig_ptr[k], orig_txt[k], strlen(orig_txt[k]) + 1)) {
            snprintf(key, sizeof key, "%s:argv-text", pfx);
            vh_fail(key, "word %d was %s, now %s; " CTX, k, vh_qs(orig_txt[k]), vh_q(orig_ptr[k], (long) strlen(orig_txt[k]) + 1), CTXA);
        }
    }
    vh_evals(1);
    if (memcmp(tab, tab_copy, sizeof(spifopt_t) * (size_t) NT)) {
        snprintf(key, sizeof key, "%s:table-written", pfx);
        vh_fail(key, "the option table changed during parsing; " CTX, CTXA);
    }
}
static void check_argv_unchanged(const char *when, const char *pfx)
{
    char key[64];
    for (int k = 0; k <= argc0; k++) {
        vh_evals(1);
        if (av[k] != orig_ptr[k]) {
            snprintf(key, sizeof key, "%s:argv-changed-without-removal", pfx);
            vh_fail(key, "argv[%d] changed (now %s) although no removal may happen in this pass; " CTX, k, av[k] ? "another pointer" : "NULL", CTXA);
        }
    }
}

static void check_wf(const char *when, int r, int pass_pp, int rm_flag, int flags_before)
{
    /* bad-option accounting */
    vh_evals(3);
    if (r == 2) vh_fail("wf:non-termination", "more than %ld logical steps (errors=%ld help=%ld); " CTX, step_bound, n_err, n_help, CTXA);
    if (r == 3) vh_fail("wf:hang-watchdog", "one spifopt_parse call used the whole CPU-time backstop without reaching the logical step bound (steps=%ld); " CTX, steps, CTXA);
    if (r == 1 || n_err || n_help || SPIFOPT_BADOPTS_GET() != 0)
        vh_fail("wf:badopts", "well-formed command line reported as bad: BADOPTS=%d errors=%ld help=%ld; " CTX, (int) SPIFOPT_BADOPTS_GET(), n_err, n_help, CTXA);
    if (argc0 > 1) {
        int want = flags_before & ~SPIFOPT_SETTING_PREPARSE;
        if ((int) SPIFOPT_FLAGS_GET() != want)
            vh_fail("wf:flags", "flags 0x%x before, 0x%x after, expected 0x%x; " CTX, flags_before, (int) SPIFOPT_FLAGS_GET(), want, CTXA);
    }
    /* targets */
    for (int k = 0; k < nbt; k++) {
        unsigned long got = *btgt[k], want = M.b[k];
        vh_evals(1);
        vh_count("wf_canary_checked", 1);
        if (got != want) {
            if ((got ^ want) & ~(unsigned long) bunion[k])
                vh_fail("wf:bool-foreign-bits", "bitfield t%d: got 0x%lx, expected 0x%lx; bits outside every option mask (0x%x) changed; " CTX, k, got, want, bunion[k], CTXA);
            vh_fail("wf:bool", "bitfield t%d: got 0x%lx, expected 0x%lx; " CTX, k, got, want, CTXA);
        }
    }
    for (int j = 0; j < NT; j++) {
        optdef_t *o = &T[j];
        const char *key_other = o->pp != pass_pp ? "wf:other-pass" : NULL;
        if (o->pp != pass_pp && o->kind != K_BOOL && o->kind != K_ABST) vh_count("wf_other_pass_checked", 1);
        switch (o->kind) {
            case K_INT: {
                int got = *(int *) o->target, want = M.iset[j] ? M.ival[j] : INT_SENTINEL;
                vh_evals(1);
                if (got != want) vh_fail(key_other ? key_other : "wf:int", "option %d (--%s): int target %d, expected %d%s; " CTX, j, o->lname, got, want, M.iset[j] ? "" : " (untouched)", CTXA);
                break;
            }
            case K_STR: {
                char *got = *(char **) o->target;
                vh_evals(1);
                if (!M.sval[j]) {
                    if (got != str_sentinel) vh_fail(key_other ? key_other : "wf:string", "option %d (--%s): string target assigned although the command line does not set it in this pass; " CTX, j, o->lname, CTXA);
                } else if (got == str_sentinel || got == NULL || strcmp(got, M.sval[j]))
                    vh_fail(key_other ? key_other : "wf:string", "option %d (--%s): string target %s, expected %s; " CTX, j, o->lname,
                            got == str_sentinel ? "untouched" : vh_qs(got), vh_qs(M.sval[j]), CTXA);
                break;
            }
            case K_ARGS: {
                char **got = *(char ***) o->target;
                vh_evals(1);
                if (!M.aset[j]) {
                    if (got != args_sentinel) vh_fail(key_other ? key_other : "wf:arglist", "option %d (--%s): argument list assigned although the command line does not set it in this pass; " CTX, j, o->lname, CTXA);
                } else {
                    if (got == args_sentinel || got == NULL) vh_fail("wf:arglist", "option %d (--%s): argument list %s, expected %d words; " CTX, j, o->lname, got ? "untouched" : "NULL", M.an[j], CTXA);
                    for (int k = 0; k < M.an[j]; k++)
                        if (!got[k] || strcmp(got[k], M.aw[j][k]))
                            vh_fail("wf:arglist", "option %d (--%s): word %d of the argument list is %s, expected %s (of %d); " CTX, j, o->lname, k, vh_qs(got[k]), vh_qs(M.aw[j][k]), M.an[j], CTXA);
                    if (got[M.an[j]] != NULL)
                        vh_fail("wf:arglist", "option %d (--%s): argument list has more than the expected %d words (next: %s); " CTX, j, o->lname, M.an[j], vh_qs(got[M.an[j]]), CTXA);
                }
                break;
            }
            default: break;
        }
    }
    vh_evals(1);
    if (ncalls != M.ncall)
        vh_fail("wf:abstract", "%d abstract handler calls, expected %d; " CTX, ncalls, M.ncall, CTXA);
    for (int c = 0; c < M.ncall; c++) {
        int bad = calls[c].j != M.call[c].j || calls[c].isnull != (M.call[c].v == NULL) || (M.call[c].v && strcmp(M.call[c].v, calls[c].v));
        if (bad) vh_fail("wf:abstract", "abstract call %d: handler %d value %s, expected handler %d value %s; " CTX, c, calls[c].j,
                         calls[c].isnull ? "NULL" : vh_qs(calls[c].v), M.call[c].j, vh_qs(M.call[c].v), CTXA);
    }
    /* argv */
    check_common(when, "wf");
    if (pass_pp || !rm_flag) check_argv_unchanged(when, "wf");
    else {
        int weak = 0, nwords = 0;
        const char *words[MAXITEM];
        for (int i = 0; i < nitems; i++) {
            if (!IT[i].is_opt) words[nwords++] = IT[i].word;
            else if (IT[i].trailing && T[IT[i].j].pp) weak = 1;     /* App. A.4: its words are neither options nor plain words */
        }
        vh_evals(1);
        if (av[0] != orig_ptr[0]) vh_fail("wf:argv-removal", "argv[0] changed; " CTX, CTXA);
        if (!weak) {
            vh_count("wf_removal_checked", 1);
            for (int k = 0; k < nwords; k++)
                if (!av[k + 1] || strcmp(av[k + 1], words[k]))
                    vh_fail("wf:argv-removal", "after removal argv[%d] is %s, expected the plain word %s (%d plain words in all); " CTX, k + 1, vh_qs(av[k + 1]), vh_qs(words[k]), nwords, CTXA);
            if (av[nwords + 1] != NULL)
                vh_fail("wf:argv-removal", "after removal argv[%d] is %s, expected the terminating NULL after %d plain words; " CTX, nwords + 1, vh_qs(av[nwords + 1]), nwords, CTXA);
        } else {
            /* weak: NULL-terminated, pointer subsequence of the original words, containing the plain words in order */
            int src = 1, w = 0, k;
            vh_count("wf_removal_weak", 1);
            for (k = 1; k <= argc0 && av[k]; k++) {
                while (src < argc0 && orig_ptr[src] != av[k]) src++;
                if (src >= argc0) vh_fail("wf:argv-removal", "after removal argv[%d] is not one of the remaining original words in order; " CTX, k, CTXA);
                src++;
                if (w < nwords && !strcmp(av[k], words[w])) w++;
            }
            if (k > argc0) vh_fail("wf:argv-removal", "argv lost its terminating NULL; " CTX, CTXA);
            if (w != nwords) vh_fail("wf:argv-removal", "only %d of %d plain words survived removal; " CTX, w, nwords, CTXA);
        }
    }
}

/* ------------------------------------------------------------------ arbitrary population: the safety clause */
static int is_suffix_of_some_word(const char *s)
{
    size_t n = strlen(s);
    for (int k = 0; k < argc0; k++) {
        size_t l = strlen(orig_txt[k]);
        if (n <= l && !strcmp(orig_txt[k] + (l - n), s)) return 1;
    }
    return 0;
}
static int is_subseq_of_some_word(const char *s)
{
    for (int k = 0; k < argc0; k++) {
        const char *p = s, *w = orig_txt[k];
        for (; *w && *p; w++) if (*w == *p) p++;
        if (!*p) return 1;
    }
    return 0;
}
static int is_int_of_some_suffix(int v)
{
    for (int k = 0; k < argc0; k++) {
        size_t l = strlen(orig_txt[k]);
        for (size_t o = 0; o <= l; o++) if ((int) strtol(orig_txt[k] + o, NULL, 0) == v) return 1;
    }
    return 0;
}

static void check_arb(const char *when, int r, int pass_pp, int rm_flag)
{
    vh_evals(1);
    if (r == 2) vh_fail("arb:non-termination", "more than %ld logical steps (errors=%ld warnings=%ld help=%ld abstract=%d) - the parser does not advance; " CTX, step_bound, n_err, n_warn, n_help, ncalls, CTXA);
    if (r == 3) vh_fail("arb:hang-watchdog", "one spifopt_parse call used the whole CPU-time backstop without reaching the logical step bound (steps=%ld); " CTX, steps, CTXA);
    if (SPIFOPT_BADOPTS_GET()) vh_count("arb_badopts_counted", 1);
    for (int k = 0; k < nbt; k++) {
        vh_evals(1);
        if ((*btgt[k] ^ bcanary[k]) & ~(unsigned long) bunion[k])
            vh_fail("arb:bool-foreign-bits", "bitfield t%d: 0x%lx -> 0x%lx, bits outside every option mask (0x%x) changed; " CTX, k, bcanary[k], *btgt[k], bunion[k], CTXA);
    }
    for (int j = 0; j < NT; j++) {
        optdef_t *o = &T[j];
        if (!o->target) continue;
        switch (o->kind) {
            case K_INT: {
                int got = *(int *) o->target;
                vh_evals(1);
                if (got != INT_SENTINEL && !is_int_of_some_suffix(got)) vh_fail("arb:int-wild", "option %d (--%s): int target %d is not the value of any argv text; " CTX, j, o->lname, got, CTXA);
                break;
            }
            case K_STR: {
                char *got = *(char **) o->target;
                vh_evals(1);
                if (got != str_sentinel && (!got || !is_suffix_of_some_word(got)))
                    vh_fail("arb:string-wild", "option %d (--%s): string target %s is not taken from argv; " CTX, j, o->lname, vh_qs(got), CTXA);
                break;
            }
            case K_ARGS: {
                char **got = *(char ***) o->target;
                vh_evals(1);
                if (got == args_sentinel) break;
                if (!got) vh_fail("arb:arglist-wild", "option %d (--%s): argument list target is NULL; " CTX, j, o->lname, CTXA);
                for (int k = 0; got[k]; k++) {
                    if (k >= 64) vh_fail("arb:arglist-wild", "option %d (--%s): argument list has no terminator within 64 entries; " CTX, j, o->lname, CTXA);
                    if (!is_subseq_of_some_word(got[k])) vh_fail("arb:arglist-wild", "option %d (--%s): word %d (%s) is not taken from argv; " CTX, j, o->lname, k, vh_qs(got[k]), CTXA);
                }
                break;
            }
            default: break;
        }
    }
    for (int c = 0; c < ncalls && c < MAXCALL; c++) {
        vh_evals(1);
        if (!calls[c].isnull && !is_suffix_of_some_word(calls[c].v))
            vh_fail("arb:abstract-wild", "abstract handler %d got %s, which is not taken from argv; " CTX, calls[c].j, vh_qs(calls[c].v), CTXA);
    }
    check_common(when, "arb");
    if (pass_pp || !rm_flag) check_argv_unchanged(when, "arb");
    else if (r == 0) {
        int k;
        vh_evals(1);
        if (av[0] != orig_ptr[0]) vh_fail("arb:argv-wild", "argv[0] changed; " CTX, CTXA);
        for (k = 1; k <= argc0 && av[k]; k++) {
            int found = 0;
            for (int s = 1; s < argc0; s++) if (orig_ptr[s] == av[k]) found = 1;
            if (!found) vh_fail("arb:argv-wild", "after removal argv[%d] is not one of the original words; " CTX, k, CTXA);
        }
        if (k > argc0) vh_fail("arb:argv-wild", "argv lost its terminating NULL; " CTX, CTXA);
        vh_count("arb_removal_checked", 1);
    }
}

/* hostile words relative to the current table */
static const char *HOSTV[] = { "", " ", "-", "--", "-x", "--nope", "\"a b\" c", "'a b'", "\"a b", "a\\", "\\\"", "a  b ", " a", "yes", "maybe",
    "-5", "0x", "12abc", "=", "a=b", "\"\"", "' '", "\\", "a\\\"b c", "x\\\"y \"p\\\"q\" z", "\t", "99999999999999999999" };
static const char *arb_word(void)
{
    optdef_t *o = &T[vh_below((uint64_t) NT)];
    char l = o->sh ? o->sh : PICK(SHORTANY);
    switch (vh_below(24)) {
        case 0: return "-";
        case 1: return "--";
        case 2: return PICK(HOSTV);
        case 3: return vh_coin(50) ? "" : "---";
        case 4: return arena_fmt("-%c", "Q?%Z-= "[vh_below(7)]);
        case 5: return vh_coin(50) ? "--nope" : vh_coin(50) ? "--nope=1" : vh_coin(50) ? "--=" : "--=x";
        case 6: return PICK(PLAINW);
        case 7: return vh_coin(50) ? PICK(TRUEW) : PICK(FALSEW);
        case 8: return gen_int();
        case 9: case 10: return arena_fmt("-%c", l);
        case 11: return arena_fmt("-%c%s", l, vh_coin(50) ? PICK(HOSTV) : PICK(STRV));
        case 12: {
            char b[8]; int n = (int) vh_range(2, 6);
            for (int i = 0; i < n; i++) { optdef_t *p = &T[vh_below((uint64_t) NT)]; b[i] = p->sh && vh_coin(75) ? p->sh : PICK(SHORTANY); }
            b[n] = 0;
            return arena_fmt("-%s", b);
        }
        case 13: case 14: return arena_fmt("--%s", o->lname);
        case 15: return arena_fmt("--%s=", o->lname);
        case 16: case 17: return arena_fmt("--%s=%s", o->lname, vh_coin(60) ? PICK(HOSTV) : vh_coin(50) ? PICK(STRV) : PICK(TRUEW));
        case 18: { char *s = arena_fmt("--%s", o->lname); for (char *p = s + 2; *p; p++) if (vh_coin(60)) *p = (char) toupper((unsigned char) *p); return s; }
        case 19: { char *s = arena_fmt("--%s", o->lname); if (strlen(s) > 3) s[strlen(s) - 1] = 0; return s; }
        case 20: return arena_fmt("--%s%c", o->lname, "x-=1"[vh_below(4)]);
        case 21: return arena_fmt("-%c=%s", l, PICK(STRV));
        case 22: return vh_coin(50) ? PICK(STRV) : PICK(TRAILW);
        default: return arena_fmt("--%s==%s", o->lname, PICK(HOSTV));
    }
}

/* ------------------------------------------------------------------ running one case */
static void reset_settings(int flags, int allow_bad, spifopt_helphandler_t h)
{
    memset(&spifopt_settings, 0, sizeof spifopt_settings);
    SPIFOPT_OPTLIST_SET(tab);
    SPIFOPT_NUMOPTS_SET(NT);
    SPIFOPT_ALLOWBAD_SET(allow_bad);
    SPIFOPT_BADOPTS_SET(0);
    SPIFOPT_HELPHANDLER_SET(h);
    SPIFOPT_FLAGS_SET(flags);
    n_err = n_warn = n_help = 0;
    ncalls = 0;
}

static const char *MODENAME[] = { "normal", "normal+remove", "preparse", "preparse+remove", "preparse->normal", "preparse->normal+remove" };

static void release_parser_allocations(void)
{
    for (int j = 0; j < NT; j++) {
        optdef_t *o = &T[j];
        if (!o->target) continue;
        if (o->kind == K_STR) { char *s = *(char **) o->target; if (s != str_sentinel) free(s); }
        if (o->kind == K_ARGS) {
            char **a = *(char ***) o->target;
            if (a != args_sentinel && a) { for (int k = 0; a[k]; k++) free(a[k]); free(a); }
        }
    }
}

/* wellformed = 1: strong oracle.  policy: 0 ALLOWBAD=255 + counting handler, 1 small ALLOWBAD + handler that gives up,
 * 2 small ALLOWBAD + counting handler that returns */
static void run_case(int wellformed, int mode, int policy, int allow_small)
{
    int rm = (mode == 1 || mode == 3 || mode == 5);
    int first_pp = mode >= 2;
    int two = mode >= 4;
    int flags = (first_pp ? SPIFOPT_SETTING_PREPARSE : 0) | (rm ? SPIFOPT_SETTING_REMOVE_ARGS : 0);
    int r;
    char when[64];

    vh_op("table{%.170s}", tabdesc);
    if (strlen(tabdesc) > 170) vh_op("table(cont){%.170s}", tabdesc + 170);
    if (strlen(tabdesc) > 340) vh_op("table(cont){%.170s}", tabdesc + 340);
    vh_op("argv[%.180s]", argvdesc);
    vh_op("mode=%s %s allow_bad=%d bound=%ld", MODENAME[mode], wellformed ? "help=count" : policy == 1 ? "help=give-up" : "help=count-and-return",
          wellformed ? 0 : policy ? allow_small : 255, step_bound);
    vh_count(arena_fmt("mode_%s", MODENAME[mode]), 1);

    if (wellformed) reset_settings(flags, 0, (spifopt_helphandler_t) help_count);
    else reset_settings(flags, policy ? allow_small : 255, (spifopt_helphandler_t) (policy == 1 ? help_giveup : help_count));
    model_init();

    snprintf(when, sizeof when, "after %s pass (%s)", first_pp ? "pre-parse" : "normal", MODENAME[mode]);
    vh_op("spifopt_parse #1 flags=0x%x", flags);
    if (wellformed) model_pass(first_pp);
    r = run_parse(argc0, av);
    if (r == 1) vh_count("arb_help_gave_up", 1);
    if (wellformed) check_wf(when, r, first_pp, rm, flags); else check_arb(when, r, first_pp, rm);
    if (two && r == 0) {
        int f2 = (int) SPIFOPT_FLAGS_GET();
        if (!wellformed && (f2 & SPIFOPT_SETTING_PREPARSE)) { vh_count("arb_preparse_flag_kept", 1); SPIFOPT_FLAGS_CLEAR(SPIFOPT_SETTING_PREPARSE); f2 = (int) SPIFOPT_FLAGS_GET(); }
        snprintf(when, sizeof when, "after normal pass of %s", MODENAME[mode]);
        vh_op("spifopt_parse #2 flags=0x%x", f2);
        if (wellformed) model_pass(0);
        r = run_parse(argc0, av);
        if (r == 1) vh_count("arb_help_gave_up", 1);
        if (wellformed) check_wf(when, r, 0, rm, f2); else check_arb(when, r, 0, rm);
        vh_count("two_pass_cases", 1);
    }
    if (n_err) vh_count("errors_reported", n_err);
    if (n_help) vh_count("help_handler_calls", n_help);
    if (n_warn) vh_count("deprecated_warnings", n_warn);
    if (ncalls) vh_count("abstract_calls", ncalls);
    vh_count("step_bound_checks", 1);
    release_parser_allocations();
}

static long exh_total(int L)
{
    long per = 0, p = 1;
    for (int l = 0; l <= L; l++) { per += p; p *= NALPHA; }
    return per * 4 * 6;
}

int main(int argc, char **argv)
{
    vh_init(argc, argv, "C08");
    int L = !strcmp(vh_tier, "thorough") ? 3 : 2;
    long EXH = exh_total(L);
    libast_set_program_name("c08");
    signal(SIGVTALRM, on_vtalrm);

    while (vh_next_case()) {
        if (wd_fired >= 10) { vh_count("shard_stopped_after_10_hangs", 1); break; }
        if (VH_CASE_TRY()) {
            long idx = vh_case_idx;
            if (idx < EXH) {
                /* exhaustive family: idx -> (table, mode, word sequence) */
                int which = (int) (idx % 4), mode = (int) (idx / 4 % 6);
                long s = idx / 24, p = 1;
                int len = 0, tok[4];
                while (s >= p) { s -= p; p *= NALPHA; len++; }
                for (int i = 0; i < len; i++) { tok[i] = (int) (s % NALPHA); s /= NALPHA; }
                fixed_table(which);
                argv_begin();
                for (int i = 0; i < len; i++) push_word(ALPHA[which][tok[i]]);
                argv_finish();
                run_case(0, mode, 0, 0);
                vh_cov(vh_mix((uint64_t) idx, 0xe4a));
                vh_count("exhaustive_cases", 1);
                if (len == 2 && tok[0] == 4 && tok[1] == 8) vh_sample("exhaustive table %d {%s} argv[%s] %s", which, tabdesc, argvdesc, MODENAME[mode]);
            } else if (((idx - EXH) & 1) == 0) {
                int mode;
                gen_table(0);
                gen_items();
                print_items();
                mode = (int) vh_below(6);
                run_case(1, mode, 0, 0);
                vh_cov(vh_mix(shape_hash, (uint64_t) mode));
                vh_count("wellformed_cases", 1);
                if (argc0 >= 6) vh_sample("well-formed table{%s} argv[%s] %s: BADOPTS=0, targets and argv as the reference reader predicts", tabdesc, argvdesc, MODENAME[mode]);
            } else {
                int n, mode, policy, allow_small;
                uint64_t h = 0x77;
                gen_table(1);
                argv_begin();
                n = (int) vh_range(0, 8);
                for (int i = 0; i < n; i++) { const char *w = arb_word(); push_word(w); h = vh_mix(h, vh_hash_str(w, 3)); }
                argv_finish();
                mode = (int) vh_below(6);
                policy = vh_coin(60) ? 0 : vh_coin(60) ? 1 : 2;
                allow_small = (int) vh_below(4);
                run_case(0, mode, policy, allow_small);
                vh_cov(vh_mix(vh_mix(h, vh_hash_str(tabdesc, 5)), (uint64_t) mode));
                vh_count("arbitrary_cases", 1);
                if (argc0 >= 5) vh_sample("arbitrary table{%s} argv[%s] %s: errors=%ld BADOPTS=%d, safety clause holds", tabdesc, argvdesc, MODENAME[mode], n_err, (int) SPIFOPT_BADOPTS_GET());
            }
            free_argv();
            free_table();
        }
        vh_case_done();
    }
    return vh_finish();
}
