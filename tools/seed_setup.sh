#!/bin/bash
# tools/seed_setup.sh <name>: create a scratch git worktree of /repo at /tmp/seed-<name> with configure/build outputs copied in
set -e
N=$1; D=/tmp/seed-$N
git -C /repo worktree remove --force $D 2>/dev/null || true
rm -rf $D
git -C /repo worktree add -q --detach $D HEAD
rsync -a --exclude .git /repo/ $D/
echo $D
