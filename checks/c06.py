"""C06: ownership -- every allocation released exactly once across any object history."""
import vf


def build(flavor='asan'):
    return vf.build_harness('c06', flavor, ['c06.c'], ldflags=['-rdynamic'])


def rebuild_for_replay(rec):
    return build()


def run(chk):
    exe = build()
    # a larger quarantine keeps freed blocks poisoned longer: use-after-free of an element handed back shows up as a report
    env = {'ASAN_OPTIONS': vf.ASAN_ENV['ASAN_OPTIONS'] + ':quarantine_size_mb=64'}
    chk.run('asan', exe, chk.pick(3000, 120000), env=env)
    chk.rule = ('case = one generated program (1-50 steps) over strings, ustrings, buffers, pairs, tokenizers, URLs, regexps, lists/vectors/maps of '
                'all three implementations and iterators, with an explicit ownership pool (hand-in, hand-out, copies, done+reuse, early deletion, '
                'deletion of non-empty containers); each program runs twice in one process under ASan malloc/free hooks; oracle: no block allocated '
                'inside the second execution survives the final deletion of everything the harness owns, plus ASan double-free / use-after-free; '
                'distinct = distinct (program seed, length)')
    for k in ('create', 'fill', 'hand_in', 'handed_out', 'copy', 'done_reinit', 'early_delete', 'map_set', 'iterator', 'done_reuse_without_reinit', 'split_arrays', 'emptied_then_copied', 'refused_constructions', 'url_empty_component'):
        chk.require(k, 50)
    chk.require('allocations_observed', 10000)
    chk.min_cases = 1000
