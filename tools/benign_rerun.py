#!/usr/bin/env python3
"""tools/benign_rerun.py <PROP> [<PROP>...]: after a harness of PROP was widened, run its quick check again on every stored
behaviour-preserving change (/verif/benign/*) that was evaluated with PROP, each applied to a scratch copy of /repo.  The test
suite was confirmed when the change was kept and is not run again.  Updates meta.json; prints one line per change; exit 1 if any
check is not silent (= a false alarm to be corrected in the machinery)."""
import sys, os, json, subprocess, shutil, tempfile, concurrent.futures
ROOT = os.path.dirname(os.path.dirname(os.path.abspath(__file__)))
props = sys.argv[1:]
head = subprocess.run(['git', '-C', '/repo', 'rev-parse', '--short', 'HEAD'], stdout=subprocess.PIPE, text=True).stdout.strip()


def one(name):
    d = os.path.join(ROOT, 'benign', name)
    meta = json.load(open(os.path.join(d, 'meta.json')))
    mine = [p for p in props if p in meta.get('checks_run_on_changed_tree', {})]
    if not mine:
        return name, None, {}
    W = tempfile.mkdtemp(prefix='benignrerun.', dir='/tmp')
    try:
        subprocess.run(['rsync', '-a', '--exclude', '.git', '/repo/', W + '/tree/'], check=True)
        if subprocess.run('cd %s/tree && patch -p1 -s --no-backup-if-mismatch < %s/patch.diff' % (W, d), shell=True, stdout=subprocess.DEVNULL, stderr=subprocess.DEVNULL).returncode != 0:
            return name, 'patch no longer applies to %s' % head, {}
        res = {}
        for p in mine:
            env = dict(os.environ, LIBAST_SRC=W + '/tree', VERIF_BUILD=W + '/build', VERIF_EVIDENCE=W + '/evidence')
            r = subprocess.run([os.path.join(ROOT, 'bin', 'check'), p, '--tier', 'quick'], stdout=subprocess.PIPE, stderr=subprocess.DEVNULL, text=True, env=env, timeout=3600)
            first = ''
            for l in r.stdout.splitlines():
                if 'key=' in l or l.startswith('INCONCLUSIVE'):
                    first = l.strip()[:300]
                    break
            res[p] = {'exit': r.returncode, 'first': first}
        for p, v in res.items():
            meta['checks_run_on_changed_tree'][p] = v
        meta['all_silent'] = all(v['exit'] == 0 for v in meta['checks_run_on_changed_tree'].values())
        meta['repo_head'] = head
        json.dump(meta, open(os.path.join(d, 'meta.json'), 'w'), indent=1)
        return name, None, res
    finally:
        shutil.rmtree(W, ignore_errors=True)


bad = 0
with concurrent.futures.ThreadPoolExecutor(max_workers=int(os.environ.get('BENIGN_JOBS', '3'))) as ex:
    for name, err, res in ex.map(one, sorted(n for n in os.listdir(os.path.join(ROOT, 'benign')) if os.path.isdir(os.path.join(ROOT, 'benign', n)))):
        if err:
            print(name, 'SKIPPED:', err)
        elif res:
            print(name, ' '.join('%s=%d' % (p, v['exit']) for p, v in res.items()), ' '.join(v['first'] for v in res.values() if v['exit']))
            bad += sum(1 for v in res.values() if v['exit'])
sys.exit(1 if bad else 0)
