"""C08: option parser assigns exactly what the command line says and nothing else (DESIGN §4 C08, App. A.4)."""
import vf

NALPHA = 12


def exh_total(L):
    return sum(NALPHA ** l for l in range(L + 1)) * 4 * 6


def build():
    return vf.build_harness('c08', 'asan', ['c08.c'], wraps=['libast_print_error', 'libast_print_warning'])


def rebuild_for_replay(rec):
    return build()


def run(chk):
    exe = build()
    n = vf.NCPU
    L = chk.pick(2, 3)
    exh = exh_total(L)
    rnd = chk.pick(150000, 20000000)          # random (table, argv, settings) cases: half well-formed, half arbitrary
    per = (exh + rnd + n - 1) // n
    env = {'ASAN_OPTIONS': vf.ASAN_ENV['ASAN_OPTIONS'] + ':quarantine_size_mb=32'}
    chk.run('asan', exe, per, env=env, timeout=chk.pick(300, 1800))
    chk.rule = ('case = (option table, argv, pass schedule).  well-formed: random table of 1-10 options over bool/int/string/arglist/abstract '
                '(plain or pre-parse, with/without short letter, shared bitfields), abstract command printed with a random spelling per '
                'occurrence; expected targets/argv/BADOPTS come from a reference reader of the abstract command.  arbitrary: hostile words '
                '(lone -, --, unknown options, missing values, empty/quoted = values, glued arglist, wrong-case and truncated long names); only '
                'the safety clause (sanitizer silence, targets sentinel-or-derived-from-argv, step bound 4*bytes+16).  exhaustive: all argv of '
                'length <= %d over a 12-token alphabet for 4 fixed tables x 6 pass schedules.  All six schedules {normal, normal+remove, '
                'preparse, preparse+remove, preparse->normal, preparse->normal+remove}.  distinct = distinct (pass schedule, sequence of '
                '(kind, pass, spelling, bundled)) shapes for well-formed cases, distinct (table, argv, schedule) otherwise' % L)
    chk.cov['exhaustive_over'] = 'argv of length <= %d over 12 tokens x 4 fixed tables x 6 pass schedules = %d cases (safety clause)' % (L, exh)
    chk.assumptions += ['libast_print_error/libast_print_warning are wrapped: arguments are formatted (so they are read) but not written to stderr',
                        'termination is decided on logical steps (error/warning calls, help-handler and abstract-handler calls, bound '
                        '4*argv bytes+16); a loop that makes none of these calls cannot be counted and is caught only by a backstop: 3 s of '
                        'process CPU time (ITIMER_VIRTUAL) inside one spifopt_parse call (normal cost ~1e-5 s), reported as hang-watchdog',
                        'SPIFOPT_FLAG_ARRAY / SPIFOPT_FLAG_COUNTER (declared, unimplemented) are not driven']
    chk.require('exhaustive_cases', exh)
    chk.require('wellformed_cases', rnd // 2 - 16)
    chk.require('arbitrary_cases', rnd // 2 - 16)
    for sp in ('short', 'glued', 'short_sep', 'long', 'long_eq', 'long_sep', 'bundled'):
        chk.require('wf_sp_' + sp, 200)
    for k in ('bool', 'int', 'str', 'args', 'abst'):
        chk.require('wf_kind_' + k, 200)
        chk.require('wf_kind_' + k + '_pp', 100)
    for m in ('normal', 'normal+remove', 'preparse', 'preparse+remove', 'preparse->normal', 'preparse->normal+remove'):
        chk.require('mode_' + m, 1000)
    chk.require('wf_boolword_true', 100)
    chk.require('wf_boolword_false', 100)
    chk.require('wf_arglist_trailing', 100)
    chk.require('wf_arglist_glued', 20)
    chk.require('wf_empty_long_eq_value', 20)
    chk.require('wf_arglist_eq', 100)
    chk.require('wf_abstract_novalue', 50)
    chk.require('wf_canary_checked', 5000)
    chk.require('wf_other_pass_checked', 2000)
    chk.require('wf_removal_checked', 1000)
    chk.require('arb_removal_checked', 500)
    chk.require('arb_badopts_counted', 2000)
    chk.require('arb_help_gave_up', 100)
    chk.require('errors_reported', 5000)
    chk.require('abstract_calls', 500)
    chk.require('two_pass_cases', 2000)
    chk.min_cases = exh + rnd - 64
