/* Shared monitors for C02 (lists), C03 (maps), C04 (vectors): the three container
 * interfaces implemented by the array, linked_list and dlinked_list classes.
 * DESIGN.md §4 C02-C04, Appendix A.2/A.3.
 *
 * Everything here observes the library only through the interface macros
 * (SPIF_LIST_*, SPIF_VECTOR_*, SPIF_MAP_*, SPIF_ITERATOR_*) and, for the structural
 * invariants, through the public structs of array.h / linked_list.h / dlinked_list.h. */
#ifndef C0X_CONTAINERS_H
#define C0X_CONTAINERS_H

#include <config.h>
#include <libast.h>
#include <string.h>
#include <stdlib.h>
#include "vh.h"

enum { CX_ARRAY = 0, CX_LINKED = 1, CX_DLINKED = 2, CX_NKIND = 3 };
static const char *const cx_kind[CX_NKIND] = { "array", "linked_list", "dlinked_list" };

#define CX_NULLID (-100)       /* a NULL element (placeholder / refusal) */
#define CX_BADID  (-200)       /* an object that is not one of ours */
#define CX_CAP    4096

/* ---------------------------------------------------------------- verdict plumbing */
static uint64_t cx_dg;         /* per-case digest of everything the library returned (pattern/zero differential) */
#define CX_DG(x) (cx_dg = vh_mix(cx_dg, (uint64_t) (long) (x)))

static const char *cx_mkkey(const char *op, int k, const char *clause)
{
    static char key[160];
    if (k >= 0) snprintf(key, sizeof key, "%s:%s:%s", op, cx_kind[k], clause);
    else snprintf(key, sizeof key, "%s:%s", op, clause);
    return key;
}
#define CX_FAIL(op, k, clause, ...) do { const char *k_ = cx_mkkey((op), (k), (clause)); \
        cx_dg = vh_mix(cx_dg, vh_hash_str(k_, 1)); vh_fail(k_, __VA_ARGS__); } while (0)
#define CX_CHECK(cond, op, k, clause, ...) do { vh_evals(1); if (!(cond)) CX_FAIL((op), (k), (clause), __VA_ARGS__); } while (0)

/* ---------------------------------------------------------------- element labels
 * id 0..63 -> two letters from an 8-symbol alphabet ("aa".."hh"; strcmp order == numeric order);
 * id -1 -> "AA" (below every label), id 64 -> "zz" (above every label). */
static void cx_lab2(int id, char *b)
{
    if (id < 0) { b[0] = 'A'; b[1] = 'A'; }
    else if (id >= 64) { b[0] = 'z'; b[1] = 'z'; }
    else { b[0] = (char) ('a' + id / 8); b[1] = (char) ('a' + id % 8); }
    b[2] = 0;
}
static int cx_lab2_id(const char *s)
{
    if (!s || strlen(s) != 2) return CX_BADID;
    if (s[0] == 'A' && s[1] == 'A') return -1;
    if (s[0] == 'z' && s[1] == 'z') return 64;
    if (s[0] < 'a' || s[0] > 'h' || s[1] < 'a' || s[1] > 'h') return CX_BADID;
    return (s[0] - 'a') * 8 + (s[1] - 'a');
}
static const char *cx_lab2s(int id)
{
    static char bufs[8][8]; static int r;
    char *b = bufs[r++ % 8];
    if (id == CX_NULLID) { strcpy(b, "NULL"); return b; }
    if (id == CX_BADID) { strcpy(b, "?bad?"); return b; }
    cx_lab2(id, b);
    return b;
}
static spif_obj_t cx_new2(int id)
{
    char b[4];
    cx_lab2(id, b);
    return SPIF_OBJ(spif_str_new_from_ptr(SPIF_CHARPTR(b)));
}
static int cx_id2(spif_obj_t o)
{
    if (SPIF_OBJ_ISNULL(o)) return CX_NULLID;
    if (!SPIF_OBJ_IS_STR(o)) return CX_BADID;
    return cx_lab2_id((const char *) SPIF_STR_STR(SPIF_STR(o)));
}
static void cx_del_str(spif_obj_t o) { if (!SPIF_OBJ_ISNULL(o)) SPIF_OBJ_DEL(o); }       /* through the class: a label may be an object of a class derived from str */

/* general text labels (maps): "<c>NNN" */
static spif_obj_t cx_newt(char c, int id)
{
    char b[16];
    snprintf(b, sizeof b, "%c%03d", c, id);
    return SPIF_OBJ(spif_str_new_from_ptr(SPIF_CHARPTR(b)));
}
static int cx_idt(char c, spif_obj_t o)
{
    const char *s;
    if (SPIF_OBJ_ISNULL(o)) return CX_NULLID;
    if (!SPIF_OBJ_IS_STR(o) && !SPIF_OBJ_IS_URL(o)) return CX_BADID;        /* url is-a str: its text is the label */
    s = (const char *) SPIF_STR_STR(SPIF_STR(o));
    if (!s || strlen(s) != 4 || s[0] != c || s[1] < '0' || s[1] > '9' || s[2] < '0' || s[2] > '9' || s[3] < '0' || s[3] > '9') return CX_BADID;
    return (s[1] - '0') * 100 + (s[2] - '0') * 10 + (s[3] - '0');
}
/* overwrite the text of one of our 4-char labels in place (same length): the caller "changes its object afterwards" */
static void cx_scribblet(spif_obj_t o, char c, int id)
{
    char b[16];
    char *s = (char *) SPIF_STR_STR(SPIF_STR(o));
    snprintf(b, sizeof b, "%c%03d", c, id);
    if (s && strlen(s) == 4) memcpy(s, b, 4);
}

typedef int (*cx_idof_t)(spif_obj_t);

/* ---------------------------------------------------------------- structural invariants (C02 (d))
 * Walks the public struct of subject `o` of kind `k`; stores the element pointers in out[0..len) and
 * returns len.  Any broken invariant is a violation `<op>:<class>:struct-...`. */
static int cx_walk(const char *op, int k, spif_obj_t o, spif_obj_t *out, int cap)
{
    int n = 0;
    if (k == CX_ARRAY) {
        spif_array_t a = SPIF_ARRAY(o);
        CX_CHECK(a->len >= 0 && a->len < cap, op, k, "struct-len", "array len=%d out of range", (int) a->len);
        if (a->len > 0) {
            CX_CHECK(a->items != NULL, op, k, "struct-items-null", "array len=%d but items==NULL", (int) a->len);
            if (vh_have_asan()) {
                size_t sz = vh_alloc_size(a->items);
                CX_CHECK(sz >= (size_t) a->len * sizeof(spif_obj_t), op, k, "struct-items-size",
                         "array len=%d but the items block holds %zu bytes (< %zu)", (int) a->len, sz, (size_t) a->len * sizeof(spif_obj_t));
            }
        }
        for (n = 0; n < a->len; n++) out[n] = a->items[n];
    } else if (k == CX_LINKED) {
        spif_linked_list_t l = SPIF_LINKED_LIST(o);
        spif_linked_list_item_t cur;
        CX_DG(l->head == NULL);
        CX_CHECK(l->len >= 0 && l->len < cap, op, k, "struct-len", "linked_list len=%d out of range", (int) l->len);
        if (l->len == 0) CX_CHECK(l->head == NULL, op, k, "struct-empty-head", "linked_list len==0 but head=%s", l->head ? "non-NULL" : "NULL");
        for (cur = l->head; cur && n <= l->len; cur = cur->next) out[n++] = cur->data;
        CX_CHECK(n == l->len && cur == NULL, op, k, "struct-chain-length", "linked_list len=%d but the head chain has %s%d items",
                 (int) l->len, cur ? "more than " : "", cur ? (int) l->len : n);
    } else {
        spif_dlinked_list_t l = SPIF_DLINKED_LIST(o);
        static spif_dlinked_list_item_t nodes[CX_CAP];
        spif_dlinked_list_item_t cur;
        int j;
        CX_DG((l->head == NULL) * 2 + (l->tail == NULL));
        CX_CHECK(l->len >= 0 && l->len < cap && l->len < CX_CAP, op, k, "struct-len", "dlinked_list len=%d out of range", (int) l->len);
        if (l->len == 0) {
            CX_CHECK(l->head == NULL, op, k, "struct-empty-head", "dlinked_list len==0 but head is non-NULL");
            CX_CHECK(l->tail == NULL, op, k, "struct-empty-tail", "dlinked_list len==0 but tail is non-NULL");
            return 0;
        }
        CX_CHECK(l->head != NULL, op, k, "struct-head-null", "dlinked_list len=%d but head==NULL", (int) l->len);
        CX_CHECK(l->tail != NULL, op, k, "struct-tail-null", "dlinked_list len=%d but tail==NULL", (int) l->len);
        for (cur = l->head; cur && n <= l->len; cur = cur->next) { nodes[n] = cur; out[n] = cur->data; n++; }
        CX_CHECK(n == l->len && cur == NULL, op, k, "struct-chain-length", "dlinked_list len=%d but the head->next chain has %s%d items",
                 (int) l->len, cur ? "more than " : "", cur ? (int) l->len : n);
        CX_CHECK(l->head->prev == NULL, op, k, "struct-head-prev", "dlinked_list head->prev != NULL (len=%d)", (int) l->len);
        CX_CHECK(l->tail == nodes[n - 1], op, k, "struct-tail-stale", "dlinked_list tail is not the last item of the head->next chain (len=%d)", (int) l->len);
        CX_CHECK(l->tail->next == NULL, op, k, "struct-tail-next", "dlinked_list tail->next != NULL (len=%d)", (int) l->len);
        for (cur = l->tail, j = n - 1; j >= 0; j--, cur = cur->prev) {
            CX_CHECK(cur == nodes[j], op, k, "struct-prev-chain", "dlinked_list tail->prev chain is not the mirror image of head->next at position %d of %d (%s)",
                     j, n, cur ? "different item" : "chain ends early");
        }
        CX_CHECK(cur == NULL, op, k, "struct-prev-chain", "dlinked_list tail->prev chain is longer than len=%d", n);
    }
    return n;
}

/* ---------------------------------------------------------------- iterator: every element once, in order,
 * exhaustion reported exactly after n elements, next after exhaustion NULL */
static void cx_iter_check(const char *op, int k, spif_iterator_t it, const int *m, int n, cx_idof_t idof, const char *(*show)(int))
{
    int j;
    CX_CHECK(!SPIF_ITERATOR_ISNULL(it), op, k, "iter-null", "iterator constructor returned NULL");
    for (j = 0; j < n; j++) {
        spif_bool_t h = SPIF_ITERATOR_HAS_NEXT(it);
        spif_obj_t x;
        int id;
        CX_DG(h);
        CX_CHECK(h, op, k, "iter-early-end", "iterator reports exhaustion after %d of %d elements", j, n);
        x = SPIF_ITERATOR_NEXT(it);
        id = idof(x);
        CX_DG(id);
        CX_CHECK(id == m[j], op, k, "iter-element", "iterator element %d of %d is %s, expected %s", j, n, show(id), show(m[j]));
    }
    {
        spif_bool_t h = SPIF_ITERATOR_HAS_NEXT(it);
        spif_obj_t x;
        CX_DG(h);
        CX_CHECK(!h, op, k, "iter-no-end", "iterator still has_next after all %d elements", n);
        x = SPIF_ITERATOR_NEXT(it);
        CX_DG(x == NULL);
        CX_CHECK(SPIF_OBJ_ISNULL(x), op, k, "iter-next-after-end", "next after exhaustion returned an object (n=%d)", n);
        h = SPIF_ITERATOR_HAS_NEXT(it);
        CX_CHECK(!h, op, k, "iter-no-end", "has_next became true after exhaustion (n=%d)", n);
    }
    SPIF_ITERATOR_DEL(it);
    vh_count("iter_exhaustion_checks", 1);
}

/* to_array result: n pointers in a heap block the caller owns */
/* to_array of an empty container: whether that is an allocated array of no elements or NULL is the library's choice, but the three
 * classes are one interface and must make the same one (checked by cx_toarray_empty_agree after all three were read back) */
static int cx_ta_empty[3];       /* per class: 0 not seen, 1 a block, 2 NULL */
static void cx_toarray_empty_agree(const char *op)
{
    int seen = 0, first = 0, differ = 0;
    for (int q = 0; q < 3; q++) if (cx_ta_empty[q]) { if (!seen) first = cx_ta_empty[q]; else if (cx_ta_empty[q] != first) differ = 1; seen++; }
    int a = cx_ta_empty[0], b = cx_ta_empty[1], c = cx_ta_empty[2];
    cx_ta_empty[0] = cx_ta_empty[1] = cx_ta_empty[2] = 0;
    if (seen == 3) {
        vh_count("to_array_of_empty_containers_compared_across_classes", 1);
        if (differ) CX_FAIL(op, 1, "to_array-empty-agreement", "to_array of an empty container: array class %s, linked_list %s, dlinked_list %s",
                            a == 2 ? "NULL" : "a block", b == 2 ? "NULL" : "a block", c == 2 ? "NULL" : "a block");
    }
}
static void cx_toarray_check(const char *op, int k, spif_obj_t *arr, const int *m, int n, cx_idof_t idof, const char *(*show)(int))
{
    int j;
    if (n == 0 && k >= 0 && k < 3) cx_ta_empty[k] = arr ? 1 : 2;
    if (n > 0) {
        CX_CHECK(arr != NULL, op, k, "to_array-null", "to_array returned NULL for %d elements", n);
        if (vh_have_asan()) {
            size_t sz = vh_alloc_size(arr);
            CX_CHECK(sz >= (size_t) n * sizeof(spif_obj_t), op, k, "to_array-size", "to_array block holds %zu bytes for %d elements", sz, n);
        }
        for (j = 0; j < n; j++) {
            int id = idof(arr[j]);
            CX_DG(id);
            CX_CHECK(id == m[j], op, k, "to_array-element", "to_array[%d] of %d is %s, expected %s", j, n, show(id), show(m[j]));
        }
    }
    if (arr) FREE(arr);
}

/* struct walk content vs model */
static void cx_struct_check(const char *op, int k, spif_obj_t o, const int *m, int n, cx_idof_t idof, const char *(*show)(int))
{
    static spif_obj_t el[CX_CAP];
    int j, got = cx_walk(op, k, o, el, CX_CAP);
    CX_DG(got);
    CX_CHECK(got == n, op, k, "struct-count", "container holds %d items, expected %d", got, n);
    for (j = 0; j < n; j++) {
        int id = idof(el[j]);
        CX_DG(id);
        CX_CHECK(id == m[j], op, k, "struct-element", "stored item %d of %d is %s, expected %s", j, n, show(id), show(m[j]));
    }
    vh_count("struct_walks", 1);
}

#endif
