#!/bin/bash
# tools/sweep_thorough_seed.sh <seed> [PROP...] : thorough tier of every claimed property at another seed
cd "$(dirname "$0")/.."
S=$1; shift
for p in ${@:-C01 C02 C03 C04 C05 C06 C07 C08 C09 C10 C11 C12 C13 C14 C15 C16 C17 C18 C19 C20}; do
  s=$(date +%s)
  out=$(VERIF_SEED=$S bin/check $p --tier thorough 2>&1); rc=$?
  echo "$out" | grep "^C[0-9][0-9] \|^VIOLATION\|^INCONCLUSIVE\|^KNOWN\|^UNREPRO\|key=" | head -12
  echo "   -> $p seed=$S rc=$rc wall=$(( $(date +%s) - s ))s"
done
