#!/usr/bin/env python3
import os, json, glob
ROOT = os.path.dirname(os.path.dirname(os.path.abspath(__file__)))
rows = []
for d in sorted(glob.glob(os.path.join(ROOT, 'benign', '*'))):
    mp = os.path.join(d, 'meta.json')
    if not os.path.exists(mp): continue
    m = json.load(open(mp))
    rows.append((os.path.basename(d), m.get('property', ''), (m.get('title') or '')[:120].replace('|', '/'), (m.get('what_changes_internally') or '')[:200].replace('|', '/').replace('\n', ' '),
                 ', '.join('%s:%s' % (p, 'silent' if r['exit'] == 0 else 'EXIT %s' % r['exit']) for p, r in m.get('checks_run_on_changed_tree', {}).items())))
with open(os.path.join(ROOT, 'benign', 'INDEX.md'), 'w') as f:
    f.write('# Behaviour-preserving changes (false-alarm test)\n\nWritten by independent sub-agents from the property text only: refactorings, different but correct algorithms, different capacity/growth\n'
            'policies, reordered equivalent statements.  `tools/benign_keep.py` applies each to a scratch copy of /repo, confirms the 119 stable tests\n'
            'and runs the quick checks of the property and of the properties sharing its files with `LIBAST_SRC` on the changed copy.  Every check must stay silent (exit 0).\n\n'
            '| change | property | title | what changes internally | checks run |\n|---|---|---|---|---|\n')
    for r in rows: f.write('| %s | %s | %s | %s | %s |\n' % r)
    bad = [r[0] for r in rows if 'EXIT' in r[4]]
    f.write('\n%d changes, %d with an alarm%s.\n' % (len(rows), len(bad), (': ' + ', '.join(bad)) if bad else ''))
print(len(rows))
