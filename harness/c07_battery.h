/* C07 harness, part 2: state checks after every operation and the query battery. */
#ifndef C07_BATTERY_H
#define C07_BATTERY_H

/* ---- query mismatches: reported once per key and case, the case continues (queries do not change state) ---- */
static char reported_keys[24][48];
static int nreported;
static void qfail(const char *key, const char *fmt, ...) __attribute__((format(printf, 2, 3)));
static void qfail(const char *key, const char *fmt, ...)
{
    for (int i = 0; i < nreported; i++) if (!strcmp(reported_keys[i], key)) return;
    if (nreported < 24) snprintf(reported_keys[nreported++], 48, "%s", key);
    char buf[1200]; va_list ap; va_start(ap, fmt); vsnprintf(buf, sizeof buf, fmt, ap); va_end(ap);
    vh_report(key, "%s", buf);
}
#define Q(cond, key, ...) do { vh_evals(1); if (!(cond)) qfail((key), __VA_ARGS__); } while (0)

static const char *desc(slot_t *s)
{
    static char b[4][200]; static int k;
    char *d = b[k++ & 3];
    snprintf(d, 200, "model len=%ld %s", s->n, vh_q(s->m, s->n > 24 ? 24 : s->n));
    return d;
}

/* ---- state of one object against its model; key prefix = operation just executed ---- */
static void check_obj(slot_t *s, const char *op, int target)
{
    char key[64];
    spif_mbuff_t o = s->o;
    const uint8_t *b = SPIF_MBUFF_BUFF(o);
    long len = (long) spif_mbuff_get_len(o), size = (long) spif_mbuff_get_size(o);
    const char *who = target ? "" : "bystander-";
    vh_evals(4);
    if (len != (long) o->len || size != (long) o->size) {
        snprintf(key, sizeof key, "%s:accessor", op);
        vh_fail(key, "get_len/get_size %ld/%ld differ from the fields %ld/%ld", len, size, (long) o->len, (long) o->size);
    }
    if (len != s->n) {
        snprintf(key, sizeof key, "%s:%slen", op, who);
        vh_fail(key, "after %s: length %ld, ideal sequence has %ld (%s)", op, len, s->n, desc(s));
    }
    if (b == NULL) {
        if (len != 0 || size != 0) {
            snprintf(key, sizeof key, "%s:%sinvariant", op, who);
            vh_fail(key, "after %s: buff==NULL but len=%ld size=%ld", op, len, size);
        }
    } else {
        if (size < len || size < 0) {
            snprintf(key, sizeof key, "%s:%sinvariant", op, who);
            vh_fail(key, "after %s: size %ld < len %ld", op, size, len);
        }
        size_t a = vh_alloc_size(b);
        if (a && (long) a < size) {
            snprintf(key, sizeof key, "%s:%scapacity", op, who);
            vh_fail(key, "after %s: reported size %ld but the block holds %zu bytes (len %ld)", op, size, a, len);
        }
        if (a && len > 0) vh_count("alloc_size_checked", 1);
        if (len > 0 && memcmp(b, s->m, (size_t) len)) {
            long i = 0; while (b[i] == s->m[i]) i++;
            snprintf(key, sizeof key, "%s:%sbytes", op, who);
            vh_fail(key, "after %s: byte %ld is 0x%02x, ideal 0x%02x; got %s want %s (len %ld)", op, i, b[i], s->m[i],
                    vh_q(b + (i > 8 ? i - 8 : 0), len - (i > 8 ? i - 8 : 0) > 20 ? 20 : len - (i > 8 ? i - 8 : 0)),
                    vh_q(s->m + (i > 8 ? i - 8 : 0), len - (i > 8 ? i - 8 : 0) > 20 ? 20 : len - (i > 8 ? i - 8 : 0)), len);
        }
    }
}
static void check_all(const char *op, slot_t *target)
{
    for (int i = 0; i < NSLOT; i++) if (S[i].live) check_obj(&S[i], op, &S[i] == target);
}

/* ---- a result object of a constructor-like query (subbuff, temporary operands) ---- */
static void check_result_obj(spif_mbuff_t r, const uint8_t *want, long k, const char *key, const char *what)
{
    long len = (long) spif_mbuff_get_len(r), size = (long) spif_mbuff_get_size(r);
    const uint8_t *b = SPIF_MBUFF_BUFF(r);
    size_t a = b ? vh_alloc_size(b) : 0;
    Q(len == k, key, "%s: result length %ld, ideal %ld", what, len, k);
    Q(b ? (size >= len && (!a || (long) a >= size)) : (len == 0 && size == 0), key, "%s: result representation buff=%s len=%ld size=%ld block=%zu", what, b ? "set" : "NULL", len, size, a);
    if (len == k && k > 0 && b) Q(!memcmp(b, want, (size_t) k), key, "%s: result bytes %s, ideal %s", what, vh_q(b, k > 24 ? 24 : k), vh_q(want, k > 24 ? 24 : k));
}

static void q_sub(slot_t *s, long i, long c)
{
    spif_mbuff_t o = s->o;
    long n = s->n, st = 0, k = m_sub(n, i, c, &st);
    int rt = vh_coin(50);
    char what[120];
    if (vh_coin(50)) {
        snprintf(what, sizeof what, "subbuff(%ld,%ld) of len %ld [%s]", i, c, n, rt ? "class" : "direct");
        spif_mbuff_t r = X_subbuff(rt, o, i, c);
        if (k < 0) {
            Q(r == NULL, "subbuff:refused", "%s: position/count outside the sequence must be refused, got an object of length %ld", what, r ? (long) r->len : -1L);
            vh_count("refused_subbuff", 1);
        } else {
            Q(r != NULL, "subbuff:result", "%s: refused, ideal result has %ld bytes", what, k);
            if (r) { check_result_obj(r, s->m + st, k, "subbuff:result", what); if (k > 0) Q(SPIF_MBUFF_BUFF(r) != SPIF_MBUFF_BUFF(o), "subbuff:shared", "%s: result shares the source buffer", what); }
            vh_count("subbuff_ok", 1);
        }
        if (r) spif_mbuff_del(r);
        cov3(100 + rt, state_class(s), pos_class(n, i) * 32 + pos_class(n - (i < 0 ? i + n : i), c) + (k < 0 ? 16 : 0));
    } else {
        snprintf(what, sizeof what, "subbuff_to_ptr(%ld,%ld) of len %ld [%s]", i, c, n, rt ? "class" : "direct");
        uint8_t *r = X_subbuff_to_ptr(rt, o, i, c);
        if (k < 0) {
            Q(r == NULL, "subbuff_to_ptr:refused", "%s: must be refused", what);
            vh_count("refused_subbuff", 1);
        } else {
            Q(r != NULL, "subbuff_to_ptr:result", "%s: refused, ideal result has %ld bytes", what, k);
            if (r) {
                size_t a = vh_alloc_size(r);
                Q(!a || (long) a >= k, "subbuff_to_ptr:result", "%s: block of %zu bytes for %ld", what, a, k);
                if (k > 0 && (!a || (long) a >= k)) Q(!memcmp(r, s->m + st, (size_t) k), "subbuff_to_ptr:result", "%s: bytes %s, ideal %s", what, vh_q(r, k > 24 ? 24 : k), vh_q(s->m + st, k > 24 ? 24 : k));
            }
            vh_count("subbuff_to_ptr_ok", 1);
        }
        free(r);
        cov3(102 + rt, state_class(s), pos_class(n, i) * 32 + pos_class(n - (i < 0 ? i + n : i), c) + (k < 0 ? 16 : 0));
    }
}

/* comparison operand classes relative to the model of s */
enum { K_EQ, K_PREFIX, K_LONGER, K_DIFF, K_DIFFLEN, K_EMPTY, K_RANDOM, K_NCLS };
static const char *KNAME[] = { "equal", "strict-prefix", "longer", "one-byte-differs", "differs+other-length", "empty", "random" };
static uint8_t *mk_operand(slot_t *s, int cls, long *kn)
{
    long n = s->n, k, d;
    uint8_t *p;
    switch (cls) {
    case K_PREFIX: k = n > 0 ? vh_range(0, n - 1) : 0; p = mk(k); memcpy(p, s->m, (size_t) k); break;
    case K_LONGER: k = n + vh_range(1, 6); p = mk(k); memcpy(p, s->m, (size_t) n); fill(p + n, k - n); if (vh_coin(50)) p[n] = 0; break;
    case K_DIFF: case K_DIFFLEN:
        k = cls == K_DIFF ? n : (vh_coin(50) ? n + vh_range(1, 4) : vh_range(n > 1 ? 1 : n, n));
        p = mk(k); memcpy(p, s->m, (size_t) (k < n ? k : n)); if (k > n) fill(p + n, k - n);
        if ((k < n ? k : n) > 0) { d = vh_range(0, (k < n ? k : n) - 1); p[d] = (uint8_t) (p[d] + (vh_coin(50) ? 1 : 255)); }
        break;
    case K_EMPTY: k = 0; p = mk(0); break;
    case K_RANDOM: k = vh_range(0, n + 3); p = gen_bytes(k); break;
    default: k = n; p = mk(k); memcpy(p, s->m, (size_t) n); break;
    }
    *kn = k;
    return p;
}
static spif_mbuff_t mk_tmp_obj(uint8_t *p, long k)
{
    spif_mbuff_t t;
    if (k == 0 && vh_coin(40)) t = spif_mbuff_new();
    else if (vh_coin(50)) t = spif_mbuff_new_from_ptr(p, (mi_t) k);
    else t = spif_mbuff_new_from_buff(p, (mi_t) k, (mi_t) (k + vh_range(0, 9)));
    if (!t) vh_fail("new_from_ptr:null", "constructor returned NULL for %ld bytes", k);
    return t;
}

/* 0 equal, 1 operand is a strict prefix of the object, 2 object is a strict prefix of the operand, 3 they differ inside the common part */
static int relation(slot_t *s, const uint8_t *p, long kn)
{
    long k = s->n < kn ? s->n : kn;
    if (k > 0 && memcmp(s->m, p, (size_t) k)) return 3;
    return s->n == kn ? 0 : s->n > kn ? 1 : 2;
}

static void q_cmp(slot_t *s)
{
    spif_mbuff_t o = s->o;
    long n = s->n, kn;
    int cls = (int) vh_below(K_NCLS), rt, form = (int) vh_below(4);
    uint8_t *p = mk_operand(s, cls, &kn);
    char what[160];
    int want, got, rel;
    if (form == 0) {                                   /* cmp / comp with an object */
        spif_mbuff_t t = mk_tmp_obj(p, kn);
        rt = (int) vh_below(4);
        want = m_cmp(s->m, n, p, kn);
        got = (int) X_cmp(rt, o, t);
        snprintf(what, sizeof what, "cmp[%d](len %ld, %s operand len %ld)", rt, n, KNAME[cls], kn);
        rel = relation(s, p, kn);
        Q(got == want, rel == 1 ? "cmp:prefix" : rel == 2 ? "cmp:longer" : "cmp:sign", "%s = %d, ideal %d (%s)", what, got, want, desc(s));
        if (rel == 1 || rel == 2) vh_count("cmp_equal_prefix_other_length", 1);
        spif_mbuff_del(t);
        cov3(110 + rt, state_class(s), cls * 4 + want + 1);
    } else if (form == 1) {                            /* cmp_with_ptr */
        rt = vh_coin(50);
        /* cmp_with_ptr(o, p, k) compares the first k bytes of the object with p[0..k) -- the semantics the repository's own tests pin
         * (e.g. "is is " vs ("is is", 5) is EQUAL).  Strong where the ideal sequence defines the answer: k <= len, or the two differ
         * inside the object's bytes.  Weak (any comparison result, no memory error) when the object is a strict prefix of the operand:
         * the ideal sequence has no bytes there. */
        {
            long common = kn < n ? kn : n;
            int d = common > 0 ? memcmp(s->m, p, (size_t) common) : 0;
            want = d < 0 ? -1 : d > 0 ? 1 : (kn <= n ? 0 : 2);
        }
        snprintf(what, sizeof what, "cmp_with_ptr[%s](len %ld, %s operand len %ld)", rt ? "class" : "direct", n, KNAME[cls], kn);
        vh_op("query %s", what);
        got = (int) X_cmp_with_ptr(rt, o, p, kn);
        rel = relation(s, p, kn);
        if (want == 2) { Q(got >= -1 && got <= 1, "cmp_with_ptr:range", "%s = %d is not a comparison result", what, got); vh_count("cmp_with_ptr_weak_region", 1); }
        else Q(got == want, "cmp_with_ptr:sign", "%s = %d, ideal %d over the first %ld bytes (%s)", what, got, want, kn, desc(s));
        vh_count(kn > n ? "cmp_with_ptr_operand_longer" : "cmp_with_ptr_operand_not_longer", 1);
        cov3(114 + rt, state_class(s), cls * 4 + want + 1);
    } else if (form == 2) {                            /* ncmp with an object */
        spif_mbuff_t t = mk_tmp_obj(p, kn);
        long lo = n < kn ? n : kn, hi = n < kn ? kn : n, cnt;
        switch (vh_below(8)) { case 0: cnt = 0; break; case 1: cnt = 1; break; case 2: cnt = lo - 1; break; case 3: cnt = lo; break;
                               case 4: cnt = lo + 1; break; case 5: cnt = hi; break; case 6: cnt = hi + 3; break; default: cnt = vh_range(0, hi + 2); }
        if (cnt < 0) cnt = 0;
        rt = vh_coin(50);
        want = m_ncmp(s->m, n, p, kn, cnt);
        got = (int) X_ncmp(rt, o, t, cnt);
        snprintf(what, sizeof what, "ncmp[%s](len %ld, %s operand len %ld, cnt %ld)", rt ? "class" : "direct", n, KNAME[cls], kn, cnt);
        if (want == 2) { Q(got >= -1 && got <= 1, "ncmp:range", "%s = %d is not a comparison result", what, got); vh_count("ncmp_weak_region", 1); }
        else { Q(got == want, "ncmp:sign", "%s = %d, ideal %d (%s)", what, got, want, desc(s)); vh_count("ncmp_strong", 1); }
        spif_mbuff_del(t);
        cov3(116 + rt, state_class(s), cls * 16 + (cnt == 0 ? 0 : cnt < lo ? 1 : cnt == lo ? 2 : cnt <= hi ? 3 : 4) * 3 + (want == 2 ? 2 : want != 0));
    } else {                                           /* ncmp_with_ptr: the pointer operand has exactly cnt bytes */
        long cnt = kn;
        uint8_t *q = vh_heapdup(p, (size_t) cnt);
        rt = vh_coin(50);
        want = m_ncmp(s->m, n, q, cnt, cnt);
        /* the operand has cnt bytes, so the only undecided case is a buffer that ends first with everything equal up to there: the sequence
         * that ends first is the smaller one (the pointer form has no second length that could be clamped instead) */
        if (want == 2) { want = -1; vh_count("ncmp_with_ptr_buffer_is_a_proper_prefix", 1); }
        snprintf(what, sizeof what, "ncmp_with_ptr[%s](len %ld, %s operand, cnt %ld)", rt ? "class" : "direct", n, KNAME[cls], cnt);
        vh_op("query %s", what);
        got = (int) X_ncmp_with_ptr(rt, o, q, cnt);
        if (want == 2) { Q(got >= -1 && got <= 1, "ncmp_with_ptr:range", "%s = %d is not a comparison result", what, got); vh_count("ncmp_weak_region", 1); }
        else { Q(got == want, "ncmp_with_ptr:sign", "%s = %d, ideal %d (%s)", what, got, want, desc(s)); vh_count("ncmp_strong", 1); }
        vh_count(cnt > n ? "ncmp_with_ptr_cnt_beyond_len" : "ncmp_with_ptr_cnt_within_len", 1);
        free(q);
        cov3(118 + rt, state_class(s), cls * 8 + (cnt > n ? 4 : 0) + (want == 2 ? 2 : want != 0));
    }
    free(p);
}

static void q_scan(slot_t *s)
{
    spif_mbuff_t o = s->o;
    long n = s->n, want, got;
    int present[256] = { 0 }, nabs = 0, c, rt;
    for (long i = 0; i < n; i++) present[s->m[i]] = 1;
    for (int i = 0; i < 256; i++) nabs += !present[i];
    /* absent byte (every byte is absent from the empty sequence) */
    if (nabs) {
        int k = (int) vh_below((uint64_t) nabs);
        for (c = 0; c < 256; c++) if (!present[c] && k-- == 0) break;
        if (vh_coin(25) && !present[0]) c = 0;
        rt = vh_coin(50);
        vh_op("query index/rindex of absent byte 0x%02x in len %ld", c, n);
        got = (long) X_index(rt, o, c);
        Q(got == n, "index:absent", "index[%s](0x%02x) = %ld on a sequence of length %ld without that byte; 'not found' is the length (%s)", rt ? "class" : "direct", c, got, n, desc(s));
        rt = vh_coin(50);
        got = (long) X_rindex(rt, o, c);
        Q(got == n, "rindex:absent", "rindex[%s](0x%02x) = %ld on a sequence of length %ld without that byte; 'not found' is the length (%s)", rt ? "class" : "direct", c, got, n, desc(s));
        vh_count("scan_absent", 1);
        if (n == 0) vh_count("scan_absent_len0", 1);
        if (n == 1) vh_count("scan_absent_len1", 1);
        cov3(120, state_class(s), 0);
    } else vh_count("scan_no_absent_byte_exists", 1);
    if (n > 0) {
        long at = vh_coin(30) ? 0 : vh_coin(30) ? n - 1 : (long) vh_below((uint64_t) n);
        c = s->m[at];
        rt = vh_coin(50);
        want = m_index(s->m, n, c); got = (long) X_index(rt, o, c);
        Q(got == want, "index:present", "index[%s](0x%02x) = %ld, ideal %ld (%s)", rt ? "class" : "direct", c, got, want, desc(s));
        rt = vh_coin(50);
        want = m_rindex(s->m, n, c); got = (long) X_rindex(rt, o, c);
        Q(got == want, "rindex:present", "rindex[%s](0x%02x) = %ld, ideal %ld (%s)", rt ? "class" : "direct", c, got, want, desc(s));
        vh_count("scan_present", 1);
        if (n == 1) vh_count("scan_present_len1", 1);
        cov3(121, state_class(s), (at == 0) + 2 * (at == n - 1) + 4 * (c == 0));
    }
}

static void q_find(slot_t *s)
{
    spif_mbuff_t o = s->o;
    long n = s->n, kn, want, got;
    uint8_t *k;
    int cls = (int) vh_below(6), rt = vh_coin(50);
    switch (cls) {
    case 0: kn = 0; k = mk(0); break;                                                              /* empty needle */
    case 1: kn = n + vh_range(1, 3); k = mk(kn); memcpy(k, s->m, (size_t) n); fill(k + n, kn - n); break;   /* longer than the haystack */
    case 2: case 3: {                                                                               /* a slice (present); 3: one byte changed */
        long a = n > 0 ? (long) vh_below((uint64_t) n) : 0; kn = n > 0 ? vh_range(1, n - a > 12 ? 12 : n - a) : 0;
        if (vh_coin(20)) { a = 0; kn = n; }
        if (vh_coin(20) && n > 0) { kn = vh_range(1, n > 12 ? 12 : n); a = n - kn; }                          /* ends at the last byte */
        k = mk(kn); memcpy(k, s->m + a, (size_t) kn);
        if (cls == 3 && kn > 0) { long d = vh_range(0, kn - 1); k[d] = (uint8_t) (k[d] ^ (1 << vh_below(8))); }
        break; }
    case 4: kn = 1; k = mk(1); k[0] = (uint8_t) vh_next(); break;
    default: kn = vh_range(1, 6); k = gen_bytes(kn); break;
    }
    want = m_find(s->m, n, k, kn);
    if (vh_coin(50)) {
        spif_mbuff_t t = mk_tmp_obj(k, kn);
        got = (long) X_find(rt, o, t);
        Q(got == want, want == n && kn ? "find:absent" : "find:present", "find[%s](needle %s len %ld) = %ld, ideal %ld (%s)", rt ? "class" : "direct", vh_q(k, kn > 12 ? 12 : kn), kn, got, want, desc(s));
        spif_mbuff_del(t);
    } else {
        got = (long) X_find_from_ptr(rt, o, k, kn);
        Q(got == want, want == n && kn ? "find_from_ptr:absent" : "find_from_ptr:present", "find_from_ptr[%s](needle %s len %ld) = %ld, ideal %ld (%s)", rt ? "class" : "direct", vh_q(k, kn > 12 ? 12 : kn), kn, got, want, desc(s));
    }
    vh_count(kn == 0 ? "find_empty_needle" : want == n ? "find_absent" : "find_present", 1);
    cov3(124 + rt, state_class(s), cls * 4 + (want == n) + 2 * (want == 0));
    free(k);
}

static void q_null_operand(slot_t *s)
{
    int got = (int) X_cmp((int) vh_below(4), s->o, (spif_mbuff_t) NULL);
    Q(got == 1, "cmp:null-other", "cmp(object, NULL) = %d, ideal GREATER", got);
    got = (int) X_cmp_with_ptr(vh_coin(50), s->o, NULL, 0);
    Q(got == 1, "cmp_with_ptr:null-other", "cmp_with_ptr(object, NULL, 0) = %d, ideal GREATER", got);
}

/* battery on the current value of one object; `heavy` = after an operation on it */
static void battery(slot_t *s, int heavy)
{
    long n = s->n;
    int reps = heavy ? 2 : 1;
    q_scan(s);
    for (int r = 0; r < reps; r++) {
        q_find(s);
        q_cmp(s); q_cmp(s);
        long i = pick_idx(n);
        q_sub(s, i, pick_cnt(n, i));
        if (n > 0) { i = vh_range(0, n - 1); q_sub(s, i, vh_range(-(n - i), n - i + 1)); }
    }
    if (vh_coin(10)) q_null_operand(s);
    check_obj(s, "query", 1);      /* queries leave the value alone */
}

#endif
