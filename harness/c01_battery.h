/* C01: battery of queries on the current value, each compared with the ideal sequence. */
#ifndef C01_BATTERY_H
#define C01_BATTERY_H

/* queries are journaled only in verbose replays, so that the journal tail printed with a violation shows the mutating history */
#define QOP(...) do { if (vh_verbose) vh_op(__VA_ARGS__); } while (0)

static int sgn(long x) { return x < 0 ? -1 : x > 0 ? 1 : 0; }
static int ref_cmp(const char *a, long la, const char *b, long lb, int fold)
{
    long n = la < lb ? la : lb;
    for (long i = 0; i < n; i++) {
        int x = (unsigned char) a[i], y = (unsigned char) b[i];
        if (fold) { x = m_lower((unsigned char) x); y = m_lower((unsigned char) y); }
        if (x != y) return sgn(x - y);
    }
    return sgn(la - lb);
}
/* truncated comparison; *weak set when one truncated operand is a strict prefix of the other (App. A.1) */
static int ref_ncmp(const char *a, long la, const char *b, long lb, idx_t n, int fold, int *weak)
{
    long ta = la < n ? la : (long) n, tb = lb < n ? lb : (long) n, c = ta < tb ? ta : tb;
    *weak = 0;
    int r = ref_cmp(a, c, b, c, fold);
    if (r) return r;
    if (ta == tb) return 0;
    /* one truncated operand is a strict prefix of the other: the ideal sequences compare by length (the shorter sorts first).
     * Appendix A.1 had left this region weak; it is strong now -- the statement says the cmp family answers as the ideal sequence would. */
    vh_count("q_ncmp_strict_prefix_pairs", 1);
    return sgn(ta - tb);
}
static const char *cmpname(int c) { return c < 0 ? "LESS" : c > 0 ? "GREATER" : "EQUAL"; }

/* temporary operand object; an empty operand is, half of the time, a never-filled object */
static obj_t mk_other(const char *t, long n)
{
    if (n == 0 && vh_coin(50)) { vh_count("operand_fresh_empty", 1); return c_new((int) vh_below(2)); }
    char *h = vh_heapdup(t, (size_t) n + 1);
    h[n] = 0;
    obj_t x = c_new_from_ptr((int) vh_below(2), h);
    free(h);
    return x;
}
static char *mk_ptr(const char *t, long n) { char *h = vh_heapdup(t, (size_t) n + 1); h[n] = 0; return h; }

static long m_find(const char *t, long len, const char *nd, long nl)
{
    if (nl == 0) return 0;
    if (nl > len) return len;
    const char *p = memmem(t, (size_t) len, nd, (size_t) nl);
    return p ? (long) (p - t) : len;
}

static void q_index(slot_t *s)
{
    obj_t o = s->o; long len = s->mlen; const char *m = s->m;
    unsigned char present[256] = { 0 };
    for (long i = 0; i < len; i++) present[(unsigned char) m[i]] = 1;
    int absent = -1;
    for (int k = 0; k < 255; k++) { int c = 1 + (int) ((vh_case_idx + k * 37) % 255); if (!present[c]) { absent = c; break; } }
    int r = (int) vh_below(2);
    if (len) {
        unsigned char c = (unsigned char) m[vh_below((uint64_t) len)];
        long first = (long) ((const char *) memchr(m, c, (size_t) len) - m), last = len - 1;
        while ((unsigned char) m[last] != c) last--;
        QOP("  ? index(0x%02x) r%d", c, r);
        idx_t g = c_index(r, o, (spif_char_t) c);
        vh_evals(1);
        if (g != first) vh_fail(key("index", "present"), "index(0x%02x) = %lld, first occurrence in the ideal sequence is %ld (len %ld)", c, (long long) g, first, len);
        QOP("  ? rindex(0x%02x) r%d", c, r);
        g = c_rindex(r, o, (spif_char_t) c);
        vh_evals(1);
        if (g != last) vh_fail(key("rindex", "present"), "rindex(0x%02x) = %lld, last occurrence in the ideal sequence is %ld (len %ld)", c, (long long) g, last, len);
    }
    if (absent > 0) {
        QOP("  ? index/rindex(absent 0x%02x) r%d", absent, r);
        idx_t g = c_index(r, o, (spif_char_t) absent);
        vh_evals(1);
        if (g != len) vh_fail(key("index", "absent"), "index of absent 0x%02x = %lld, 'not found' must be the length %ld", absent, (long long) g, len);
        g = c_rindex(r, o, (spif_char_t) absent);
        vh_evals(1);
        if (g != len) vh_fail(key("rindex", "absent"), "rindex of absent 0x%02x = %lld, 'not found' must be the length %ld", absent, (long long) g, len);
        vh_count("q_absent_char", 1);
    }
}

static void q_find_one(slot_t *s, const char *nd, long nl, const char *what)
{
    obj_t o = s->o;
    long want = m_find(s->m, s->mlen, nd, nl);
    int r = (int) vh_below(2);
    QOP("  ? find %s needle=%s r%d", what, vh_q(nd, nl > 40 ? 40 : nl), r);
    obj_t x = mk_other(nd, nl);
    idx_t g = c_find(r, o, x);
    c_del(0, x);
    vh_evals(1);
    if (g != want) vh_fail(key("find", what), "find(%s) = %lld, ideal answer %ld (len %ld)", vh_q(nd, nl > 40 ? 40 : nl), (long long) g, want, s->mlen);
    char *p = mk_ptr(nd, nl);
    g = c_find_from_ptr(r, o, p);
    free(p);
    vh_evals(1);
    if (g != want) vh_fail(key("find_from_ptr", what), "find_from_ptr(%s) = %lld, ideal answer %ld (len %ld)", vh_q(nd, nl > 40 ? 40 : nl), (long long) g, want, s->mlen);
}
static void q_find(slot_t *s)
{
    long len = s->mlen; const char *m = s->m;
    q_find_one(s, "", 0, "empty");
    if (len) {
        long a = (long) vh_below((uint64_t) len), n = vh_range(1, len - a > 12 ? 12 : len - a);
        if (vh_coin(10)) { a = 0; n = len; }
        if (vh_coin(15)) { n = vh_range(1, len > 12 ? 12 : len); a = len - n; }       /* suffix */
        q_find_one(s, m + a, n, "present");
    }
    /* absent: a slice of the text with a byte changed to one that does not occur, or longer than the text */
    {
        unsigned char present[256] = { 0 };
        for (long i = 0; i < len; i++) present[(unsigned char) m[i]] = 1;
        int absent = -1;
        for (int c = 1; c < 256; c++) if (!present[c]) { absent = c; break; }
        if (absent > 0) {
            long a = len ? (long) vh_below((uint64_t) len) : 0, n = len ? vh_range(0, len - a > 6 ? 6 : len - a) : 0;
            char *nd = m_alloc(n + 1);
            if (n) memcpy(nd, m + a, (size_t) n);
            nd[vh_below((uint64_t) n + 1)] = (char) absent;
            q_find_one(s, nd, n + 1, "absent");
            free(nd);
        }
        if (len && len < 200 && vh_coin(30)) {        /* needle = text + one more char: longer than the haystack */
            char *nd = cat3(m, len, "x", 1, "", 0);
            if (m_find(m, len, nd, len + 1) == len) q_find_one(s, nd, len + 1, "absent");
            free(nd);
        }
    }
}

static void q_substr_at(slot_t *s, idx_t idx, idx_t cnt, int r)
{
    obj_t o = s->o; long len = s->mlen; const char *m = s->m;
    long from = 0, n = 0;
    int ok = m_substr(len, idx, cnt, &from, &n);
    QOP("  ? substr(%lld,%lld) r%d", (long long) idx, (long long) cnt, r);
    obj_t x = c_substr(r, o, idx, cnt);
    vh_evals(1);
    COV(vh_mix(vh_mix(0x5b, (uint64_t) state_class(s)), (uint64_t) (idx_class(idx, len) * 64 + (cnt > 0 ? (cnt < len ? 1 : cnt == len ? 2 : 3) : cnt == 0 ? 4 : (cnt > -len ? 5 : 6)) * 2 + ok)));
    if (!ok) {
        vh_count("q_substr_refused", 1);
        if (x) vh_fail(key("substr", "refused"), "substr(%lld,%lld) on length %ld must be refused, returned %s", (long long) idx, (long long) cnt, len, x->s ? vh_q(x->s, (long) strnlen((char *) x->s, 40)) : "an object");
    } else {
        if (!x) vh_fail(key("substr", "accepted"), "substr(%lld,%lld) on length %ld returned NULL, ideal slice is [%ld,+%ld)", (long long) idx, (long long) cnt, len, from, n);
        slot_t tmp = { x, (char *) m + from, n };
        /* compare against the slice without copying: check_obj only reads tmp.m[0..n) */
        check_obj(&tmp, "substr");
        if (!IS_MY_CLASS(x)) vh_fail(key("substr", "class"), "substr result is not of class " CLASSNAME);
        c_del(0, x);
    }
    QOP("  ? substr_to_ptr(%lld,%lld) r%d", (long long) idx, (long long) cnt, r);
    char *p = c_substr_to_ptr(r, o, idx, cnt);
    vh_evals(1);
    if (!ok) {
        if (p) vh_fail(key("substr_to_ptr", "refused"), "substr_to_ptr(%lld,%lld) on length %ld must be refused, returned %s", (long long) idx, (long long) cnt, len, vh_q(p, (long) strnlen(p, 40)));
    } else {
        if (!p) vh_fail(key("substr_to_ptr", "accepted"), "substr_to_ptr(%lld,%lld) on length %ld returned NULL, ideal slice is [%ld,+%ld)", (long long) idx, (long long) cnt, len, from, n);
        size_t a = vh_alloc_size(p);
        if (a && a < (size_t) n + 1) vh_fail(key("substr_to_ptr", "alloc"), "result block has %zu bytes, slice needs %ld", a, n + 1);
        if ((n && memcmp(p, m + from, (size_t) n)) || p[n] != 0)
            vh_fail(key("substr_to_ptr", "text"), "substr_to_ptr(%lld,%lld) on length %ld = %s, ideal %s", (long long) idx, (long long) cnt, len, vh_q(p, (long) strnlen(p, 40)), vh_q(m + from, n > 40 ? 40 : n));
        free(p);
    }
}
static void q_substr(slot_t *s, int k)
{
    for (int i = 0; i < k; i++) q_substr_at(s, gen_idx(s->mlen), gen_idx(s->mlen), (int) vh_below(2));
}

static void q_cmp_one(slot_t *s, const char *b, long lb, const char *what)
{
    obj_t o = s->o; const char *m = s->m; long len = s->mlen;
    int r = (int) vh_below(2), weak;
    idx_t n;
    switch (vh_below(6)) { case 0: n = 0; break; case 1: n = len; break; case 2: n = lb; break; case 3: n = (len < lb ? len : lb) + 1; break;
                           case 4: n = vh_range(0, (len > lb ? len : lb) + 2); break; default: n = (len < lb ? len : lb); break; }
    QOP("  ? cmp-family vs %s %s n=%lld r%d", what, vh_q(b, lb > 30 ? 30 : lb), (long long) n, r);
    obj_t x = mk_other(b, lb);
    char *p = mk_ptr(b, lb);
    int want, got;
#define CMPCHK(call, kname, ref, isweak) do { want = (ref); got = (int) (call); vh_evals(1); \
        if (got != SPIF_CMP_LESS && got != SPIF_CMP_EQUAL && got != SPIF_CMP_GREATER) vh_fail(key(kname, "range"), "%s returned %d", kname, got); \
        if (!(isweak) && got != want) vh_fail(key(kname, what), "%s(self=%s, other=%s, n=%lld) = %s, ideal sequences compare %s", kname, \
             vh_q(m, len > 30 ? 30 : len), vh_q(b, lb > 30 ? 30 : lb), (long long) n, cmpname(got), cmpname(want)); \
        if (isweak) vh_count("q_ncmp_weak_prefix", 1); } while (0)
    CMPCHK(c_cmp(vh_coin(30) ? 2 : r, o, x), "cmp", ref_cmp(m, len, b, lb, 0), 0);
    CMPCHK(c_cmp_with_ptr(r, o, p), "cmp_with_ptr", ref_cmp(m, len, b, lb, 0), 0);
    CMPCHK(c_casecmp(r, o, x), "casecmp", ref_cmp(m, len, b, lb, 1), 0);
    CMPCHK(c_casecmp_with_ptr(r, o, p), "casecmp_with_ptr", ref_cmp(m, len, b, lb, 1), 0);
    CMPCHK(c_ncmp(r, o, x, n), "ncmp", ref_ncmp(m, len, b, lb, n, 0, &weak), weak);
    CMPCHK(c_ncmp_with_ptr(r, o, p, n), "ncmp_with_ptr", ref_ncmp(m, len, b, lb, n, 0, &weak), weak);
    CMPCHK(c_ncasecmp(r, o, x, n), "ncasecmp", ref_ncmp(m, len, b, lb, n, 1, &weak), weak);
    CMPCHK(c_ncasecmp_with_ptr(r, o, p, n), "ncasecmp_with_ptr", ref_ncmp(m, len, b, lb, n, 1, &weak), weak);
    /* the operand seen from the other side (self is then the `other` argument) */
    got = (int) c_cmp(r, x, o); want = ref_cmp(b, lb, m, len, 0); vh_evals(1);
    if (got != want) vh_fail(key("cmp", "as-other"), "cmp(self=%s, other=%s) = %s, ideal sequences compare %s", vh_q(b, lb > 30 ? 30 : lb), vh_q(m, len > 30 ? 30 : len), cmpname(got), cmpname(want));
    free(p);
    c_del(0, x);
}
static void q_cmp(slot_t *s)
{
    const char *m = s->m; long len = s->mlen;
    int which = (int) vh_below(7);
    char *b; long lb;
    switch (which) {
        case 0: q_cmp_one(s, m, len, "equal"); break;
        case 1: lb = len ? (long) vh_below((uint64_t) len) : 0; q_cmp_one(s, m, lb, "prefix"); break;
        case 2: b = cat3(m, len, vh_coin(50) ? "x" : "\x01", 1, "", 0); q_cmp_one(s, b, len + 1, "extension"); free(b); break;
        case 3: b = m_alloc(len); for (long i = 0; i < len; i++) b[i] = (char) (m_lower((unsigned char) m[i]) != (unsigned char) m[i] ? m_lower((unsigned char) m[i]) : m_upper((unsigned char) m[i]));
                q_cmp_one(s, b, len, "case-flipped"); free(b); break;
        case 4: if (len) { b = m_alloc(len); memcpy(b, m, (size_t) len); long k = (long) vh_below((uint64_t) len); unsigned char c = (unsigned char) b[k];
                    c = (unsigned char) (vh_coin(50) ? c + 1 : c - 1); if (!c) c = 2; b[k] = (char) c; q_cmp_one(s, b, len, "one-byte-different"); free(b); }
                else q_cmp_one(s, "", 0, "equal");
                break;
        case 5: { int tc = gen_tc(); if (tc == TC_BIG || tc == TC_CHUNK) tc = TC_ALNUM; b = gen_text_class(tc, &lb); } q_cmp_one(s, b, lb, "unrelated"); free(b); break;
        default: q_cmp_one(s, "", 0, "empty"); break;
    }
    if (vh_coin(10)) {         /* NULL other -> GREATER (Appendix A.1) */
        int r = (int) vh_below(2);
        QOP("  ? cmp vs NULL r%d", r);
        int g1 = (int) c_cmp(r, s->o, (obj_t) NULL), g2 = (int) c_cmp_with_ptr(r, s->o, NULL), g3 = (int) c_ncasecmp(r, s->o, (obj_t) NULL, 3);
        vh_evals(3);
        if (g1 != SPIF_CMP_GREATER || g2 != SPIF_CMP_GREATER || g3 != SPIF_CMP_GREATER)
            vh_fail(key("cmp", "null-other"), "cmp/cmp_with_ptr/ncasecmp against NULL = %d/%d/%d, must be GREATER", g1, g2, g3);
    }
}

static void q_num(slot_t *s)
{
    static const int bases[4] = { 0, 8, 10, 16 };
    obj_t o = s->o;
    int r = (int) vh_below(2);
    QOP("  ? to_num/to_float r%d", r);
    for (int i = 0; i < 4; i++) {
        size_t want = (size_t) strtoul(s->m, NULL, bases[i]);
        size_t got = c_to_num(r, o, bases[i]);
        vh_evals(1);
        if (got != want) vh_fail(key("to_num", "value"), "to_num(base %d) of %s = %zu, ideal %zu", bases[i], vh_q(s->m, s->mlen > 40 ? 40 : s->mlen), got, want);
    }
    double want = strtod(s->m, NULL), got = c_to_float(r, o);
    vh_evals(1);
    if (!((isnan(want) && isnan(got)) || (want == got && signbit(want) == signbit(got))))
        vh_fail(key("to_float", "value"), "to_float of %s = %.17g, ideal %.17g", vh_q(s->m, s->mlen > 40 ? 40 : s->mlen), got, want);
}

/* full battery; the value must be bit-identical afterwards */
static void battery(slot_t *s, int nsub)
{
    snap_t b = snap(s->o);
    if (!s->o->s) vh_count("battery_on_null_text", 1);
    if (s->mlen >= 4096) vh_count("battery_on_big_text", 1);
    if (c_type(0, s->o) != c_type(1, s->o) || !c_type(0, s->o)) vh_fail(key("type", "name"), "type() differs between the two routes or is NULL");
    q_index(s);
    q_find(s);
    q_substr(s, nsub);
    q_cmp(s);
    q_cmp(s);
    q_num(s);
    check_snap(s->o, b, "query", "changed-value");
    check_obj(s, "query");
    vh_count("batteries", 1);
}
#endif
