/* C01: str/ustr objects are faithful character-sequence values under any history.
 * DESIGN.md §4 C01, Appendix A.1.  Compiled twice: plain (spif_str_*) and with
 * -DC01_USTR (spif_ustr_*).  Model = char buffer + length. */
#define _GNU_SOURCE
#include <config.h>
#include <libast.h>
#include <sys/mman.h>
#include <fcntl.h>
#include <errno.h>
#include <limits.h>
#include <math.h>
#include <stdarg.h>
#include "vh.h"

#ifdef C01_USTR
# define CN "ustr"
# define CASE_STREAM "C01u"
# define CLASS_ID 2
# define F(n) spif_ustr_##n
typedef spif_ustr_t obj_t;
# define STRCLS SPIF_STRCLASS_VAR(ustr)
# define CLASSNAME "!spif_ustr_t!"
# define NEW_TABLE() ((obj_t) SPIF_USTR_NEW(ustr))
# define IS_MY_CLASS(o) SPIF_OBJ_IS_USTR(o)
#else
# define CN "str"
# define CASE_STREAM "C01"
# define CLASS_ID 1
# define F(n) spif_str_##n
typedef spif_str_t obj_t;
# define STRCLS SPIF_STRCLASS_VAR(str)
# define CLASSNAME "!spif_str_t!"
# define NEW_TABLE() ((obj_t) SPIF_STR_NEW(str))
# define IS_MY_CLASS(o) SPIF_OBJ_IS_STR(o)
#endif
typedef spif_int64_t idx_t;
#define COV(h) vh_cov(vh_mix((h), CLASS_ID))

#include "c01_ops.h"
#include "c01_model.h"
#include "c01_battery.h"
#include "c01_ctor.h"
#include "c01_driver.h"
