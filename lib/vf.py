"""Verification framework core: build cache, shard runner, sanitizer-report
parser, known-findings matcher, evidence writer.  Python 3 stdlib only.
See DESIGN.md §2, §3."""
import os, sys, re, json, time, hashlib, shutil, subprocess, struct, signal, glob, tempfile
from concurrent.futures import ThreadPoolExecutor

ROOT = os.path.dirname(os.path.dirname(os.path.abspath(__file__)))
SRC = os.environ.get('LIBAST_SRC', '/repo')
BUILD = os.environ.get('VERIF_BUILD', os.path.join(ROOT, 'build'))
NCPU = int(os.environ.get('VERIF_JOBS', '16'))
GUARD = 'LIBAST_VERIF'
EVID = os.environ.get('VERIF_EVIDENCE', os.path.join(ROOT, 'evidence'))

EXIT_HELD, EXIT_VIOLATED, EXIT_INCONCLUSIVE = 0, 1, 2

LIB_SOURCES_DEFAULT = ("array.c builtin_hashes.c conf.c debug.c dlinked_list.c file.c linked_list.c "
                       "mbuff.c mem.c module.c msgs.c obj.c objpair.c options.c pthreads.c regexp.c "
                       "socket.c str.c strings.c snprintf.c tok.c url.c ustr.c").split()

BASE_FLAGS = ['-g', '-O1', '-fno-omit-frame-pointer', '-DHAVE_CONFIG_H', '-D' + GUARD, '-w']
SAN = ['-fsanitize=address,undefined', '-fno-sanitize-recover=all', '-fno-sanitize=nonnull-attribute']
FLAVORS = {
    'asan':      {'cc': 'gcc', 'flags': BASE_FLAGS + SAN},
    'asan-pat':  {'cc': 'gcc', 'flags': BASE_FLAGS + SAN + ['-ftrivial-auto-var-init=pattern']},
    'asan-zero': {'cc': 'gcc', 'flags': BASE_FLAGS + SAN + ['-ftrivial-auto-var-init=zero']},
    'asan-dbg5': {'cc': 'gcc', 'flags': BASE_FLAGS + SAN, 'debug': 5},
    'asan-noalign': {'cc': 'gcc', 'flags': BASE_FLAGS + SAN + ['-fno-sanitize=alignment']},
    'plain':     {'cc': 'gcc', 'flags': ['-g', '-O0', '-DHAVE_CONFIG_H', '-D' + GUARD, '-w']},
    'plain-dbg5': {'cc': 'gcc', 'flags': ['-g', '-O1', '-DHAVE_CONFIG_H', '-D' + GUARD, '-w'], 'debug': 5},
    'cov':       {'cc': 'gcc', 'flags': ['-g', '-O0', '--coverage', '-DHAVE_CONFIG_H', '-D' + GUARD, '-w']},
}
ASAN_ENV = {
    'ASAN_OPTIONS': 'abort_on_error=1:detect_leaks=0:allocator_may_return_null=1:malloc_fill_byte=190:'
                    'max_malloc_fill_size=65536:handle_abort=0:detect_stack_use_after_return=0:'
                    'symbolize=1:print_summary=1',
    'UBSAN_OPTIONS': 'print_stacktrace=1:halt_on_error=1:abort_on_error=1',
}
LIBS = ['-lpcre', '-lX11', '-lm', '-ldl', '-lpthread']


def log(*a):
    print(*a, file=sys.stderr, flush=True)


class Inconclusive(Exception):
    pass


# ---------------------------------------------------------------- sources
def lib_sources():
    am = os.path.join(SRC, 'src', 'Makefile.am')
    try:
        txt = open(am).read().replace('\\\n', ' ')
        m = re.search(r'libast_la_SOURCES\s*=\s*(.*)', txt)
        names = m.group(1).split()
        if names:
            return names
    except Exception:
        pass
    return LIB_SOURCES_DEFAULT


def _generated_header(rel):
    """config.h, include/libast/types.h, sysdefs.h come from configure; fall back to committed copies."""
    p = os.path.join(SRC, rel)
    if os.path.exists(p):
        return p, False
    return os.path.join(ROOT, 'gen', 'fallback', rel), True


_fallback_used = []


def include_dirs():
    dirs = []
    need_fb = False
    for rel in ('config.h', 'include/libast/types.h', 'include/libast/sysdefs.h'):
        p, fb = _generated_header(rel)
        if fb:
            need_fb = True
            if rel not in _fallback_used:
                _fallback_used.append(rel)
    if need_fb:
        fb = os.path.join(ROOT, 'gen', 'fallback')
        dirs += [fb, os.path.join(fb, 'include'), os.path.join(fb, 'include', 'libast')]
    dirs += [SRC, os.path.join(SRC, 'include'), os.path.join(SRC, 'include', 'libast')]
    return dirs


def fallback_assumptions():
    return ['configure-generated %s missing in tree; committed copy from gen/fallback used' % r for r in _fallback_used]


def tree_hash():
    h = hashlib.sha256()
    files = sorted(glob.glob(os.path.join(SRC, 'src', '*.c')) + glob.glob(os.path.join(SRC, 'src', '*.h')) +
                   glob.glob(os.path.join(SRC, 'include', '*.h')) + glob.glob(os.path.join(SRC, 'include', 'libast', '*.h')) +
                   [os.path.join(SRC, 'config.h')])
    for f in files:
        try:
            data = open(f, 'rb').read()
        except OSError:
            continue
        h.update(os.path.relpath(f, SRC).encode() + b'\0' + data + b'\0')
    return h.hexdigest()


def _run(cmd, **kw):
    return subprocess.run(cmd, stdout=subprocess.PIPE, stderr=subprocess.STDOUT, text=True, **kw)


def _shim_dir(debug):
    d = os.path.join(BUILD, 'shim-dbg%s' % debug)
    os.makedirs(d, exist_ok=True)
    p = os.path.join(d, 'config.h')
    txt = '#include_next <config.h>\n#undef DEBUG\n#define DEBUG %s\n' % debug
    if not os.path.exists(p) or open(p).read() != txt:
        with open(p + '.tmp%d' % os.getpid(), 'w') as f:
            f.write(txt)
        os.replace(p + '.tmp%d' % os.getpid(), p)
    return d


def flavor_cflags(flavor):
    fl = FLAVORS[flavor]
    inc = []
    if 'debug' in fl:
        inc.append('-I' + _shim_dir(fl['debug']))
    inc += ['-I' + d for d in include_dirs()]
    return fl['cc'], list(fl['flags']) + inc


_lib_cache = {}


def build_lib(flavor, sources=None):
    """Compile libast sources from SRC as they are on disk now. Returns list of object paths."""
    key = (flavor, tuple(sources) if sources else None)
    if key in _lib_cache:
        return _lib_cache[key]
    cc, cflags = flavor_cflags(flavor)
    names = list(sources) if sources else lib_sources()
    th = tree_hash()
    hh = hashlib.sha256((th + ' '.join(cflags) + cc + ' '.join(names)).encode()).hexdigest()[:16]
    d = os.path.join(BUILD, 'lib-%s-%s' % (flavor, hh))
    objs = [os.path.join(d, n[:-2] + '.o') for n in names]
    if not (os.path.isdir(d) and os.path.exists(os.path.join(d, '.ok'))):
        tmp = d + '.tmp%d' % os.getpid()
        shutil.rmtree(tmp, ignore_errors=True)
        os.makedirs(tmp)

        def comp(n):
            src = os.path.join(SRC, 'src', n)
            r = _run([cc] + cflags + ['-c', src, '-o', os.path.join(tmp, n[:-2] + '.o')])
            return n, r.returncode, r.stdout
        with ThreadPoolExecutor(NCPU) as ex:
            res = list(ex.map(comp, names))
        bad = [(n, o) for n, rc, o in res if rc != 0]
        if bad:
            shutil.rmtree(tmp, ignore_errors=True)
            raise Inconclusive('library build failed (%s): %s\n%s' % (flavor, bad[0][0], bad[0][1][-3000:]))
        open(os.path.join(tmp, '.ok'), 'w').close()
        try:
            os.rename(tmp, d)
        except OSError:
            shutil.rmtree(tmp, ignore_errors=True)   # somebody else won the race
        _prune('lib-%s-' % flavor, keep=d)
    else:
        os.utime(d)
    _lib_cache[key] = objs
    return objs


def _prune(prefix, keep):
    now = time.time()
    for p in glob.glob(os.path.join(BUILD, prefix + '*')):
        if p == keep or p.startswith(keep):
            continue
        try:
            if now - os.path.getmtime(p) > 1800:
                if os.path.isdir(p):
                    shutil.rmtree(p, ignore_errors=True)
                else:
                    os.unlink(p)
        except OSError:
            pass


def build_harness(name, flavor, srcs, wraps=(), cflags=(), ldflags=(), lib=True, lib_sources_subset=None, common=True):
    """Link harness sources (paths relative to ROOT/harness) with the flavor's libast objects."""
    cc, fl = flavor_cflags(flavor)
    objs = build_lib(flavor, lib_sources_subset) if lib else []
    paths = [os.path.join(ROOT, 'harness', s) for s in srcs]
    if common:
        paths.append(os.path.join(ROOT, 'harness', 'common', 'vh.c'))
    hdrs = glob.glob(os.path.join(ROOT, 'harness', 'common', '*.h')) + glob.glob(os.path.join(ROOT, 'harness', '*.h')) + glob.glob(os.path.join(ROOT, 'harness', '*.inc'))
    h = hashlib.sha256()
    for p in sorted(paths + hdrs):
        h.update(p.encode() + open(p, 'rb').read())
    h.update(' '.join(fl + list(cflags) + list(ldflags) + list(wraps) + objs).encode())
    h.update(tree_hash().encode())
    exe = os.path.join(BUILD, 'h-%s-%s-%s' % (name, flavor, h.hexdigest()[:16]))
    if os.path.exists(exe):
        os.utime(exe)
        return exe
    os.makedirs(BUILD, exist_ok=True)
    wl = ['-Wl,--wrap=%s' % w for w in wraps]
    tmp = exe + '.tmp%d' % os.getpid()
    hflags = [f for f in fl if f != '-w'] + ['-I' + os.path.join(ROOT, 'harness', 'common'), '-I' + os.path.join(ROOT, 'harness'),
                                             '-Wall', '-Wno-unused-function', '-Wno-unused-variable', '-Wno-pointer-sign',
                                             '-Wno-unused-but-set-variable', '-Wno-unused-value', '-Wno-format-truncation']
    r = _run([cc] + hflags + list(cflags) + paths + objs + wl + list(ldflags) + LIBS + ['-o', tmp])
    if r.returncode != 0:
        errs = [l for l in r.stdout.splitlines() if 'error' in l or 'undefined reference' in l]
        raise Inconclusive('harness build failed (%s/%s):\n%s\n...\n%s' % (name, flavor, '\n'.join(errs[:40]), r.stdout[-1500:]))
    os.rename(tmp, exe)
    for g in glob.glob(tmp + '-*.gcno'):
        os.unlink(g)
    _prune('h-%s-%s-' % (name, flavor), keep=exe)
    return exe


# ---------------------------------------------------------------- sanitizer report parsing
_FRAME = re.compile(r'^\s*#(\d+) 0x[0-9a-f]+ in (\S+) (\S+)')


def parse_crash(stderr_text, rc):
    """Return (error_class, top_libast_function, excerpt)."""
    cls = None
    lines = stderr_text.splitlines()
    start = 0
    for i, l in enumerate(lines):
        m = re.search(r'ERROR: AddressSanitizer: ([A-Za-z0-9_-]+)', l)
        if m:
            cls = m.group(1)
            start = i
            if cls == 'SEGV':
                pass
            break
        m = re.search(r'runtime error: (.*)', l)
        if m:
            msg = m.group(1)
            msg = re.sub(r'0x[0-9a-f]+', 'ADDR', msg)
            msg = re.sub(r'-?\d+', 'N', msg)
            cls = 'ubsan:' + '-'.join(msg.split()[:4])
            start = i
            break
        if 'AddressSanitizer: stack-overflow' in l or 'stack-overflow' in l:
            cls = 'stack-overflow'
            start = i
            break
    func = None
    srcdir = os.path.join(SRC, 'src') + os.sep
    incdir = os.path.join(SRC, 'include') + os.sep
    first_stack = True
    for l in lines[start:start + 80]:
        m = _FRAME.match(l)
        if m:
            fn, loc = m.group(2), m.group(3)
            if loc.startswith(srcdir) or loc.startswith(incdir) or '/src/' in loc and SRC in loc:
                func = fn
                break
        elif func is None and l.strip() == '' and not first_stack:
            break
        if m:
            first_stack = False
    if cls is None:
        if rc is not None and rc < 0:
            try:
                cls = 'signal:' + signal.Signals(-rc).name
            except Exception:
                cls = 'signal:%d' % -rc
        else:
            cls = 'exit:%s' % rc
    excerpt = '\n'.join(lines[start:start + 40])
    return cls, func or 'unknown', excerpt


# ---------------------------------------------------------------- shard runner
class HarnessResult:
    def __init__(self):
        self.cases = 0
        self.evals = 0
        self.counts = {}
        self.samples = []
        self.cov = set()
        self.cov_saturated = False
        self.violations = []      # dicts: key, case, detail, kind, replay info
        self.restarts = 0
        self.truncated = False
        self.digests = {}
        self.wall = 0.0
        self.hangs = 0

    def merge_summary(self, s):
        self.cases += s.get('cases', 0)
        self.evals += s.get('evals', 0)
        for k, v in s.get('counts', {}).items():
            self.counts[k] = self.counts.get(k, 0) + v
        for x in s.get('samples', []):
            if len(self.samples) < 12:
                self.samples.append(x)
        if s.get('cov_saturated'):
            self.cov_saturated = True


def _read_progress(outdir, shard):
    try:
        with open(os.path.join(outdir, 'progress.%d' % shard), 'rb') as f:
            b = f.read(8)
        return struct.unpack('<q', b)[0] if len(b) == 8 else -1
    except OSError:
        return -1


def run_harness(exe, prop, seed, cases, nshards=None, tier='quick', args=(), env=None, timeout=900,
                label='', max_restarts=40, key_prefix=None, wrapper=()):
    """Run `cases` cases per shard on nshards processes. Returns HarnessResult."""
    nshards = nshards or NCPU
    res = HarnessResult()
    t0 = time.time()
    outdir = os.path.join(BUILD, 'run', '%s-%s-%d-%d' % (prop, label or 'h', os.getpid(), int(t0 * 1000) % 100000))
    shutil.rmtree(outdir, ignore_errors=True)
    os.makedirs(outdir)
    e = dict(os.environ)
    e.update(ASAN_ENV)
    e['VERIF_TIER'] = tier
    if env:
        e.update(env)
    kp = key_prefix or prop

    def shard(i):
        out = {'summaries': [], 'viol': [], 'restarts': 0, 'trunc': False, 'hangs': 0}
        start = 0
        attempt = 0
        hang_retry_at = None
        while True:
            cmd = list(wrapper) + [exe, '--seed', str(seed), '--shard', str(i), '--nshards', str(nshards), '--cases', str(cases),
                                   '--start', str(start), '--tier', tier, '--out', outdir] + list(args)
            errp = os.path.join(outdir, 'stderr.%d.%d' % (i, attempt))
            timed_out = False
            with open(errp, 'wb') as ef:
                try:
                    p = subprocess.run(cmd, stdout=subprocess.PIPE, stderr=ef, env=e, timeout=timeout, cwd=outdir)
                    rc = p.returncode
                    so = p.stdout.decode('utf-8', 'replace')
                except subprocess.TimeoutExpired as te:
                    timed_out = True
                    rc = None
                    so = (te.stdout or b'').decode('utf-8', 'replace')
            summary = None
            for line in so.splitlines():
                if line.startswith('V\t'):
                    parts = line.split('\t', 3)
                    if len(parts) == 4:
                        out['viol'].append({'key': '%s:%s' % (kp, parts[1]), 'case': int(parts[2]), 'detail': parts[3], 'kind': 'model', 'proc_start': start})
                elif line.startswith('SUMMARY\t'):
                    try:
                        summary = json.loads(line.split('\t', 1)[1])
                    except Exception:
                        summary = None
            if summary is not None and rc == 0:
                out['summaries'].append(summary)
                break
            idx = _read_progress(outdir, i)
            attempt += 1
            if timed_out:
                if hang_retry_at != idx:
                    hang_retry_at = idx          # re-run once from the same case before reporting a hang
                    start = max(idx, start)
                    continue
                out['hangs'] += 1
                out['viol'].append({'key': '%s:hang' % kp, 'case': idx, 'detail': 'watchdog %ss fired twice at this case' % timeout, 'kind': 'hang', 'proc_start': start})
            else:
                try:
                    st = open(errp, 'r', errors='replace').read()
                except OSError:
                    st = ''
                cls, fn, excerpt = parse_crash(st, rc)
                out['viol'].append({'key': '%s:%s:%s' % (kp, cls, fn), 'case': idx, 'detail': excerpt[-2500:], 'kind': 'crash', 'proc_start': start})
            out['restarts'] += 1
            # a tree that fails almost every case: the violations are on record, more of the same only costs time (each CPU-budget firing
            # costs its whole budget, and the harness's own three-firings stop does not survive a restart)
            if len(out['viol']) >= 12 or sum(1 for v in out['viol'] if v['key'].endswith(':case:cpu-budget') or v['key'].endswith('non-termination')) >= 3:
                out['trunc'] = True
                break
            if idx < 0 or out['restarts'] > max_restarts:
                out['trunc'] = True
                break
            start = idx + 1
        return out

    with ThreadPoolExecutor(nshards) as ex:
        outs = list(ex.map(shard, range(nshards)))
    for i, o in enumerate(outs):
        for s in o['summaries']:
            res.merge_summary(s)
        res.violations += o['viol']
        res.restarts += o['restarts']
        res.hangs += o['hangs']
        res.truncated = res.truncated or o['trunc']
        cp = os.path.join(outdir, 'cov.%d' % i)
        if os.path.exists(cp):
            b = open(cp, 'rb').read()
            n = len(b) // 8
            res.cov.update(struct.unpack('<%dQ' % n, b[:n * 8]))
        dp = os.path.join(outdir, 'digest.%d' % i)
        if os.path.exists(dp):
            for l in open(dp):
                a = l.split()
                if len(a) == 2:
                    res.digests[int(a[0])] = a[1]
    for v in res.violations:
        v.update({'exe': exe, 'seed': seed, 'nshards': nshards, 'tier': tier, 'args': list(args), 'env': env or {}, 'wrapper': list(wrapper)})
    res.wall = time.time() - t0
    res.outdir = outdir
    if not res.violations:
        shutil.rmtree(outdir, ignore_errors=True)
    return res


def replay_case(v, verbose=True, timeout=300, history=None):
    """Re-execute one case in a fresh process. Returns (keys_seen, stdout, stderr, rc).
    history: re-execute, in one fresh process, the cases of the same shard from the index the original process started at up to and
    including this case (a violation that needs what earlier cases left behind in the process -- static variables, allocator state --
    is a function of that history, which is itself a pure function of (seed, shard, start))."""
    if history is None:
        history = bool(v.get('history'))
    e = dict(os.environ)
    e.update(ASAN_ENV)
    e['VERIF_TIER'] = v.get('tier', 'quick')
    e.update(v.get('env') or {})
    outdir = tempfile.mkdtemp(prefix='replay-', dir=os.path.join(BUILD, 'run') if os.path.isdir(os.path.join(BUILD, 'run')) else None)
    if history:
        ns = int(v['nshards'])
        cmd = list(v.get('wrapper') or []) + [v['exe'], '--seed', str(v['seed']), '--nshards', str(ns), '--shard', str(int(v['case']) % ns),
                                              '--start', str(v.get('proc_start') or 0), '--upto', str(v['case']), '--cases', str(int(v['case']) // ns + 1),
                                              '--tier', v.get('tier', 'quick'), '--out', outdir] + list(v.get('args') or [])
        timeout = max(timeout, 1800)
    else:
        cmd = list(v.get('wrapper') or []) + [v['exe'], '--seed', str(v['seed']), '--nshards', str(v['nshards']), '--only', str(v['case']),
                                              '--tier', v.get('tier', 'quick'), '--out', outdir] + list(v.get('args') or [])
        if verbose:
            cmd.append('--verbose')
    try:
        p = subprocess.run(cmd, stdout=subprocess.PIPE, stderr=subprocess.PIPE, env=e, timeout=timeout, cwd=outdir)
        rc, so, se = p.returncode, p.stdout.decode('utf-8', 'replace'), p.stderr.decode('utf-8', 'replace')
    except subprocess.TimeoutExpired as te:
        rc, so, se = None, (te.stdout or b'').decode('utf-8', 'replace'), (te.stderr or b'').decode('utf-8', 'replace')
    shutil.rmtree(outdir, ignore_errors=True)
    keys = []
    prefix = v['key'].split(':')[0]
    for line in so.splitlines():
        if line.startswith('V\t'):
            parts = line.split('\t', 3)
            if history and len(parts) > 2 and parts[2] != str(v['case']):
                continue
            keys.append('%s:%s' % (prefix, parts[1]))
    if rc is None:
        keys.append('%s:hang' % prefix)
    elif rc != 0:
        cls, fn, _ = parse_crash(se, rc)
        keys.append('%s:%s:%s' % (prefix, cls, fn))
    return keys, so, se, rc


# ---------------------------------------------------------------- line coverage of anchored files (thorough tier)
def line_coverage(exe_cov, prop, seed, cases, files, nshards=None, args=(), env=None, timeout=900, tier='thorough'):
    """Run a 'cov'-flavor harness and return {file: {lines, executed, percent, unexecuted_ranges}} via gcov."""
    prefix = os.path.join(BUILD, 'gcov-%s-%d' % (prop, os.getpid()))
    shutil.rmtree(prefix, ignore_errors=True)
    os.makedirs(prefix)
    e = {'GCOV_PREFIX': prefix, 'GCOV_PREFIX_STRIP': '0'}
    if env:
        e.update(env)
    r = run_harness(exe_cov, prop, seed, cases, nshards=nshards, tier=tier, args=args, env=e, timeout=timeout, label='cov')
    objs = build_lib('cov')
    objdir = os.path.dirname(objs[0])
    gdir = None
    for root, dirs, fs in os.walk(prefix):     # objects were compiled in a temporary directory that was renamed afterwards
        if any(f.endswith('.gcda') and f[:-5] + '.o' in [os.path.basename(o) for o in objs] for f in fs):
            gdir = root
            break
    out = {}
    if not gdir:
        shutil.rmtree(prefix, ignore_errors=True)
        return {'error': 'no .gcda produced'}
    for f in glob.glob(os.path.join(objdir, '*.gcno')):
        shutil.copy(f, gdir)
    for rel in files:
        if not rel.endswith('.c'):
            continue
        base = os.path.basename(rel)[:-2]
        if not os.path.exists(os.path.join(gdir, base + '.gcda')):
            out[rel] = {'error': 'not executed'}
            continue
        pr = subprocess.run(['gcov', '-t', '-o', gdir, os.path.join(SRC, rel)], stdout=subprocess.PIPE, stderr=subprocess.DEVNULL, text=True, cwd=gdir)
        total = hit = 0
        miss = []
        cur = None
        for line in pr.stdout.splitlines():
            parts = line.split(':', 2)
            if len(parts) < 3:
                continue
            cnt, ln = parts[0].strip(), parts[1].strip()
            if not ln.isdigit() or int(ln) == 0:
                continue
            if cnt == '-':
                continue
            total += 1
            if cnt.startswith('#####') or cnt.startswith('====='):
                n = int(ln)
                if cur and n <= cur[1] + 2:
                    cur[1] = n
                else:
                    cur = [n, n]
                    miss.append(cur)
            else:
                hit += 1
        out[rel] = {'lines': total, 'executed': hit, 'percent': round(100.0 * hit / total, 1) if total else 0.0,
                    'unexecuted_ranges': ['%d-%d' % (a, b) if a != b else str(a) for a, b in miss[:60]]}
    shutil.rmtree(prefix, ignore_errors=True)
    return out


# ---------------------------------------------------------------- known findings
def load_known():
    p = os.path.join(ROOT, 'known_findings.json')
    try:
        return json.load(open(p)).get('findings', [])
    except Exception:
        return []


# ---------------------------------------------------------------- the check context
class Check:
    def __init__(self, prop, tier, seed):
        self.prop = prop
        self.tier = tier
        self.seed = seed
        self.t0 = time.time()
        self.results = []           # (label, HarnessResult)
        self.extra_viol = []        # violations found by python-side checkers
        self.cov = {}               # extra coverage keys
        self.assumptions = []
        self.required = []          # (observable name, min)
        self.inconclusive = []
        self.rule = ''
        self.exhaustive = None
        self.samples = []
        self.min_cases = 1

    def quick(self):
        return self.tier == 'quick'

    def pick(self, q, t):
        return q if self.tier == 'quick' else t

    def run(self, label, exe, cases, **kw):
        kw.setdefault('timeout', 400 if self.tier == 'quick' else 3600)      # wall-clock watchdog per shard: firing is re-run once, then reported as a hang
        r = run_harness(exe, self.prop, self.seed, cases, tier=self.tier, label=label, **kw)
        self.results.append((label, r))
        log('[%s] %s: cases=%d evals=%d cov=%d viol=%d restarts=%d wall=%.1fs' % (self.prop, label, r.cases, r.evals, len(r.cov), len(r.violations), r.restarts, r.wall))
        return r

    def coverage(self, exe_cov, cases, files=None, **kw):
        """Thorough tier only: gcov line coverage of the anchored files under this workload (information, not a verdict)."""
        if self.tier != 'thorough':
            return
        if files is None:
            files = []
            for l in open(os.path.join(ROOT, 'properties.jsonl')):
                d = json.loads(l)
                if d['id'] == self.prop:
                    files = [f for f in d['anchors']['files'] if f.endswith('.c')]
        try:
            self.cov['line_coverage_of_anchored_files'] = line_coverage(exe_cov, self.prop, self.seed, cases, files, **kw)
        except Exception as e:       # coverage is supplementary: never turns a verdict
            self.cov['line_coverage_of_anchored_files'] = {'error': str(e)[:300]}

    def require(self, name, minimum=1):
        self.required.append((name, minimum))

    def add_violation(self, key, detail, replay=None):
        self.extra_viol.append({'key': '%s:%s' % (self.prop, key), 'case': -1, 'detail': detail, 'kind': 'checker', 'replay': replay})

    # -- finishing
    def finish(self):
        prop = self.prop
        known = [k for k in load_known() if k.get('property') == prop and k.get('status') == 'known']
        known_keys = {k['key']: k for k in known}
        allv = []
        counts = {}
        evals = cases = 0
        cov = set()
        samples = list(self.samples)
        runs = []
        truncated = False
        for label, r in self.results:
            allv += r.violations
            for k, v in r.counts.items():
                counts[k] = counts.get(k, 0) + v
            evals += r.evals
            cases += r.cases
            cov |= {hash((label, c)) for c in r.cov} if False else r.cov
            for s in r.samples:
                if len(samples) < 16:
                    samples.append(s)
            truncated = truncated or r.truncated
            runs.append({'label': label, 'cases': r.cases, 'evaluations': r.evals, 'distinct': len(r.cov), 'restarts_after_crash': r.restarts,
                         'wall_s': round(r.wall, 2), 'violation_lines': len(r.violations)})
        allv += self.extra_viol
        # group by key
        bykey = {}
        for v in allv:
            bykey.setdefault(v['key'], []).append(v)
        os.makedirs(os.path.join(EVID, 'replay'), exist_ok=True)
        new_keys, known_hit, unrepro = [], [], []
        lines = []
        for key, vs in sorted(bykey.items()):
            v = vs[0]
            if key.split(':')[1:2] == ['harness']:
                # the harness's own generator or model left its population: nothing about the library was decided (exit 2, not a violation)
                self.inconclusive.append('harness failure %s at case %s: %s' % (key, v.get('case'), (v.get('detail') or '')[:300]))
                lines.append('INCONCLUSIVE: property=%s harness failure %s (case %s)' % (prop, key, v.get('case')))
                continue
            if key in known_keys:
                known_hit.append(key)
                lines.append('KNOWN-FINDING: property=%s %s -- %s (%d occurrences this run)' % (prop, key, known_keys[key].get('witness', ''), len(vs)))
                continue
            # confirm by re-execution in a fresh process
            confirmed = True
            replay_log = ''
            if v['kind'] in ('model', 'crash', 'hang') and v.get('exe'):
                keys, so, se, rc = replay_case(v)
                confirmed = key in keys
                if not confirmed and len(vs) > 1:
                    for v2 in vs[1:4]:
                        keys, so, se, rc = replay_case(v2)
                        if key in keys:
                            v = v2
                            confirmed = True
                            break
                if not confirmed:
                    # not a function of the case alone: try the process history (same shard, from where that process started)
                    vh = min(vs, key=lambda x: int(x.get('case') or 0) - int(x.get('proc_start') or 0))
                    if vh.get('proc_start') is not None:
                        keys, so, se, rc = replay_case(vh, history=True)
                        if key in keys:
                            v = dict(vh, history=True)
                            confirmed = True
                            v['detail'] = (v.get('detail') or '') + ' || reproduced only together with the cases this process ran before it (shard %d from case %s): the outcome depends on state left behind by earlier calls' % (int(vh['case']) % int(vh['nshards']), vh.get('proc_start'))
                replay_log = 'rc=%s\nkeys=%s\n--- stdout\n%s\n--- stderr\n%s' % (rc, keys, so[-6000:], se[-12000:])
            rp = os.path.join(EVID, 'replay', '%s-%s.json' % (prop, hashlib.sha1(key.encode()).hexdigest()[:10]))
            rec = {k: v.get(k) for k in ('key', 'case', 'kind', 'detail', 'exe', 'seed', 'nshards', 'tier', 'args', 'env', 'wrapper', 'replay', 'history', 'proc_start')}
            rec.update({'property': prop, 'occurrences': len(vs), 'confirmed_by_reexecution': confirmed, 'replay_log': replay_log,
                        'src': SRC, 'how': 'bin/check %s --replay %s' % (prop, rp)})
            with open(rp, 'w') as f:
                json.dump(rec, f, indent=1)
            if confirmed:
                new_keys.append(key)
                lines.append('VIOLATION property=%s replay=%s' % (prop, rp))
                lines.append('  key=%s case=%s occurrences=%d' % (key, v.get('case'), len(vs)))
                lines.append('  ' + (v.get('detail') or '')[:1200].replace('\n', '\n  '))
            else:
                unrepro.append(key)
                lines.append('UNREPRODUCED: property=%s key=%s replay=%s (treated as inconclusive)' % (prop, key, rp))
        # required observables
        for name, minimum in self.required:
            if counts.get(name, 0) < minimum:
                self.inconclusive.append('required observable %s=%d < %d' % (name, counts.get(name, 0), minimum))
        if cases < self.min_cases and not self.cov.get('evaluations_override'):
            self.inconclusive.append('only %d cases ran (< %d)' % (cases, self.min_cases))
        if truncated:
            self.inconclusive.append('a shard was truncated after too many crashes')
        distinct = len(cov) + int(self.cov.pop('distinct_extra', 0))
        evaluations = evals + int(self.cov.pop('evaluations_extra', 0))
        self.cov.pop('evaluations_override', None)
        coverage = {
            'evaluations': evaluations,
            'distinct_nontrivial': distinct,
            'rule': self.rule,
            'samples': samples[:16] or ['(none)'],
            'cases': cases,
            'observed': counts,
            'runs': runs,
            'distinct_violation_keys': sorted(bykey.keys()),
            'known_findings_hit': known_hit,
        }
        if self.exhaustive is not None:
            coverage['exhaustive'] = bool(self.exhaustive)
        coverage.update(self.cov)
        if distinct < 2 or evaluations < 1:
            self.inconclusive.append('monitors observed too little (evaluations=%d distinct=%d)' % (evaluations, distinct))
        ev = {
            'property_id': prop, 'tier': self.tier, 'seed': int(self.seed), 'level': 'exploration',
            'coverage': coverage,
            'assumptions': self.assumptions + fallback_assumptions() + ['LIBAST_SRC=%s tree_hash=%s' % (SRC, tree_hash()[:16])],
            'wall_s': round(time.time() - self.t0, 2),
            'violations': len(new_keys),
            'verdict': 'violated' if new_keys else ('inconclusive' if (self.inconclusive or unrepro) else 'held_on_observed'),
            'inconclusive_reasons': self.inconclusive + ['unreproduced: ' + k for k in unrepro],
        }
        write_evidence(prop, ev)
        for l in lines:
            print(l)
        if new_keys:
            code = EXIT_VIOLATED
        elif self.inconclusive or unrepro:
            for r in self.inconclusive:
                print('INCONCLUSIVE: property=%s %s' % (prop, r))
            code = EXIT_INCONCLUSIVE
        else:
            code = EXIT_HELD
        print('%s %s tier=%s seed=%s: %s (evaluations=%d distinct=%d wall=%.1fs)' % (
            prop, {0: 'HELD-ON-OBSERVED', 1: 'VIOLATED', 2: 'INCONCLUSIVE'}[code], self.tier, self.seed,
            '%d known finding(s)' % len(known_hit) if known_hit else 'no findings', evaluations, distinct, time.time() - self.t0))
        return code


def write_evidence(prop, ev):
    c = ev['coverage']
    assert isinstance(c.get('evaluations'), int) and isinstance(c.get('distinct_nontrivial'), int)
    assert isinstance(c.get('rule'), str) and isinstance(c.get('samples'), list) and c['samples']
    d = EVID
    os.makedirs(d, exist_ok=True)
    p = os.path.join(d, prop + '.json')
    tmp = p + '.tmp%d' % os.getpid()
    with open(tmp, 'w') as f:
        json.dump(ev, f, indent=1, sort_keys=False)
        f.write('\n')
    os.replace(tmp, p)
