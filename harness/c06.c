/* C06: ownership -- every allocation is released exactly once across any object history.  DESIGN.md §4 C06.
 * A generated program over the object API is executed twice in the same process with the ASan malloc/free hooks
 * recording every allocation inside the window; after the harness has deleted exactly what it owns, the second
 * execution must leave no block behind (the first execution absorbs one-time lazy allocations of libc). */
#define _GNU_SOURCE
#include <config.h>
#include <libast.h>
#include <execinfo.h>
#include "vh.h"

#if defined(DEBUG) && DEBUG >= 5
#define C06_TRACKING 1          /* library and harness compiled with memory tracking (used by the C15 check) */
#else
#define C06_TRACKING 0
#endif

extern int __sanitizer_install_malloc_and_free_hooks(void (*mh)(const volatile void *, size_t), void (*fh)(const volatile void *)) __attribute__((weak));
extern void __sanitizer_symbolize_pc(void *pc, const char *fmt, char *out, size_t out_size) __attribute__((weak));

/* ---------------------------------------------------------------- allocation window */
#define LIVECAP (1u << 16)
static struct live { const void *p; size_t n; long ord; void *bt[10]; int nbt; } *livetab;
static volatile int win_open, in_hook, want_bt;
static long alloc_ord, win_allocs, win_frees;
static void mhook(const volatile void *p, size_t n)
{
    if (!win_open || in_hook) return;
    in_hook = 1;
    win_allocs++; alloc_ord++;
    size_t i = ((uintptr_t) p >> 4) * 0x9e3779b1u & (LIVECAP - 1);
    for (size_t k = 0; k < LIVECAP; k++, i = (i + 1) & (LIVECAP - 1)) {
        if (!livetab[i].p || livetab[i].p == (void *) -1) {
            livetab[i].p = (const void *) p; livetab[i].n = n; livetab[i].ord = alloc_ord;
            livetab[i].nbt = want_bt ? backtrace(livetab[i].bt, 10) : 0;
            break;
        }
    }
    in_hook = 0;
}
static void fhook(const volatile void *p)
{
    if (!win_open || in_hook || !p) return;
    in_hook = 1;
    size_t i = ((uintptr_t) p >> 4) * 0x9e3779b1u & (LIVECAP - 1);
    for (size_t k = 0; k < LIVECAP; k++, i = (i + 1) & (LIVECAP - 1)) {
        if (!livetab[i].p) break;
        if (livetab[i].p == (const void *) p) { livetab[i].p = (void *) -1; win_frees++; break; }
    }
    in_hook = 0;
}
static void win_begin(int bt) { memset(livetab, 0, sizeof(struct live) * LIVECAP); win_allocs = win_frees = 0; alloc_ord = 0; want_bt = bt; win_open = 1; }
static void win_end(void) { win_open = 0; }
static long win_residue(char *desc, size_t dn, char *topfn, size_t tn)
{
    /* the leaked block with the lowest allocation ordinal names the finding (hash-table order depends on addresses) */
    long r = 0; size_t o = 0; struct live *first = NULL;
    if (dn) desc[0] = 0;
    if (tn) topfn[0] = 0;
    for (size_t i = 0; i < LIVECAP; i++) {
        if (livetab[i].p && livetab[i].p != (void *) -1) {
            r++;
            if (!first || livetab[i].ord < first->ord) first = &livetab[i];
        }
    }
    if (first) {
        if (dn) o += (size_t) snprintf(desc + o, dn - o, "first of %ld: [%zu bytes, allocation #%ld]", r, first->n, first->ord);
        if (tn && first->nbt && __sanitizer_symbolize_pc) {
            for (int f = 0; f < first->nbt; f++) {
                char b[400]; b[0] = 0;
                __sanitizer_symbolize_pc(first->bt[f], "%f|%s", b, sizeof b);
                char *bar = strchr(b, '|');
                if (!bar) continue;
                if (strstr(bar, "/src/") && !strstr(bar, "/src/mem.c") && !strstr(bar, "libsanitizer") && !strstr(bar, "/harness/")) {
                    *bar = 0; snprintf(topfn, tn, "%s", b);
                    if (o + 200 < dn) o += (size_t) snprintf(desc + o, dn - o, " allocated in %s (%s)", b, bar + 1);
                    break;
                }
            }
        }
    }
    return r;
}

/* ---------------------------------------------------------------- the object pool (what the harness owns) */
enum { T_STR, T_USTR, T_MBUFF, T_PAIR, T_TOK, T_URL, T_REGEXP, T_LIST, T_VEC, T_MAP, T_ITER, T_RAW /* malloc'd array / C string */, T_PLIST /* list of pairs from get_pairs: only deleted */, T_STRV /* char ** from spiftool_split */, T_NKINDS };
static const char *TN[] = { "str", "ustr", "mbuff", "pair", "tok", "url", "regexp", "list", "vector", "map", "iterator", "raw", "pairlist", "strv" };
struct ent { void *p; int kind; int impl; void *subject; /* for iterators: the container they walk */ };
#define POOLCAP 256
static struct ent pool[POOLCAP];
static int npool;
static void own(void *p, int kind, int impl) { if (!p) return; if (npool >= POOLCAP) { /* cannot happen with <=60 steps */ abort(); } pool[npool].p = p; pool[npool].kind = kind; pool[npool].impl = impl; pool[npool].subject = NULL; npool++; }
static int pick_kind(int kind) { int idx[POOLCAP], n = 0; for (int i = 0; i < npool; i++) if (pool[i].kind == kind) idx[n++] = i; return n ? idx[vh_below((uint64_t) n)] : -1; }
static int pick_kind2(int k1, int k2) { int idx[POOLCAP], n = 0; for (int i = 0; i < npool; i++) if (pool[i].kind == k1 || pool[i].kind == k2) idx[n++] = i; return n ? idx[vh_below((uint64_t) n)] : -1; }
static void disown(int i) { pool[i] = pool[--npool]; }
static void drop_iterators_of(void *subject)
{
    for (int i = 0; i < npool; ) {
        if (pool[i].kind == T_ITER && pool[i].subject == subject) { vh_op("  (iterator over it deleted first)"); SPIF_ITERATOR_DEL((spif_iterator_t) pool[i].p); disown(i); }
        else i++;
    }
}
static void destroy(int i)
{
    struct ent e = pool[i];
    if (e.kind == T_LIST || e.kind == T_VEC || e.kind == T_MAP || e.kind == T_PLIST) drop_iterators_of(e.p);
    /* indices may have shifted */
    for (i = 0; i < npool; i++) if (pool[i].p == e.p && pool[i].kind == e.kind) break;
    if (e.kind == T_RAW) { void *q = e.p; FREE(q); }       /* the library's own release macro, as application code would use */
    else if (e.kind == T_STRV) spiftool_free_array(e.p, 0);
    else SPIF_OBJ_DEL((spif_obj_t) e.p);
    disown(i);
}

static const char *W[] = { "alpha", "beta", "gamma", "delta", "a b 'c d' e", "x", "", "http://u:p@h:1/p?q", "k1", "k2", "k3", "longer text with several words in it", "http://:8080/index.html", "//h?q", "proto:p",
                           "   ", "a \"   \" b", "  lead and trail \t" };       /* all blanks; a quoted token that is all blanks; blanks at both ends */
#define NW 18
static const char *word(void) { return W[vh_below(NW)]; }
static const char *label(void) { static const char *L[] = { "k1", "k2", "k3", "k4", "k5", "k6" }; return L[vh_below(6)]; }
static spif_obj_t new_label(void) { return (spif_obj_t) spif_str_new_from_ptr((spif_charptr_t) label()); }

static void *new_container(int kind, int impl)
{
    if (kind == T_LIST) return impl == 0 ? (void *) SPIF_LIST_NEW(array) : impl == 1 ? (void *) SPIF_LIST_NEW(linked_list) : (void *) SPIF_LIST_NEW(dlinked_list);
    if (kind == T_VEC) return impl == 0 ? (void *) SPIF_VECTOR_NEW(array) : impl == 1 ? (void *) SPIF_VECTOR_NEW(linked_list) : (void *) SPIF_VECTOR_NEW(dlinked_list);
    return impl == 0 ? (void *) SPIF_MAP_NEW(array) : impl == 1 ? (void *) SPIF_MAP_NEW(linked_list) : (void *) SPIF_MAP_NEW(dlinked_list);
}
static const char *IMPLN[] = { "array", "linked_list", "dlinked_list" };

/* one program step */
static void step(void)
{
    int op = (int) vh_below(54);
    int i, j;
    switch (op) {
    case 0: case 1: { const char *w = word(); vh_op("str_new_from_ptr(%s)", vh_qs(w)); own(spif_str_new_from_ptr((spif_charptr_t) w), T_STR, 0); vh_count("create", 1); break; }
    case 2: vh_op("str_new()"); own(spif_str_new(), T_STR, 0); vh_count("create", 1); break;
    case 3: { const char *w = word(); vh_op("mbuff_new_from_ptr(%s)", vh_qs(w)); own(spif_mbuff_new_from_ptr((spif_byteptr_t) w, (spif_memidx_t) strlen(w) + 1), T_MBUFF, 0); vh_count("create", 1); break; }
    case 4: { spif_obj_t k = new_label(), v = new_label(); int f = (int) vh_below(3); vh_op("objpair_new form %d", f);
              own(f == 0 ? spif_objpair_new_from_both(k, v) : f == 1 ? spif_objpair_new_from_key(k) : spif_objpair_new_from_value(v), T_PAIR, 0);
              SPIF_OBJ_DEL(k); SPIF_OBJ_DEL(v); vh_count("create", 1); break; }
    case 5: { const char *w = word(); vh_op("tok_new_from_ptr(%s)+eval", vh_qs(w)); spif_tok_t t = spif_tok_new_from_ptr((spif_charptr_t) w); if (t) { spif_tok_eval(t); own(t, T_TOK, 0); } vh_count("create", 1); break; }
    case 6: { const char *w = word(); vh_op("url_new_from_ptr(%s)", vh_qs(w)); own(spif_url_new_from_ptr((spif_charptr_t) w), T_URL, 0); vh_count("create", 1); break; }
    case 7: { int kind = T_LIST + (int) vh_below(3), impl = (int) vh_below(3); vh_op("%s_new(%s)", TN[kind], IMPLN[impl]); own(new_container(kind, impl), kind, impl); vh_count("create", 1); break; }
    case 8: { const char *w = word(); vh_op("ustr_new_from_ptr(%s)", vh_qs(w)); own(spif_ustr_new_from_ptr((spif_charptr_t) w), T_USTR, 0); vh_count("create", 1); break; }
    case 9: { vh_op("regexp_new_from_ptr(\"a.c\")"); own(spif_regexp_new_from_ptr((spif_charptr_t) "a.c"), T_REGEXP, 0); vh_count("create", 1); break; }

    /* ---- strings / buffers */
    case 10: if ((i = pick_kind(T_STR)) >= 0) { const char *w = word(); vh_op("str_append_from_ptr(#%d, %s)", i, vh_qs(w)); spif_str_append_from_ptr(pool[i].p, (spif_charptr_t) w); vh_count("fill", 1); } break;
    case 11: if ((i = pick_kind(T_STR)) >= 0 && (j = pick_kind(T_STR)) >= 0) { if (i == j) vh_count("self_append", 1); vh_op("str_append(#%d, #%d)", i, j); spif_str_append(pool[i].p, pool[j].p); vh_count("fill", 1); } break;
    case 12: if ((i = pick_kind(T_STR)) >= 0) { vh_op("str_done(#%d) then reuse", i); spif_str_done(pool[i].p);
                 if (spif_str_get_len(pool[i].p) != 0) vh_fail("done:str:not-empty", "done() left length %ld", (long) spif_str_get_len(pool[i].p));
                 { int g = (int) vh_below(10); if (g < 5) { spif_str_init_from_ptr(pool[i].p, (spif_charptr_t) word()); } else if (g < 8) { spif_str_append_from_ptr(pool[i].p, (spif_charptr_t) "re"); vh_count("done_reuse_without_reinit", 1); } else { spif_str_done(pool[i].p); vh_count("done_reuse_without_reinit", 1); } }
                 vh_count("done_reinit", 1); } break;
    case 13: if ((i = pick_kind(T_STR)) >= 0) { long n = (long) spif_str_get_len(pool[i].p); if (n > 0) { long idx = vh_range(0, n - 1), cnt = vh_range(1, n);
                 if (vh_coin(50)) { vh_op("str_substr(#%d,%ld,%ld)", i, idx, cnt); own(spif_str_substr(pool[i].p, (spif_stridx_t) idx, (spif_stridx_t) cnt), T_STR, 0); }
                 else { vh_op("str_substr_to_ptr(#%d,%ld,%ld)", i, idx, cnt); own(spif_str_substr_to_ptr(pool[i].p, (spif_stridx_t) idx, (spif_stridx_t) cnt), T_RAW, 0); }
                 vh_count("handed_out", 1); } } break;
    case 14: if ((i = pick_kind(T_STR)) >= 0) { vh_op("str_dup(#%d)", i); own(spif_str_dup(pool[i].p), T_STR, 0); vh_count("copy", 1); } break;
    case 15: if ((i = pick_kind(T_MBUFF)) >= 0) { int f = (int) vh_below(4);
                 if (f == 0) { vh_op("mbuff_append_from_ptr(#%d)", i); spif_mbuff_append_from_ptr(pool[i].p, (spif_byteptr_t) "\0ab", 3); vh_count("fill", 1); }
                 else if (f == 1) { vh_op("mbuff_dup(#%d)", i); own(spif_mbuff_dup(pool[i].p), T_MBUFF, 0); vh_count("copy", 1); }
                 else if (f == 2) { long n = (long) spif_mbuff_get_len(pool[i].p); if (n > 0) { vh_op("mbuff_subbuff(#%d,0,%ld)", i, n); own(spif_mbuff_subbuff(pool[i].p, 0, (spif_memidx_t) n), T_MBUFF, 0); vh_count("handed_out", 1); } }
                 else { int g = (int) vh_below(3); spif_mbuff_t m = pool[i].p;
                        if (g == 0) { vh_op("mbuff_done(#%d)+init_from_ptr", i); spif_mbuff_done(m); spif_mbuff_init_from_ptr(m, (spif_byteptr_t) "xy", 2); }
                        else if (g == 1) { vh_op("mbuff_done(#%d), reused without re-init: append_from_ptr", i); spif_mbuff_done(m); spif_mbuff_append_from_ptr(m, (spif_byteptr_t) "zz", 2); vh_count("done_reuse_without_reinit", 1); }
                        else { vh_op("mbuff_done(#%d) twice", i); spif_mbuff_done(m); spif_mbuff_done(m); if (spif_mbuff_get_len(m)) vh_fail("done:mbuff:not-empty", "done() left length %ld", (long) spif_mbuff_get_len(m)); vh_count("done_reuse_without_reinit", 1); }
                        vh_count("done_reinit", 1); } } break;
    case 16: if ((i = pick_kind(T_USTR)) >= 0) { int f = (int) vh_below(3);
                 if (f == 0) { vh_op("ustr_append_from_ptr(#%d)", i); spif_ustr_append_from_ptr(pool[i].p, (spif_charptr_t) word()); vh_count("fill", 1); }
                 else if (f == 1) { vh_op("ustr_dup(#%d)", i); own(spif_ustr_dup(pool[i].p), T_USTR, 0); vh_count("copy", 1); }
                 else { vh_op("ustr_done(#%d)+init_from_ptr", i); spif_ustr_done(pool[i].p); spif_ustr_init_from_ptr(pool[i].p, (spif_charptr_t) "uv"); vh_count("done_reinit", 1); } } break;

    /* ---- pairs, tokenizers, urls, regexps */
    case 17: if ((i = pick_kind(T_PAIR)) >= 0) { int f = (int) vh_below(4);
                 if (f == 0) { vh_op("objpair_set_value(#%d, new)", i); spif_objpair_set_value(pool[i].p, new_label()); vh_count("fill", 1); }
                 else if (f == 1) { vh_op("objpair_set_key(#%d, new)", i); spif_objpair_set_key(pool[i].p, new_label()); vh_count("fill", 1); }
                 else if (f == 2) { spif_objpair_t p = pool[i].p; if (spif_objpair_get_key(p) && spif_objpair_get_value(p)) { vh_op("objpair_dup(#%d)", i); own(spif_objpair_dup(p), T_PAIR, 0); vh_count("copy", 1); } }
                 else { int g = (int) vh_below(3); spif_objpair_t pr = pool[i].p;
                        if (g == 0) { vh_op("objpair_done(#%d)+init_from_both", i); spif_objpair_done(pr); spif_obj_t k = new_label(), v = new_label(); spif_objpair_init_from_both(pr, k, v); SPIF_OBJ_DEL(k); SPIF_OBJ_DEL(v); }
                        else if (g == 1) { vh_op("objpair_done(#%d), reused without re-init: set_key+set_value", i); spif_objpair_done(pr); spif_objpair_set_key(pr, new_label()); spif_objpair_set_value(pr, new_label()); vh_count("done_reuse_without_reinit", 1); }
                        else { vh_op("objpair_done(#%d) twice", i); spif_objpair_done(pr); spif_objpair_done(pr); if (spif_objpair_get_key(pr) || spif_objpair_get_value(pr)) vh_fail("done:objpair:not-empty", "done() left key/value behind"); vh_count("done_reuse_without_reinit", 1); }
                        vh_count("done_reinit", 1); } } break;
    case 18: if ((i = pick_kind(T_TOK)) >= 0) { int f = (int) vh_below(4);
                 if (f == 0) { vh_op("tok_eval(#%d) again", i); spif_tok_eval(pool[i].p); vh_count("query", 1); }
                 else if (f == 1) { vh_op("tok_set_src(#%d)+eval", i); spif_tok_set_src(pool[i].p, spif_str_new_from_ptr((spif_charptr_t) word())); spif_tok_eval(pool[i].p); vh_count("fill", 1); }
                 else if (f == 2) { vh_op("tok_dup(#%d)", i); own(spif_tok_dup(pool[i].p), T_TOK, 0); vh_count("copy", 1); }
                 else { int g = (int) vh_below(4); spif_tok_t t = pool[i].p;
                        if (g == 0) { vh_op("tok_done(#%d)+init_from_ptr+eval", i); spif_tok_done(t); spif_tok_init_from_ptr(t, (spif_charptr_t) "p q r"); spif_tok_eval(t); }
                        else if (g == 1) { vh_op("tok_done(#%d), reused without re-init: set_src+eval", i); spif_tok_done(t); spif_tok_set_src(t, spif_str_new_from_ptr((spif_charptr_t) "u v")); spif_tok_eval(t); vh_count("done_reuse_without_reinit", 1); }
                        else if (g == 2) { vh_op("tok_done(#%d) twice", i); spif_tok_done(t); spif_tok_done(t); vh_count("done_reuse_without_reinit", 1); }
                        else { vh_op("tok_done(#%d), left emptied until deletion", i); spif_tok_done(t); vh_count("done_reuse_without_reinit", 1); }
                        if (spif_tok_get_tokens(t) && g >= 2) vh_fail("done:tok:not-empty", "done() left a token list behind");
                        vh_count("done_reinit", 1); } } break;
    case 19: if ((i = pick_kind(T_URL)) >= 0) { int f = (int) vh_below(4);
                 if (f == 0) { vh_op("url_unparse(#%d)", i); spif_url_unparse(pool[i].p); vh_count("query", 1); }
                 else if (f == 1) { vh_op("url_set_host(#%d)+unparse", i); spif_url_set_host(pool[i].p, spif_str_new_from_ptr((spif_charptr_t) "example.org")); spif_url_unparse(pool[i].p); vh_count("fill", 1); }
                 else if (f == 2) { vh_op("url_dup(#%d)", i); own(spif_url_dup(pool[i].p), T_URL, 0); vh_count("copy", 1); }
                 else { int g = (int) vh_below(3); spif_url_t u = pool[i].p;
                        if (g == 0) { vh_op("url_done(#%d)+init_from_ptr", i); spif_url_done(u); spif_url_init_from_ptr(u, (spif_charptr_t) "ftp://h/p"); }
                        else if (g == 1) { vh_op("url_done(#%d), reused without re-init: set_host+unparse", i); spif_url_done(u); spif_url_set_host(u, spif_str_new_from_ptr((spif_charptr_t) "again.example")); spif_url_unparse(u); vh_count("done_reuse_without_reinit", 1); }
                        else { vh_op("url_done(#%d) twice, left emptied until deletion", i); spif_url_done(u); spif_url_done(u); if (spif_url_get_host(u) || spif_url_get_path(u)) vh_fail("done:url:not-empty", "done() left components behind"); vh_count("done_reuse_without_reinit", 1); }
                        vh_count("done_reinit", 1); } } break;
    case 20: if ((i = pick_kind(T_REGEXP)) >= 0) { int f = (int) vh_below(3);
                 if (f == 0) { vh_op("regexp_matches_ptr(#%d)", i); spif_regexp_matches_ptr(pool[i].p, (spif_charptr_t) "abc"); vh_count("query", 1); }
                 else if (f == 1) { vh_op("regexp_set_flags(#%d,\"i\")", i); spif_regexp_set_flags(pool[i].p, (spif_charptr_t) "i"); vh_count("fill", 1); }
                 else { vh_op("regexp_dup(#%d)", i); own(spif_regexp_dup(pool[i].p), T_REGEXP, 0); vh_count("copy", 1); } } break;

    /* ---- lists */
    case 21: case 22: if ((i = pick_kind(T_LIST)) >= 0) { spif_obj_t e = new_label(); int f = (int) vh_below(3);
                 vh_op("list %s(#%d, new label)", f == 0 ? "append" : f == 1 ? "prepend" : "insert_at(1)", i);
                 if (f == 0) SPIF_LIST_APPEND((spif_list_t) pool[i].p, e); else if (f == 1) SPIF_LIST_PREPEND((spif_list_t) pool[i].p, e); else if (!SPIF_LIST_INSERT_AT((spif_list_t) pool[i].p, e, 1)) SPIF_OBJ_DEL(e);
                 vh_count("hand_in", 1); } break;
    case 23: if ((i = pick_kind(T_LIST)) >= 0 && (j = pick_kind(T_STR)) >= 0) { vh_op("list_append(#%d, owned object #%d) -- ownership moves to the list", i, j); SPIF_LIST_APPEND((spif_list_t) pool[i].p, (spif_obj_t) pool[j].p); disown(j); vh_count("hand_in", 1); } break;
    case 24: if ((i = pick_kind(T_LIST)) >= 0) { long n = (long) SPIF_LIST_COUNT((spif_list_t) pool[i].p); if (n > 0) { long at = vh_range(0, n - 1); vh_op("list_remove_at(#%d,%ld)", i, at);
                 void *subj = pool[i].p; spif_obj_t r = SPIF_LIST_REMOVE_AT((spif_list_t) subj, (spif_listidx_t) at); drop_iterators_of(subj); if (r) own(r, T_STR, 0); vh_count("handed_out", 1); } } break;
    case 25: if ((i = pick_kind(T_LIST)) >= 0) { spif_obj_t probe = new_label(); vh_op("list_remove(#%d, %s)", i, vh_qs((char *) SPIF_STR_STR((spif_str_t) probe)));
                 void *subj = pool[i].p; spif_obj_t r = SPIF_LIST_REMOVE((spif_list_t) subj, probe); SPIF_OBJ_DEL(probe); drop_iterators_of(subj); if (r) { own(r, T_STR, 0); vh_count("handed_out", 1); } } break;
    case 26: if ((i = pick_kind(T_LIST)) >= 0) { int f = (int) vh_below(5); spif_list_t l = pool[i].p;
                 if (f == 0) { vh_op("list_to_array(#%d)", i); own(SPIF_LIST_TO_ARRAY(l), T_RAW, 0); vh_count("handed_out", 1); }
                 else if (f == 1) { vh_op("list_reverse(#%d)", i); SPIF_LIST_REVERSE(l); vh_count("query", 1); }
                 else if (f == 2) { spif_obj_t probe = new_label(); vh_op("list find/contains/index(#%d)", i); (void) SPIF_LIST_FIND(l, probe); (void) SPIF_LIST_CONTAINS(l, probe); (void) SPIF_LIST_INDEX(l, probe); SPIF_OBJ_DEL(probe); vh_count("query", 1); }
                 else if (f == 3) { vh_op("list_iterator(#%d)", i); spif_iterator_t it = SPIF_LIST_ITERATOR(l); if (it) { own(it, T_ITER, 0); pool[npool - 1].subject = l; int k = 0; while (SPIF_ITERATOR_HAS_NEXT(it) && k++ < 3) (void) SPIF_ITERATOR_NEXT(it); } vh_count("iterator", 1); }
                 else { vh_op("list_dup(#%d)", i); own(SPIF_LIST_DUP(l), T_LIST, pool[i].impl); vh_count("copy", 1); } } break;
    case 27: if ((i = pick_kind(T_LIST)) >= 0) { long n = (long) SPIF_LIST_COUNT((spif_list_t) pool[i].p); long at = n + vh_range(1, 3); spif_obj_t e = new_label();
                 vh_op("list_insert_at(#%d, new label, %ld) -- past the end, placeholders", i, at); if (!SPIF_LIST_INSERT_AT((spif_list_t) pool[i].p, e, (spif_listidx_t) at)) SPIF_OBJ_DEL(e); vh_count("hand_in", 1); } break;

    /* ---- vectors */
    case 28: case 29: if ((i = pick_kind(T_VEC)) >= 0) { vh_op("vector_insert(#%d, new label)", i); SPIF_VECTOR_INSERT((spif_vector_t) pool[i].p, new_label()); vh_count("hand_in", 1); } break;
    case 30: if ((i = pick_kind(T_VEC)) >= 0) { spif_obj_t probe = new_label(); vh_op("vector_remove(#%d, %s)", i, vh_qs((char *) SPIF_STR_STR((spif_str_t) probe)));
                 void *subj = pool[i].p; spif_obj_t r = SPIF_VECTOR_REMOVE((spif_vector_t) subj, probe); SPIF_OBJ_DEL(probe); drop_iterators_of(subj); if (r) { own(r, T_STR, 0); vh_count("handed_out", 1); } } break;
    case 31: if ((i = pick_kind(T_VEC)) >= 0) { int f = (int) vh_below(4); spif_vector_t v = pool[i].p;
                 if (f == 0) { vh_op("vector_to_array(#%d)", i); own(SPIF_VECTOR_TO_ARRAY(v), T_RAW, 0); vh_count("handed_out", 1); }
                 else if (f == 1) { spif_obj_t probe = new_label(); vh_op("vector find/contains(#%d)", i); (void) SPIF_VECTOR_FIND(v, probe); (void) SPIF_VECTOR_CONTAINS(v, probe); SPIF_OBJ_DEL(probe); vh_count("query", 1); }
                 else if (f == 2) { vh_op("vector_iterator(#%d)", i); spif_iterator_t it = SPIF_VECTOR_ITERATOR(v); if (it) { own(it, T_ITER, 0); pool[npool - 1].subject = v; while (SPIF_ITERATOR_HAS_NEXT(it)) (void) SPIF_ITERATOR_NEXT(it); } vh_count("iterator", 1); }
                 else { vh_op("vector_dup(#%d)", i); own(SPIF_VECTOR_DUP(v), T_VEC, pool[i].impl); vh_count("copy", 1); } } break;

    /* ---- maps */
    case 32: case 33: if ((i = pick_kind(T_MAP)) >= 0 && vh_coin(10)) {       /* the pair form of set: the map takes copies, the caller keeps and deletes its own pair */
                 spif_obj_t pk = new_label(), pv = (spif_obj_t) spif_str_new_from_ptr((spif_charptr_t) word());
                 spif_objpair_t pr = spif_objpair_new_from_both(pk, pv);          /* (a pair holds copies of what it is made from) */
                 vh_op("map_set(#%d, pair(%s, value), NULL) -- then the caller deletes its pair", i, vh_qs((char *) SPIF_STR_STR((spif_str_t) pk)));
                 SPIF_MAP_SET((spif_map_t) pool[i].p, (spif_obj_t) pr, (spif_obj_t) NULL);
                 SPIF_OBJ_DEL(pk); SPIF_OBJ_DEL(pv); spif_objpair_del(pr); vh_count("map_set_pair_form", 1); break; }
             if (i >= 0 && vh_coin(12)) {       /* one and the same object handed in as key and as value: the map keeps two copies of its own */
                 spif_obj_t k = new_label();
                 vh_op("map_set(#%d, %s, the same object as value)", i, vh_qs((char *) SPIF_STR_STR((spif_str_t) k)));
                 SPIF_MAP_SET((spif_map_t) pool[i].p, k, k); SPIF_OBJ_DEL(k); vh_count("map_set_key_object_as_value", 1); break; }
             if (i >= 0) { spif_obj_t k = new_label(), v = (spif_obj_t) spif_str_new_from_ptr((spif_charptr_t) word());
                 vh_op("map_set(#%d, %s, value) -- caller keeps and deletes its own key and value", i, vh_qs((char *) SPIF_STR_STR((spif_str_t) k)));
                 SPIF_MAP_SET((spif_map_t) pool[i].p, k, v);
                 if (vh_coin(50)) { spif_str_append_from_ptr((spif_str_t) v, (spif_charptr_t) "-scribbled"); spif_str_reverse((spif_str_t) k); }
                 SPIF_OBJ_DEL(k); SPIF_OBJ_DEL(v); vh_count("map_set", 1); } break;
    case 34: if ((i = pick_kind(T_MAP)) >= 0) { spif_obj_t k = new_label(); vh_op("map_remove(#%d, %s)", i, vh_qs((char *) SPIF_STR_STR((spif_str_t) k)));
                 void *subj = pool[i].p; spif_obj_t r = SPIF_MAP_REMOVE((spif_map_t) subj, k); SPIF_OBJ_DEL(k); drop_iterators_of(subj); if (r) { own(r, T_PAIR, 0); vh_count("handed_out", 1); } } break;
    case 35: if ((i = pick_kind(T_MAP)) >= 0) { int f = (int) vh_below(6); spif_map_t m = pool[i].p;
                 if (f == 0) { vh_op("map_get_keys(#%d, NULL)", i); own(SPIF_MAP_GET_KEYS(m, (spif_list_t) NULL), T_LIST, 0); vh_count("handed_out", 1); }
                 else if (f == 1) { vh_op("map_get_values(#%d, NULL)", i); own(SPIF_MAP_GET_VALUES(m, (spif_list_t) NULL), T_LIST, 0); vh_count("handed_out", 1); }
                 else if (f == 2) { vh_op("map_get_pairs(#%d, NULL)", i); own(SPIF_MAP_GET_PAIRS(m, (spif_list_t) NULL), T_PLIST, 0); vh_count("handed_out", 1); }
                 else if (f == 3) { spif_obj_t k = new_label(); vh_op("map get/has_key/has_value(#%d)", i); (void) SPIF_MAP_GET(m, k); (void) SPIF_MAP_HAS_KEY(m, k); (void) SPIF_MAP_HAS_VALUE(m, k); SPIF_OBJ_DEL(k); vh_count("query", 1); }
                 else if (f == 4) { vh_op("map_iterator(#%d)", i); spif_iterator_t it = SPIF_MAP_ITERATOR(m); if (it) { own(it, T_ITER, 0); pool[npool - 1].subject = m; while (SPIF_ITERATOR_HAS_NEXT(it)) (void) SPIF_ITERATOR_NEXT(it); } vh_count("iterator", 1); }
                 else { vh_op("map_dup(#%d)", i); own(SPIF_MAP_DUP(m), T_MAP, pool[i].impl); vh_count("copy", 1); } } break;
    case 36: if ((i = pick_kind(T_MAP)) >= 0) { int li = pick_kind(T_LIST); if (li >= 0 && pool[li].impl == 0) { vh_op("map_get_keys(#%d, into caller's list #%d)", i, li); SPIF_MAP_GET_KEYS((spif_map_t) pool[i].p, (spif_list_t) pool[li].p); vh_count("handed_out", 1); } } break;

    /* ---- string tools that hand out arrays and C strings */
    case 40: { const char *w = word(); vh_op("spiftool_split(NULL, %s)", vh_qs(w)); char *in = vh_heapstr(w); own(spiftool_split(NULL, (spif_charptr_t) in), T_STRV, 0); free(in); vh_count("handed_out", 1); vh_count("split_arrays", 1); break; }
    case 41: if ((i = pick_kind(T_STRV)) >= 0) { vh_op("spiftool_join(\",\", #%d)", i); own(spiftool_join((spif_charptr_t) ",", (spif_charptr_t *) pool[i].p), T_RAW, 0); vh_count("handed_out", 1); } break;
    case 42: if ((i = pick_kind(T_TOK)) >= 0) { spif_list_t tl = spif_tok_get_tokens(pool[i].p); if (tl && SPIF_LIST_COUNT(tl) > 0) { vh_op("tok(#%d) tokens to_array", i); own(SPIF_LIST_TO_ARRAY(tl), T_RAW, 0); vh_count("handed_out", 1); } } break;

    /* ---- emptied-but-allocated values, refused constructions, empty components */
    case 43: if ((i = pick_kind(T_MBUFF)) >= 0) { long n = (long) spif_mbuff_get_len(pool[i].p); vh_op("mbuff_splice_from_ptr(#%d,0,%ld,NULL,0) -- emptied, buffer kept; then dup", i, n);
                 spif_mbuff_splice_from_ptr(pool[i].p, 0, (spif_memidx_t) n, (spif_byteptr_t) NULL, 0); own(spif_mbuff_dup(pool[i].p), T_MBUFF, 0); vh_count("emptied_then_copied", 1); } break;
    case 44: if ((i = pick_kind(T_STR)) >= 0) { long n = (long) spif_str_get_len(pool[i].p); vh_op("str_splice_from_ptr(#%d,0,%ld,NULL) -- emptied, buffer kept; then dup", i, n);
                 spif_str_splice_from_ptr(pool[i].p, 0, (spif_stridx_t) n, (spif_charptr_t) NULL); own(spif_str_dup(pool[i].p), T_STR, 0); vh_count("emptied_then_copied", 1); } break;
    case 45: if (C06_TRACKING) break;      /* at runtime level >= 1 (the tracking build runs at 5) a refused ASSERT-guarded call is fatal by design (C16/C20) */
             { spif_obj_t k = new_label(); int f = (int) vh_below(2);
               if (f == 0) { vh_op("objpair_new_from_both(key, NULL) -- must be refused without keeping anything"); spif_objpair_t p = spif_objpair_new_from_both(k, (spif_obj_t) NULL); if (p) own(p, T_PAIR, 0); }
               else if (f == 1) { vh_op("objpair_new_from_both(NULL, value) -- must be refused without keeping anything"); spif_objpair_t p = spif_objpair_new_from_both((spif_obj_t) NULL, k); if (p) own(p, T_PAIR, 0); }
               /* map_set(key, NULL) is not generated: a NULL value is outside every statement (Appendix A.3) */
               SPIF_OBJ_DEL(k); vh_count("refused_constructions", 1); break; }
    case 46: if ((i = pick_kind(T_URL)) >= 0) { vh_op("url_set_host(#%d, \"\")+set_port+unparse -- empty host", i); spif_url_set_host(pool[i].p, spif_str_new_from_ptr((spif_charptr_t) ""));
                 spif_url_set_port(pool[i].p, spif_str_new_from_ptr((spif_charptr_t) "81")); spif_url_unparse(pool[i].p); vh_count("fill", 1); vh_count("url_empty_component", 1); } break;
    case 47: { vh_op("mbuff_new_from_buff(NULL,0,16) -- capacity only; dup"); spif_mbuff_t m = spif_mbuff_new_from_buff((spif_byteptr_t) NULL, 0, 16); if (m) { own(m, T_MBUFF, 0); own(spif_mbuff_dup(m), T_MBUFF, 0); } vh_count("emptied_then_copied", 1); break; }

    /* ---- emptying and early deletion */
    case 37: if ((i = pick_kind2(T_LIST, T_MAP)) >= 0 || (i = pick_kind(T_VEC)) >= 0) { vh_op("%s done(#%d) on a possibly non-empty container, then reuse", TN[pool[i].kind], i);
                 { void *subj = pool[i].p; drop_iterators_of(subj); for (j = 0; j < npool; j++) if (pool[j].p == subj) break; i = j; } SPIF_OBJ_DONE((spif_obj_t) pool[i].p);
                 if (pool[i].kind == T_LIST) SPIF_LIST_APPEND((spif_list_t) pool[i].p, new_label());
                 else if (pool[i].kind == T_VEC) SPIF_VECTOR_INSERT((spif_vector_t) pool[i].p, new_label());
                 else { spif_obj_t k = new_label(); SPIF_MAP_SET((spif_map_t) pool[i].p, k, k); SPIF_OBJ_DEL(k); }
                 vh_count("done_reinit", 1); } break;
    /* ---- a map is given back the very value object it handed out for that key (the old value must not be released before the new copy exists) */
    case 48: if ((i = pick_kind(T_MAP)) >= 0) { spif_map_t m = pool[i].p; spif_obj_t k = new_label(); spif_obj_t v = SPIF_MAP_GET(m, k);
                 if (v) { vh_op("map_set(#%d, %s, the value object map_get just returned)", i, vh_qs((char *) SPIF_STR_STR((spif_str_t) k))); SPIF_MAP_SET(m, k, v); vh_count("map_set_with_own_value", 1); }
                 SPIF_OBJ_DEL(k); } break;
    /* ---- constructors from a descriptor that cannot deliver: an empty file, and a non-empty file opened write-only (read() fails) */
    case 49: { int f = (int) vh_below(4), fd;
               if (f & 1) { fd = memfd_create("c06-empty", 0); }
               else { char nm[64]; snprintf(nm, sizeof nm, "c06-wronly-%d", vh_shard); fd = open(nm, O_WRONLY | O_CREAT | O_TRUNC, 0600); if (fd >= 0 && write(fd, "twelve bytes", 12) < 0) { } }
               if (fd < 0) break;
               vh_op("%s_new_from_fd(%s descriptor) -- whatever it answers, nothing may stay allocated that the caller cannot release", (f & 2) ? "mbuff" : "str", (f & 1) ? "empty" : "write-only");
               if (f & 2) { spif_mbuff_t r = spif_mbuff_new_from_fd(fd); if (r) own(r, T_MBUFF, 0); }
               else { spif_str_t r = spif_str_new_from_fd(fd); if (r) own(r, T_STR, 0); }
               close(fd); vh_count("constructions_from_undeliverable_descriptor", 1); break; }
    /* ---- any component of a URL replaced through its setter by a new string, an empty string or nothing at all: states the parser never
     * produces (a password without a user, a port without a host); the URL owns what it was given and done()/del release all of it */
    case 50: if ((i = pick_kind(T_URL)) >= 0) { int c = (int) vh_below(7), how = (int) vh_below(3); spif_url_t u = pool[i].p;
                 static const char *CN[] = { "proto", "user", "passwd", "host", "port", "path", "query" };
                 spif_str_t v = how == 0 ? spif_str_new_from_ptr((spif_charptr_t) word()) : how == 1 ? spif_str_new_from_ptr((spif_charptr_t) "") : (spif_str_t) NULL;
                 vh_op("url_set_%s(#%d, %s)", CN[c], i, how == 0 ? "a word" : how == 1 ? "\"\"" : "NULL");
                 switch (c) { case 0: spif_url_set_proto(u, v); break; case 1: spif_url_set_user(u, v); break; case 2: spif_url_set_passwd(u, v); break; case 3: spif_url_set_host(u, v); break;
                              case 4: spif_url_set_port(u, v); break; case 5: spif_url_set_path(u, v); break; default: spif_url_set_query(u, v); break; }
                 if (vh_coin(40)) spif_url_unparse(u);
                 vh_count("url_component_set", 1); } break;
    /* ---- trimming: a text or buffer that is all blanks ends up empty, and stays a usable object */
    case 51: if ((i = pick_kind2(T_STR, T_MBUFF)) >= 0) { vh_op("%s_trim(#%d), then append", TN[pool[i].kind], i);
                 if (pool[i].kind == T_STR) { spif_str_trim(pool[i].p); spif_str_append_from_ptr(pool[i].p, (spif_charptr_t) "+"); }
                 else { spif_mbuff_trim(pool[i].p); spif_mbuff_append_from_ptr(pool[i].p, (spif_byteptr_t) "+", 1); }
                 vh_count("trim", 1); } break;
    /* ---- splicing one value into another so that the receiver has to grow (its old storage must be released, not just replaced) */
    case 52: if ((i = pick_kind2(T_STR, T_MBUFF)) >= 0) { int kind = pool[i].kind; j = pick_kind(kind);
                 if (j >= 0) { vh_op("%s_splice(#%d, 0, 0, #%d) x2 -- receiver grows", TN[kind], i, j);
                     if (kind == T_STR) { spif_str_splice(pool[i].p, 0, 0, pool[j].p); spif_str_splice(pool[i].p, 1, 0, pool[j].p); }
                     else { spif_mbuff_splice(pool[i].p, 0, 0, pool[j].p); spif_mbuff_splice(pool[i].p, 1, 0, pool[j].p); }
                     vh_count("splice_growing", 1); } } break;
    /* ---- a socket object whose open fails at bind() (the directory of its local path does not exist): created, opened in vain, deleted */
    case 53: { spif_url_t lu = spif_url_new_from_ptr((spif_charptr_t) "unix:/nonexistent-c06-dir/sock");
               vh_op("socket_new_from_urls(unix:/nonexistent-c06-dir/sock, NULL) + open (bind fails) + del");
               spif_socket_t so = spif_socket_new_from_urls(lu, (spif_url_t) NULL);
               spif_url_del(lu);
               if (so) { (void) spif_socket_open(so); spif_socket_del(so); }
               vh_count("socket_open_failing_at_bind", 1); break; }
    case 38: case 39: if (npool > 0) { i = (int) vh_below((uint64_t) npool); vh_op("early delete of #%d (%s)", i, TN[pool[i].kind]); destroy(i); vh_count("early_delete", 1); } break;
    }
}

#if defined(DEBUG) && DEBUG >= 5
extern spifmem_memrec_t *spifmem_verif_malloc_rec(void);
static void tracker_must_be_empty(void)
{
    spifmem_memrec_t *r = spifmem_verif_malloc_rec();
    if (r->cnt != 0) {
        char d[600]; size_t o = 0;
        for (size_t i = 0; i < r->cnt && i < 4 && o < sizeof d - 120; i++)
            o += (size_t) snprintf(d + o, sizeof d - o, "[%zu bytes from %s:%u]", r->ptrs[i].size, (char *) r->ptrs[i].file, (unsigned) r->ptrs[i].line);
        const char *key = "tracker:table-not-empty";
        size_t n = r->cnt;
        r->cnt = 0;          /* keep later cases reproducible */
        vh_fail(key, "memory tracking compiled in and active: after the program deleted everything it owned the tracker still lists %zu block(s): %s", n, d);
    }
    vh_count("tracker_empty_after_program", 1);
}
#else
static void tracker_must_be_empty(void) { }
#endif

static void run_program(uint64_t rs, int steps)
{
    vh_rng.s = rs;
    npool = 0;
    for (int s = 0; s < steps; s++) step();
    vh_op("-- delete everything still owned (%d objects)", npool);
    while (npool > 0) destroy(npool - 1);
    tracker_must_be_empty();
}

int main(int argc, char **argv)
{
    vh_init(argc, argv, "C06");
    libast_set_program_name("c06"); libast_set_program_version("0");
    livetab = calloc(LIVECAP, sizeof *livetab);
    if (C06_TRACKING) {
        DEBUG_LEVEL = 5;                                  /* tracking active */
        if (!vh_verbose) stderr = fopen("/dev/null", "w");   /* level-5 D_MEM chatter; sanitizer reports use fd 2 directly and are unaffected */
    }
    if (!__sanitizer_install_malloc_and_free_hooks) { fprintf(stderr, "no ASan malloc hooks: conservation monitor unavailable\n"); return 3; }
    __sanitizer_install_malloc_and_free_hooks(mhook, fhook);
    /* warm up facilities that allocate lazily once per process */
    { struct protoent *pe = getprotobyname("tcp"); (void) pe; struct servent *se = getservbyname("http", "tcp"); (void) se; fprintf(stderr, "%s", ""); }
    while (vh_next_case()) {
        if (VH_CASE_TRY()) {
            uint64_t rs = vh_rng.s;
            int steps = (int) vh_range(1, 50);
            vh_rng.s = rs; (void) vh_next();
            char desc[1200], topfn[128], key[200];
            long res[3] = { 0, 0, 0 };
            size_t hb[3];
            for (int pass = 0; pass < 2; pass++) {
                size_t before = vh_heap_bytes();
                win_begin(0);
                run_program(rs, steps);
                win_end();
                res[pass] = win_residue(desc, sizeof desc, NULL, 0);
                hb[pass] = vh_heap_bytes() - before;
            }
            vh_evals(1);
            vh_count("programs", 1);
            vh_count("allocations_observed", win_allocs);
            vh_count("frees_observed", win_frees);
            vh_cov(vh_mix(rs, (uint64_t) steps));
            if (res[1] != 0 && !C06_TRACKING) {     /* in the tracking build the tracker's own table is part of the heap: only the table-empty monitor applies */
                /* third execution with allocation stacks, for the report and the key */
                win_begin(1);
                run_program(rs, steps);
                win_end();
                long r3 = win_residue(desc, sizeof desc, topfn, sizeof topfn);
                snprintf(key, sizeof key, "leak:%s", topfn[0] ? topfn : "unknown");
                vh_fail(key, "after deleting everything the program owned, %ld block(s) allocated inside the program are still live on a repeated execution (%ld on the third): %s", res[1], r3, desc);
            }
            if ((vh_case_idx % 499) == 0) vh_sample("case %ld: %d steps, %ld allocations / %ld frees inside the window, residue %ld, heap delta %zu", vh_case_idx, steps, win_allocs, win_frees, res[1], hb[1]);
        }
        vh_case_done();
    }
    return vh_finish();
}
