/* C01: the two entry routes.  r==0: direct spif_[u]str_* call.  r==1: through the class
 * table (the SPIF_STR_* method macros of str.h, which dispatch on the object's own class
 * pointer and therefore also serve ustr objects, whose class is a strclass too; where str.h
 * has no usable macro -- the NEW_FROM_* macros do not compile, TO_FLOAT casts a pointer to
 * double -- the strclass table slot is called directly). */
#ifndef C01_OPS_H
#define C01_OPS_H

#define IDX(x) ((spif_stridx_t) (x))

static obj_t c_new(int r) { return r ? NEW_TABLE() : F(new)(); }
static obj_t c_new_from_ptr(int r, char *p) { return r ? (obj_t) (STRCLS->new_from_ptr)(p) : F(new_from_ptr)(p); }
static obj_t c_new_from_buff(int r, char *b, idx_t n) { return r ? (obj_t) (STRCLS->new_from_buff)(b, IDX(n)) : F(new_from_buff)(b, n); }
static obj_t c_new_from_fp(int r, FILE *fp) { return r ? (obj_t) (STRCLS->new_from_fp)(fp) : F(new_from_fp)(fp); }
static obj_t c_new_from_fd(int r, int fd) { return r ? (obj_t) (STRCLS->new_from_fd)(fd) : F(new_from_fd)(fd); }
static obj_t c_new_from_num(int r, long n) { return r ? (obj_t) (STRCLS->new_from_num)(n) : F(new_from_num)(n); }

static spif_bool_t c_init(int r, obj_t o) { return r ? SPIF_STR_INIT(o) : F(init)(o); }
static spif_bool_t c_init_from_ptr(int r, obj_t o, char *p) { return r ? SPIF_STR_INIT_FROM_PTR(o, p) : F(init_from_ptr)(o, p); }
static spif_bool_t c_init_from_buff(int r, obj_t o, char *b, idx_t n) { return r ? SPIF_STR_INIT_FROM_BUFF(o, b, IDX(n)) : F(init_from_buff)(o, b, n); }
static spif_bool_t c_init_from_fp(int r, obj_t o, FILE *fp) { return r ? SPIF_STR_INIT_FROM_FP(o, fp) : F(init_from_fp)(o, fp); }
static spif_bool_t c_init_from_fd(int r, obj_t o, int fd) { return r ? SPIF_STR_INIT_FROM_FD(o, fd) : F(init_from_fd)(o, fd); }
static spif_bool_t c_init_from_num(int r, obj_t o, long n) { return r ? SPIF_STR_INIT_FROM_NUM(o, n) : F(init_from_num)(o, n); }
static spif_bool_t c_done(int r, obj_t o) { return r ? SPIF_STR_DONE(o) : F(done)(o); }
static spif_bool_t c_del(int r, obj_t o) { return r ? SPIF_STR_DEL(o) : F(del)(o); }
static obj_t c_dup(int r, obj_t o) { return r ? (obj_t) SPIF_STR_DUP(o) : F(dup)(o); }
static const char *c_type(int r, obj_t o) { return r ? (const char *) SPIF_STR_TYPE(o) : (const char *) F(type)(o); }

static spif_bool_t c_append(int r, obj_t o, obj_t x) { return r ? SPIF_STR_APPEND(o, x) : F(append)(o, x); }
static spif_bool_t c_append_char(int r, obj_t o, spif_char_t c) { return r ? SPIF_STR_APPEND_CHAR(o, c) : F(append_char)(o, c); }
static spif_bool_t c_append_from_ptr(int r, obj_t o, char *p) { return r ? SPIF_STR_APPEND_FROM_PTR(o, p) : F(append_from_ptr)(o, p); }
static spif_bool_t c_prepend(int r, obj_t o, obj_t x) { return r ? SPIF_STR_PREPEND(o, x) : F(prepend)(o, x); }
static spif_bool_t c_prepend_char(int r, obj_t o, spif_char_t c) { return r ? SPIF_STR_PREPEND_CHAR(o, c) : F(prepend_char)(o, c); }
static spif_bool_t c_prepend_from_ptr(int r, obj_t o, char *p) { return r ? SPIF_STR_PREPEND_FROM_PTR(o, p) : F(prepend_from_ptr)(o, p); }
static spif_bool_t c_splice(int r, obj_t o, idx_t i, idx_t c, obj_t x) { return r ? SPIF_STR_SPLICE(o, IDX(i), IDX(c), x) : F(splice)(o, i, c, x); }
static spif_bool_t c_splice_from_ptr(int r, obj_t o, idx_t i, idx_t c, char *p) { return r ? SPIF_STR_SPLICE_FROM_PTR(o, IDX(i), IDX(c), p) : F(splice_from_ptr)(o, i, c, p); }
static spif_bool_t c_trim(int r, obj_t o) { return r ? SPIF_STR_TRIM(o) : F(trim)(o); }
static spif_bool_t c_reverse(int r, obj_t o) { return r ? SPIF_STR_REVERSE(o) : F(reverse)(o); }
static spif_bool_t c_upcase(int r, obj_t o) { return r ? SPIF_STR_UPCASE(o) : F(upcase)(o); }
static spif_bool_t c_downcase(int r, obj_t o) { return r ? SPIF_STR_DOWNCASE(o) : F(downcase)(o); }
static spif_bool_t c_clear(int r, obj_t o, spif_char_t c) { return r ? SPIF_STR_CLEAR(o, c) : F(clear)(o, c); }

static idx_t c_index(int r, obj_t o, spif_char_t c) { return r ? SPIF_STR_INDEX(o, c) : F(index)(o, c); }
static idx_t c_rindex(int r, obj_t o, spif_char_t c) { return r ? SPIF_STR_RINDEX(o, c) : F(rindex)(o, c); }
static idx_t c_find(int r, obj_t o, obj_t x) { return r ? SPIF_STR_FIND(o, x) : F(find)(o, x); }
static idx_t c_find_from_ptr(int r, obj_t o, char *p) { return r ? SPIF_STR_FIND_FROM_PTR(o, p) : F(find_from_ptr)(o, p); }
static obj_t c_substr(int r, obj_t o, idx_t i, idx_t c) { return r ? (obj_t) SPIF_STR_SUBSTR(o, IDX(i), IDX(c)) : F(substr)(o, i, c); }
static char *c_substr_to_ptr(int r, obj_t o, idx_t i, idx_t c) { return r ? (char *) SPIF_STR_SUBSTR_TO_PTR(o, IDX(i), IDX(c)) : (char *) F(substr_to_ptr)(o, i, c); }
/* r==2 for cmp: the generic object slot `comp` */
static spif_cmp_t c_cmp(int r, obj_t o, obj_t x) { return r == 2 ? SPIF_STR_COMP(o, x) : r ? SPIF_STR_CMP(o, x) : F(cmp)(o, x); }
static spif_cmp_t c_cmp_with_ptr(int r, obj_t o, char *p) { return r ? SPIF_STR_CMP_WITH_PTR(o, p) : F(cmp_with_ptr)(o, p); }
static spif_cmp_t c_casecmp(int r, obj_t o, obj_t x) { return r ? SPIF_STR_CASECMP(o, x) : F(casecmp)(o, x); }
static spif_cmp_t c_casecmp_with_ptr(int r, obj_t o, char *p) { return r ? SPIF_STR_CASECMP_WITH_PTR(o, p) : F(casecmp_with_ptr)(o, p); }
static spif_cmp_t c_ncmp(int r, obj_t o, obj_t x, idx_t n) { return r ? SPIF_STR_NCMP(o, x, IDX(n)) : F(ncmp)(o, x, n); }
static spif_cmp_t c_ncmp_with_ptr(int r, obj_t o, char *p, idx_t n) { return r ? SPIF_STR_NCMP_WITH_PTR(o, p, IDX(n)) : F(ncmp_with_ptr)(o, p, n); }
static spif_cmp_t c_ncasecmp(int r, obj_t o, obj_t x, idx_t n) { return r ? SPIF_STR_NCASECMP(o, x, IDX(n)) : F(ncasecmp)(o, x, n); }
static spif_cmp_t c_ncasecmp_with_ptr(int r, obj_t o, char *p, idx_t n) { return r ? SPIF_STR_NCASECMP_WITH_PTR(o, p, IDX(n)) : F(ncasecmp_with_ptr)(o, p, n); }
static size_t c_to_num(int r, obj_t o, int base) { return r ? SPIF_STR_TO_NUM(o, base) : F(to_num)(o, base); }
static double c_to_float(int r, obj_t o) { return r ? ((double (*)(obj_t)) STRCLS->to_float)(o) : F(to_float)(o); }

/* sprintf with the fixed argument triple (s, d, c); the macro needs a variable called `o` */
static spif_bool_t c_sprintf(int r, obj_t o, int tmpl, char *fmt, char *s, int d, int c)
{
    switch (tmpl) {
        case 1: case 6: return r ? SPIF_STR_SPRINTF((o, fmt, s, s)) : F(sprintf)(o, fmt, s, s);
        case 2: return r ? SPIF_STR_SPRINTF((o, fmt, d)) : F(sprintf)(o, fmt, d);
        case 3: return r ? SPIF_STR_SPRINTF((o, fmt, c)) : F(sprintf)(o, fmt, c);
        case 5: return r ? SPIF_STR_SPRINTF((o, fmt, s, d, c)) : F(sprintf)(o, fmt, s, d, c);
        default: return r ? SPIF_STR_SPRINTF((o, fmt)) : F(sprintf)(o, fmt);
    }
}
#endif
