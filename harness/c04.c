/* C04: every vector implementation is the same sorted multiset.  DESIGN.md §4 C04, Appendix A.3.
 *
 * One generated history is applied in lock-step to an array, a linked_list and a dlinked_list vector object
 * and to a model (multiset of labels, read back in ascending order).  After every operation, per class: the
 * return value equals the model's; iterator, to_array and the walk of the public struct give exactly the
 * model's ascending label sequence; find/contains agree with the model for every label in play and for
 * probes below the minimum and above the maximum; the structural invariants of C02(d) hold.
 * Modes: random histories (default), `--mode exh` (all insert/remove/dup sequences of length 6 over 3 labels). */
#include "c0x_containers.h"

#define NID 66                      /* ids -1..64 -> slot id+1 */
#define MAXN 400
#define MAXPOOL 4

enum { OP_INSERT, OP_REMOVE, OP_FIND, OP_CONTAINS, OP_COUNT, OP_ITER, OP_TO_ARRAY, OP_DUP, NOPS };
static const char *const opname[NOPS] = { "insert", "remove", "find", "contains", "count", "iterate", "to_array", "dup" };

typedef struct { int cnt[NID]; int n; } mset_t;
typedef struct { spif_vector_t o[CX_NKIND]; mset_t s; int last_mut; } ent_t;

static ent_t pool[MAXPOOL + 6];
static int npool;
static int order[CX_NKIND];
static int labels[32], nlabels;     /* the labels this history inserts */
static int probes[40], nprobes;     /* labels probed in every read-back: labels in play + below-all + above-all */
static char hist[700]; static size_t histo;

static spif_vector_t new_vector(int k)
{
    switch (k) {
        case CX_ARRAY: return SPIF_VECTOR_NEW(array);
        case CX_LINKED: return SPIF_VECTOR_NEW(linked_list);
        default: return SPIF_VECTOR_NEW(dlinked_list);
    }
}

static int m_expand(const mset_t *s, int *out)
{
    int n = 0;
    for (int i = 0; i < NID; i++) for (int c = 0; c < s->cnt[i]; c++) out[n++] = i - 1;
    return n;
}
static int m_min(const mset_t *s) { for (int i = 0; i < NID; i++) if (s->cnt[i]) return i - 1; return CX_NULLID; }
static int m_max(const mset_t *s) { for (int i = NID - 1; i >= 0; i--) if (s->cnt[i]) return i - 1; return CX_NULLID; }
static int m_distinct(const mset_t *s) { int d = 0; for (int i = 0; i < NID; i++) d += s->cnt[i] > 0; return d; }
static const char *show_set(const mset_t *s)
{
    static char b[400]; static int seq[MAXN + 8]; size_t o = 0;
    int n = m_expand(s, seq);
    o += (size_t) snprintf(b + o, sizeof b - o, "{");
    for (int i = 0; i < n && o < sizeof b - 16; i++) o += (size_t) snprintf(b + o, sizeof b - o, "%s%s", i ? "," : "", cx_lab2s(seq[i]));
    snprintf(b + o, sizeof b - o, "}%s", o >= sizeof b - 16 ? ".." : "");
    return b;
}
/* class of a probe label relative to the content */
static const char *probe_class(const mset_t *s, int id, int *code)
{
    int mn = m_min(s), mx = m_max(s), c;
    const char *r;
    if (s->n == 0) { c = 0; r = "empty"; }
    else if (id < mn) { c = 1; r = "below"; }
    else if (id > mx) { c = 2; r = "above"; }
    else if (!s->cnt[id + 1]) { c = 3; r = "gap"; }
    else if (mn == mx) { c = 4; r = "only"; }
    else if (id == mn) { c = 5; r = "min"; }
    else if (id == mx) { c = 6; r = "max"; }
    else { c = 7; r = "inner"; }
    if (code) *code = c * 2 + (s->n && id >= -1 && id <= 64 && s->cnt[id + 1] > 1);
    return r;
}

/* ------------------------------------------------------------- read-back */
static void readback(const char *op, int k, spif_vector_t v, const mset_t *s)
{
    static int seq[MAXN + 8];
    int n = m_expand(s, seq);
    size_t c = SPIF_VECTOR_COUNT(v);
    CX_DG(c);
    CX_CHECK((long) c == n, op, k, "count", "count is %ld, model has %d %s", (long) c, n, show_set(s));
    cx_struct_check(op, k, SPIF_OBJ(v), seq, n, cx_id2, cx_lab2s);      /* stored order == ascending model order */
    cx_iter_check(op, k, SPIF_VECTOR_ITERATOR(v), seq, n, cx_id2, cx_lab2s);
    cx_toarray_check(op, k, SPIF_VECTOR_TO_ARRAY(v), seq, n, cx_id2, cx_lab2s);
    for (int i = 0; i < nprobes; i++) {
        int id = probes[i], present = s->cnt[id + 1] > 0;
        spif_obj_t probe = cx_new2(id), f = SPIF_VECTOR_FIND(v, probe);
        spif_bool_t has;
        CX_DG(f == NULL);
        CX_CHECK(cx_id2(f) == (present ? id : CX_NULLID) && f != probe, op, k, "find-readback", "find(%s) gives %s, expected %s; model %s",
                 cx_lab2s(id), f == probe ? "the probe itself" : cx_lab2s(cx_id2(f)), present ? cx_lab2s(id) : "NULL", show_set(s));
        has = SPIF_VECTOR_CONTAINS(v, probe);
        CX_DG(has);
        CX_CHECK(!!has == present, op, k, "contains-readback", "contains(%s) is %d, expected %d; model %s", cx_lab2s(id), (int) has, present, show_set(s));
        cx_del_str(probe);
    }
}

static void note_hist(const char *t)
{
    if (histo < sizeof hist - 40) histo += (size_t) snprintf(hist + histo, sizeof hist - histo, "%s%s", histo ? "; " : "", t);
}
static int n_bucket(int n) { return n <= 3 ? n : n <= 8 ? 4 : 5; }

static void step(int pi, int op, int id)
{
    ent_t *e = &pool[pi];
    mset_t before = e->s, after = e->s;
    char on[64], desc[96];
    int acode = 0, want_id = CX_NULLID, want_b = 1;
    const char *ac = "";

    if (op == OP_INSERT || op == OP_REMOVE || op == OP_FIND || op == OP_CONTAINS) ac = probe_class(&before, id, &acode);
    else if (op == OP_DUP) { ac = before.n == 0 ? "empty" : "plain"; acode = before.n != 0; }
    snprintf(on, sizeof on, "%s%s%s", opname[op], *ac ? "@" : "", ac);
    if (op == OP_INSERT || op == OP_REMOVE || op == OP_FIND || op == OP_CONTAINS) snprintf(desc, sizeof desc, "V%d.%s(%s)", pi, opname[op], cx_lab2s(id));
    else snprintf(desc, sizeof desc, "V%d.%s()", pi, opname[op]);
    vh_op("%s  [%s] on %s", desc, on, show_set(&before));
    note_hist(desc);
    vh_count(opname[op], 1);
    vh_cov(vh_mix(vh_mix((uint64_t) n_bucket(before.n) * 8 + (uint64_t) (m_distinct(&before) > 3 ? 3 : m_distinct(&before)), (uint64_t) op * 32 + (uint64_t) acode),
                  (uint64_t) e->last_mut + 1));
    if (e->last_mut == OP_REMOVE) vh_count("op_after_remove", 1);
    if (e->last_mut == OP_DUP) vh_count("op_after_dup", 1);

    if (op == OP_DUP) {
        ent_t *c = &pool[npool];
        memset(c, 0, sizeof *c);
        if (before.n == 0) vh_count("dup_empty", 1);
        for (int j = 0; j < CX_NKIND; j++) {
            int k = order[j];
            spif_vector_t d = SPIF_VECTOR_DUP(e->o[k]);
            CX_DG(d == NULL);
            CX_CHECK(!SPIF_VECTOR_ISNULL(d) && d != e->o[k], on, k, "result", "dup of %s returned %s", show_set(&before), d ? "the original" : "NULL");
            CX_CHECK(SPIF_OBJ_CLASS(d) == SPIF_OBJ_CLASS(e->o[k]), on, k, "class", "the copy is not of the vector class of the original");
            c->o[k] = d;
            readback(on, k, d, &before);
            readback(on, k, e->o[k], &before);
        }
        c->s = before; c->last_mut = OP_DUP; e->last_mut = OP_DUP;
        npool++;
        return;
    }

    switch (op) {
        case OP_INSERT: after.cnt[id + 1]++; after.n++; break;
        case OP_REMOVE: if (before.cnt[id + 1]) { after.cnt[id + 1]--; after.n--; want_id = id; } break;
        case OP_FIND: if (before.cnt[id + 1]) want_id = id; break;
        case OP_CONTAINS: want_b = before.cnt[id + 1] > 0; break;
        default: break;
    }
    if (op == OP_REMOVE || op == OP_FIND || op == OP_CONTAINS) {
        int cc = acode / 2;
        if (cc == 0) vh_count("probe_on_empty", 1);
        if (cc == 1) vh_count("probe_below_min", 1);
        if (cc == 2) vh_count("probe_above_max", 1);
        if (cc == 3) vh_count("probe_in_gap", 1);
        if (cc == 4) vh_count("probe_single_label", 1);
        if (before.n == 1) vh_count("probe_single_element", 1);
    }
    if (op == OP_REMOVE && want_id != CX_NULLID) {
        int cc = acode / 2;
        if (cc == 5 || cc == 4) vh_count("removed_min", 1);
        if (cc == 6 || cc == 4) vh_count("removed_max", 1);
        if (acode & 1) vh_count("removed_duplicate", 1);
        if (after.n == 0) vh_count("removed_only_element", 1);
    }
    if (op == OP_INSERT) {
        int cc = acode / 2;
        if (cc == 1) vh_count("insert_below_min", 1);
        if (cc == 2) vh_count("insert_above_max", 1);
        if (before.n && before.cnt[id + 1]) vh_count("insert_duplicate", 1);
    }

    for (int j = 0; j < CX_NKIND; j++) {
        int k = order[j], got;
        spif_vector_t v = e->o[k];
        spif_obj_t x, probe;
        spif_bool_t b;
        switch (op) {
            case OP_INSERT:
                x = cx_new2(id); b = SPIF_VECTOR_INSERT(v, x); CX_DG(b);
                CX_CHECK(b, on, k, "result", "insert(%s) into %s returned FALSE", cx_lab2s(id), show_set(&before));
                break;
            case OP_REMOVE:
                probe = cx_new2(id); x = SPIF_VECTOR_REMOVE(v, probe); got = cx_id2(x); CX_DG(got);
                CX_CHECK(got == want_id && x != probe, on, k, "result", "remove(%s) from %s returned %s, expected %s", cx_lab2s(id), show_set(&before),
                         x == probe ? "the probe itself" : cx_lab2s(got), cx_lab2s(want_id));
                cx_del_str(x); cx_del_str(probe);
                break;
            case OP_FIND:
                probe = cx_new2(id); x = SPIF_VECTOR_FIND(v, probe); got = cx_id2(x); CX_DG(got);
                CX_CHECK(got == want_id && x != probe, on, k, "result", "find(%s) in %s returned %s, expected %s", cx_lab2s(id), show_set(&before), cx_lab2s(got), cx_lab2s(want_id));
                cx_del_str(probe);
                break;
            case OP_CONTAINS:
                probe = cx_new2(id); b = SPIF_VECTOR_CONTAINS(v, probe); CX_DG(b);
                CX_CHECK(!!b == want_b, on, k, "result", "contains(%s) in %s returned %d, expected %d", cx_lab2s(id), show_set(&before), (int) b, want_b);
                cx_del_str(probe);
                break;
            case OP_COUNT:
                got = (int) SPIF_VECTOR_COUNT(v); CX_DG(got);
                CX_CHECK(got == before.n, on, k, "result", "count returned %d, expected %d", got, before.n);
                break;
            default: break;          /* iterate / to_array: the read-back is the operation */
        }
        readback(on, k, v, &after);
    }
    cx_toarray_empty_agree(on);
    vh_evals(1);                     /* classes agree: each produced the model's results */
    e->s = after;
    if (op == OP_INSERT || op == OP_REMOVE) e->last_mut = op;
}

static void pool_start(void)
{
    npool = 1;
    memset(&pool[0], 0, sizeof pool[0]);
    pool[0].last_mut = -1;
    for (int k = 0; k < CX_NKIND; k++) {
        pool[0].o[k] = new_vector(k);
        if (SPIF_VECTOR_ISNULL(pool[0].o[k])) CX_FAIL("new", k, "null", "SPIF_VECTOR_NEW returned NULL");
    }
    for (int j = 0; j < CX_NKIND; j++) order[j] = (int) ((vh_case_idx + j) % CX_NKIND);
    histo = 0; hist[0] = 0;
}
static void pool_finish(void)
{
    for (int p = 0; p < npool; p++)
        for (int j = 0; j < CX_NKIND; j++) {
            int k = order[j];
            vh_op("final read-back and del of V%d %s", p, cx_kind[k]);
            readback("final", k, pool[p].o[k], &pool[p].s);
            SPIF_VECTOR_DEL(pool[p].o[k]);
        }
}
static void set_probes(void)
{
    nprobes = 0;
    for (int i = 0; i < nlabels && nprobes < 12; i++) probes[nprobes++] = labels[i];
    probes[nprobes++] = -1;
    probes[nprobes++] = 64;
}

static int pick_present(const mset_t *s)
{
    static int seq[MAXN + 8];
    int n = m_expand(s, seq);
    return n ? seq[vh_below((uint64_t) n)] : CX_NULLID;
}

static void random_history(void)
{
    static const int NL[] = { 1, 2, 3, 5, 10, 30 };
    static const int W[NOPS] = { 30, 22, 10, 6, 2, 3, 3, 5 };
    int nl = NL[vh_below(6)], nops, r = (int) vh_below(100);
    nops = r < 25 ? (int) vh_range(1, 8) : r < 80 ? (int) vh_range(9, 35) : (int) vh_range(36, 60);
    nlabels = 0;
    while (nlabels < nl) {              /* distinct labels; the extremes AA / zz are in play in some histories */
        int c = vh_coin(6) ? (vh_coin(50) ? -1 : 64) : (int) vh_below(64), dup = 0;
        for (int i = 0; i < nlabels; i++) dup |= labels[i] == c;
        if (!dup) labels[nlabels++] = c;
    }
    set_probes();
    pool_start();
    for (int t = 0; t < nops; t++) {
        int pi = npool > 1 && vh_coin(40) ? (int) vh_below((uint64_t) npool) : npool - 1;
        const mset_t *s = &pool[pi].s;
        int tot = 0, op, id, w[NOPS];
        for (int i = 0; i < NOPS; i++) {
            w[i] = W[i];
            if (i == OP_INSERT && s->n > MAXN - 50) w[i] = 0;
            if (i == OP_DUP && npool >= MAXPOOL) w[i] = 0;
            tot += w[i];
        }
        r = (int) vh_below((uint64_t) tot);
        for (op = 0; op < NOPS - 1 && r >= w[op]; op++) r -= w[op];
        id = labels[vh_below((uint64_t) nlabels)];
        r = (int) vh_below(100);
        if (op == OP_INSERT) {
            if (r < 20 && s->n) id = pick_present(s);                                  /* a duplicate */
            else if (r < 30) id = vh_coin(50) ? -1 : 64;                               /* an extreme */
        } else if (op == OP_REMOVE || op == OP_FIND || op == OP_CONTAINS) {
            if (s->n && r < 20) id = m_min(s);
            else if (s->n && r < 40) id = m_max(s);
            else if (s->n && r < 60) id = pick_present(s);
            else if (r < 68) id = s->n && m_min(s) > -1 ? m_min(s) - 1 - (int) vh_below((uint64_t) (m_min(s) + 1)) / 2 : -1;     /* below the minimum */
            else if (r < 76) id = s->n && m_max(s) < 64 ? m_max(s) + 1 + (int) vh_below((uint64_t) (64 - m_max(s))) / 2 : 64;   /* above the maximum */
            else if (r < 84) id = (int) vh_below(64);                                  /* anything, mostly a gap */
        }
        if (id < -1) id = -1;
        if (id > 64) id = 64;
        step(pi, op, id);
    }
    pool_finish();
    if (vh_coin(3)) vh_sample("history (%d ops, %d labels): %s => %s", nops, nl, hist, show_set(&pool[0].s));
}

/* exhaustive: mutators insert(a|b|c), remove(a|b|c), dup (the history continues on the copy); length 6 */
#define EXH_A 7
#define EXH_LEN 6
static void exh_case(long ci)
{
    static const int lab[3] = { 10, 20, 30 };
    int d[EXH_LEN];
    long total = 1;
    for (int i = 2; i < EXH_LEN; i++) total *= EXH_A;
    nlabels = 3; labels[0] = lab[0]; labels[1] = lab[1]; labels[2] = lab[2];
    set_probes();
    probes[nprobes++] = 15; probes[nprobes++] = 25;        /* gaps between the labels */
    d[0] = (int) (ci / EXH_A); d[1] = (int) (ci % EXH_A);
    for (long rest = 0; rest < total; rest++) {
        long q = rest;
        for (int i = 2; i < EXH_LEN; i++) { d[i] = (int) (q % EXH_A); q /= EXH_A; }
        pool_start();
        for (int t = 0; t < EXH_LEN; t++) {
            int pi = npool - 1;
            if (d[t] < 3) step(pi, OP_INSERT, lab[d[t]]);
            else if (d[t] < 6) step(pi, OP_REMOVE, lab[d[t] - 3]);
            else step(pi, OP_DUP, 0);
        }
        pool_finish();
        vh_count("exh_sequences", 1);
    }
}

int main(int argc, char **argv)
{
    int exh = 0;
    for (int i = 1; i + 1 < argc; i++) if (!strcmp(argv[i], "--mode") && !strcmp(argv[i + 1], "exh")) exh = 1;
    vh_init(argc, argv, "C04");
    while (vh_next_case()) {
        cx_dg = 0;
        if (VH_CASE_TRY()) {
            if (exh) { if (vh_case_idx < (long) EXH_A * EXH_A) exh_case(vh_case_idx); }
            else random_history();
        }
        vh_digest(cx_dg);
        vh_case_done();
    }
    return vh_finish();
}
