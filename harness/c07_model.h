/* C07 harness, part 1: pool, byte model, generators, call routes (direct / class table).
 * Semantics: DESIGN.md Appendix A.1 and the C07 property statement -- never mbuff.c. */
#ifndef C07_MODEL_H
#define C07_MODEL_H

#define NSLOT 6
typedef struct {
    spif_mbuff_t o;   /* object under test (NULL = free slot) */
    uint8_t *m;       /* ideal byte sequence */
    long n;           /* its length */
    int live;
} slot_t;
static slot_t S[NSLOT];

static int probe_case;      /* few low case indices: regions whose baseline defects abort the process */

static uint8_t *mk(long n) { uint8_t *p = malloc(n > 0 ? (size_t) n : 1); if (!p) abort(); return p; }
static void set_model(slot_t *s, uint8_t *nm, long nn) { free(s->m); s->m = nm; s->n = nn; }

/* ---------------- class-table route ----------------
 * The SPIF_MBUFF_<METHOD>() convenience macros of mbuff.h do not compile (they go through
 * SPIF_OBJ_CALL_METHOD, i.e. spif_class_t, which has no such members, and lack the length
 * arguments), so the class-table route uses SPIF_MBUFF_CALL_METHOD, which is what they were
 * meant to expand to, plus the object-level macros that do work (NEW, DUP, DONE, DEL, COMP, INIT). */
#define CT(o, meth) SPIF_MBUFF_CALL_METHOD(o, meth)
#define AS_BOOL(x)  ((spif_bool_t) (uintptr_t) (x))
#define AS_CMP(x)   ((spif_cmp_t) (int) (uintptr_t) (x))
#define AS_IDX(x)   ((spif_memidx_t) (intptr_t) (x))
#define AS_MB(x)    ((spif_mbuff_t) (x))
#define MBC         SPIF_MBUFFCLASS_VAR(mbuff)
typedef spif_memidx_t mi_t;

static spif_mbuff_t X_new(int rt) { return rt ? SPIF_MBUFF_NEW(mbuff) : spif_mbuff_new(); }
static spif_mbuff_t X_new_from_ptr(int rt, uint8_t *p, long n) { return rt ? AS_MB(MBC->new_from_ptr(p, (mi_t) n)) : spif_mbuff_new_from_ptr(p, (mi_t) n); }
static spif_mbuff_t X_new_from_buff(int rt, uint8_t *p, long n, long sz) { return rt ? AS_MB(MBC->new_from_buff(p, (mi_t) n, (mi_t) sz)) : spif_mbuff_new_from_buff(p, (mi_t) n, (mi_t) sz); }
static spif_mbuff_t X_new_from_fp(int rt, FILE *fp) { return rt ? AS_MB(MBC->new_from_fp(fp)) : spif_mbuff_new_from_fp(fp); }
static spif_mbuff_t X_new_from_fd(int rt, int fd) { return rt ? AS_MB(MBC->new_from_fd(fd)) : spif_mbuff_new_from_fd(fd); }
static spif_bool_t X_init(int rt, spif_mbuff_t o) { return rt ? SPIF_MBUFF_INIT(o) : spif_mbuff_init(o); }
static spif_bool_t X_init_from_ptr(int rt, spif_mbuff_t o, uint8_t *p, long n) { return rt ? AS_BOOL(CT(o, init_from_ptr)(o, p, (mi_t) n)) : spif_mbuff_init_from_ptr(o, p, (mi_t) n); }
static spif_bool_t X_init_from_buff(int rt, spif_mbuff_t o, uint8_t *p, long n, long sz) { return rt ? AS_BOOL(CT(o, init_from_buff)(o, p, (mi_t) n, (mi_t) sz)) : spif_mbuff_init_from_buff(o, p, (mi_t) n, (mi_t) sz); }
static spif_bool_t X_init_from_fp(int rt, spif_mbuff_t o, FILE *fp) { return rt ? AS_BOOL(CT(o, init_from_fp)(o, fp)) : spif_mbuff_init_from_fp(o, fp); }
static spif_bool_t X_init_from_fd(int rt, spif_mbuff_t o, int fd) { return rt ? AS_BOOL(CT(o, init_from_fd)(o, fd)) : spif_mbuff_init_from_fd(o, fd); }
static spif_bool_t X_done(int rt, spif_mbuff_t o) { return rt ? SPIF_MBUFF_DONE(o) : spif_mbuff_done(o); }
static spif_bool_t X_del(int rt, spif_mbuff_t o) { return rt ? SPIF_MBUFF_DEL(o) : spif_mbuff_del(o); }
static spif_mbuff_t X_dup(int rt, spif_mbuff_t o) { return rt ? AS_MB(SPIF_MBUFF_DUP(o)) : spif_mbuff_dup(o); }
static spif_bool_t X_append(int rt, spif_mbuff_t a, spif_mbuff_t b) { return rt ? AS_BOOL(CT(a, append)(a, b)) : spif_mbuff_append(a, b); }
static spif_bool_t X_append_from_ptr(int rt, spif_mbuff_t a, uint8_t *p, long n) { return rt ? AS_BOOL(CT(a, append_from_ptr)(a, p, (mi_t) n)) : spif_mbuff_append_from_ptr(a, p, (mi_t) n); }
static spif_bool_t X_prepend(int rt, spif_mbuff_t a, spif_mbuff_t b) { return rt ? AS_BOOL(CT(a, prepend)(a, b)) : spif_mbuff_prepend(a, b); }
static spif_bool_t X_prepend_from_ptr(int rt, spif_mbuff_t a, uint8_t *p, long n) { return rt ? AS_BOOL(CT(a, prepend_from_ptr)(a, p, (mi_t) n)) : spif_mbuff_prepend_from_ptr(a, p, (mi_t) n); }
static spif_bool_t X_splice(int rt, spif_mbuff_t a, long i, long c, spif_mbuff_t b) { return rt ? AS_BOOL(CT(a, splice)(a, (mi_t) i, (mi_t) c, b)) : spif_mbuff_splice(a, (mi_t) i, (mi_t) c, b); }
static spif_bool_t X_splice_from_ptr(int rt, spif_mbuff_t a, long i, long c, uint8_t *p, long n) { return rt ? AS_BOOL(CT(a, splice_from_ptr)(a, (mi_t) i, (mi_t) c, p, (mi_t) n)) : spif_mbuff_splice_from_ptr(a, (mi_t) i, (mi_t) c, p, (mi_t) n); }
static spif_bool_t X_trim(int rt, spif_mbuff_t a) { return rt ? AS_BOOL(CT(a, trim)(a)) : spif_mbuff_trim(a); }
static spif_bool_t X_reverse(int rt, spif_mbuff_t a) { return rt ? AS_BOOL(CT(a, reverse)(a)) : spif_mbuff_reverse(a); }
static spif_bool_t X_clear(int rt, spif_mbuff_t a, int c) { return rt ? AS_BOOL(CT(a, clear)(a, c)) : spif_mbuff_clear(a, (spif_uint8_t) c); }
static mi_t X_index(int rt, spif_mbuff_t a, int c) { return rt ? AS_IDX(CT(a, index)(a, c)) : spif_mbuff_index(a, (spif_uint8_t) c); }
static mi_t X_rindex(int rt, spif_mbuff_t a, int c) { return rt ? AS_IDX(CT(a, rindex)(a, c)) : spif_mbuff_rindex(a, (spif_uint8_t) c); }
static mi_t X_find(int rt, spif_mbuff_t a, spif_mbuff_t b) { return rt ? AS_IDX(CT(a, find)(a, b)) : spif_mbuff_find(a, b); }
static mi_t X_find_from_ptr(int rt, spif_mbuff_t a, uint8_t *p, long n) { return rt ? AS_IDX(CT(a, find_from_ptr)(a, p, (mi_t) n)) : spif_mbuff_find_from_ptr(a, p, (mi_t) n); }
static spif_cmp_t X_cmp(int rt, spif_mbuff_t a, spif_mbuff_t b) { return rt == 1 ? AS_CMP(CT(a, cmp)(a, b)) : rt == 2 ? SPIF_MBUFF_COMP(a, b) : rt == 3 ? spif_mbuff_comp(a, b) : spif_mbuff_cmp(a, b); }
static spif_cmp_t X_cmp_with_ptr(int rt, spif_mbuff_t a, uint8_t *p, long n) { return rt ? AS_CMP(CT(a, cmp_with_ptr)(a, p, (mi_t) n)) : spif_mbuff_cmp_with_ptr(a, p, (mi_t) n); }
static spif_cmp_t X_ncmp(int rt, spif_mbuff_t a, spif_mbuff_t b, long c) { return rt ? AS_CMP(CT(a, ncmp)(a, b, (mi_t) c)) : spif_mbuff_ncmp(a, b, (mi_t) c); }
static spif_cmp_t X_ncmp_with_ptr(int rt, spif_mbuff_t a, uint8_t *p, long c) { return rt ? AS_CMP(CT(a, ncmp_with_ptr)(a, p, (mi_t) c)) : spif_mbuff_ncmp_with_ptr(a, p, (mi_t) c); }
static spif_mbuff_t X_subbuff(int rt, spif_mbuff_t a, long i, long c) { return rt ? AS_MB(CT(a, subbuff)(a, (mi_t) i, (mi_t) c)) : spif_mbuff_subbuff(a, (mi_t) i, (mi_t) c); }
static uint8_t *X_subbuff_to_ptr(int rt, spif_mbuff_t a, long i, long c) { return rt ? (uint8_t *) (CT(a, subbuff_to_ptr)(a, (mi_t) i, (mi_t) c)) : spif_mbuff_subbuff_to_ptr(a, (mi_t) i, (mi_t) c); }

/* ---------------- ideal sequence ---------------- */
static long m_index(const uint8_t *m, long n, int c) { for (long i = 0; i < n; i++) if (m[i] == c) return i; return n; }
static long m_rindex(const uint8_t *m, long n, int c) { for (long i = n - 1; i >= 0; i--) if (m[i] == c) return i; return n; }
static long m_find(const uint8_t *m, long n, const uint8_t *k, long kn)
{
    if (kn == 0) return 0;
    for (long i = 0; i + kn <= n; i++) if (m[i] == k[0] && !memcmp(m + i, k, (size_t) kn)) return i;
    return n;
}
static int sgn(long x) { return x < 0 ? -1 : x > 0; }
/* lexicographic order including length */
static int m_cmp(const uint8_t *a, long na, const uint8_t *b, long nb)
{
    long k = na < nb ? na : nb;
    for (long i = 0; i < k; i++) if (a[i] != b[i]) return a[i] < b[i] ? -1 : 1;
    return sgn(na - nb);
}
/* ncmp: 2 = weak region (one truncated operand is a strict prefix of the other) */
static int m_ncmp(const uint8_t *a, long na, const uint8_t *b, long nb, long cnt)
{
    long ta = na < cnt ? na : cnt, tb = nb < cnt ? nb : cnt, k = ta < tb ? ta : tb;
    for (long i = 0; i < k; i++) if (a[i] != b[i]) return a[i] < b[i] ? -1 : 1;
    return ta == tb ? 0 : 2;
}
static int m_isspace(int c) { return c == ' ' || (c >= 9 && c <= 13); }
/* subbuff(i,c): returns item count or -1 when refused; *start = first item */
static long m_sub(long n, long i, long c, long *start)
{
    if (i < 0) i += n;
    if (i < 0 || i >= n) return -1;
    long k = c > 0 ? (c < n - i ? c : n - i) : n - i + c;
    if (k < 0) return -1;
    *start = i;
    return k;
}

/* ---------------- generators ---------------- */
static long pick_len(void)
{
    int r = (int) vh_below(100);
    if (r < 10) return 0;
    if (r < 22) return 1;
    if (r < 70) return vh_range(2, 24);
    if (r < 86) return vh_range(25, 300);
    if (r < 90) return vh_range(4094, 4098);
    if (r < 92) return 8192;
    if (r < 95) return 3 * 4096 + vh_range(-2, 5);
    return vh_range(301, 16384);
}
static const long FILE_LENS[] = { 0, 1, 4095, 4096, 4097, 8192, 3 * 4096 - 1, 3 * 4096, 3 * 4096 + 1, 3 * 4096 + 7, 2, 17, 300, 4094, 8191, 8193, 16384 };
#define NFILE_LENS ((int) (sizeof FILE_LENS / sizeof FILE_LENS[0]))

static int fill_classes_seen;
static void fill(uint8_t *p, long n)
{
    static const uint8_t alpha[] = { 0x00, 'a', 'b', ' ', 0xff, '\n' };
    int cls = (int) vh_below(8);
    long lead, trail;
    int ex = (int) vh_below(256), one = (int) vh_below(256);
    switch (cls) {
    case 0: for (long i = 0; i < n; i++) p[i] = (uint8_t) vh_next(); break;                       /* all 256 values */
    case 1: for (long i = 0; i < n; i++) p[i] = alpha[vh_below(sizeof alpha)]; break;              /* few values, NULs */
    case 2:                                                                                     /* blank-padded */
        lead = vh_range(0, n / 2 + 1); trail = vh_range(0, n / 2 + 1);
        for (long i = 0; i < n; i++)
            p[i] = (i < lead || i >= n - trail) ? (uint8_t) " \t\n\v\f\r"[vh_below(6)] : (uint8_t) "ab\0c\x80"[vh_below(5)];
        break;
    case 3: for (long i = 0; i < n; i++) p[i] = (uint8_t) " \t\n\v\f\r"[vh_below(6)]; break;           /* all blank */
    case 4: memset(p, 0, (size_t) n); break;                                                     /* all NUL */
    case 5: for (long i = 0; i < n; i++) p[i] = (uint8_t) ('a' + vh_below(5)); break;
    case 6: for (long i = 0; i < n; i++) { int c = (int) vh_below(256); p[i] = (uint8_t) (c == ex ? (c + 1) & 255 : c); } break;
    default: memset(p, one, (size_t) n); break;
    }
    fill_classes_seen |= 1 << cls;
}
/* exact-size heap block with fresh content (over-reads of an input are sanitizer reports) */
static uint8_t *gen_bytes(long n) { uint8_t *p = mk(n); fill(p, n); return p; }

static long pick_idx(long n)
{
    switch (vh_below(13)) {
    case 0: return 0;
    case 1: return 1;
    case 2: return -1;
    case 3: return n - 1;
    case 4: return n;
    case 5: return n + 1;
    case 6: return -n;
    case 7: return -n - 1;
    case 8: return n / 2;
    case 9: return -(n / 2);
    case 10: return -n + 1;
    default: return vh_range(-n - 2, n + 2);
    }
}
static long pick_cnt(long n, long i)
{
    long rest = n - (i < 0 ? i + n : i);
    switch (vh_below(13)) {
    case 0: return 0;
    case 1: return 1;
    case 2: return rest;
    case 3: return rest + 1;
    case 4: return rest - 1;
    case 5: return n;
    case 6: return n + 1;
    case 7: return -1;
    case 8: return -rest;
    case 9: return -rest - 1;
    case 10: return -rest + 1;
    default: return vh_range(-n - 2, n + 2);
    }
}

/* classes for the coverage hash */
static int len_class(long n)
{
    if (n <= 0) return 0;
    if (n == 1) return 1;
    if (n < 16) return 2;
    if (n < 4095) return 3;
    if (n == 4095) return 4;
    if (n == 4096) return 5;
    if (n == 4097) return 6;
    if (n < 8192) return 7;
    if (n == 8192) return 8;
    return 9;
}
static int pos_class(long n, long i)      /* position of i relative to [-n-1 .. n+1] */
{
    if (i < -n) return 0;
    if (i == -n) return 1;
    if (i < -1) return 2;
    if (i == -1) return 3;
    if (i == 0) return 4;
    if (i == 1) return 5;
    if (i < n - 1) return 6;
    if (i == n - 1) return 7;
    if (i == n) return 8;
    return 9;
}
static int state_class(slot_t *s)
{
    spif_mbuff_t o = s->o;
    int rep = o->buff == NULL ? 0 : o->size == o->len ? 1 : 2;
    return len_class(s->n) * 3 + rep;
}
static void cov3(int a, int b, long c) { vh_cov(vh_mix(vh_mix((uint64_t) a, (uint64_t) b), (uint64_t) c)); }

#endif
