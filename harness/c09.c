/* C09: the config parser delivers every line once, in order, to the innermost open context,
 * threads handler state, and leaves its stacks balanced.  DESIGN.md §4 C09, Appendix A.5.
 *
 * One case = a set of registered contexts (optionally replacing the built-in "null" handler) +
 * a generated tree of config files (main + %include'd files) written to the scratch directory.
 * All handlers are logging handlers that return a fresh unique token as their state.
 * Oracle: the A.5 line-grammar model (c0x_conf.h) produces the expected event list; the checker
 * compares events and state threading, then the file stack / descriptor census / context depth /
 * table capacities through the guarded accessor.
 */
#include "c0x_conf.h"

static const char *NAMES[] = { "alpha", "beta", "gamma", "delta", "eps", "zeta", "eta", "theta", "iota", "kappa", "lambda", "mu" };

/* ---------------------------------------------------------------- case configuration (generator: cx_gen_* in c0x_conf.h) */
static cx_ctxs ctxs;
static int null_replaced, n_reg, expansion_case;
static cx_model xmodel;

/* ---------------------------------------------------------------- main */
static int depth_class_of(int d) { return d <= 3 ? 0 : d <= 11 ? 1 : d <= 21 ? 2 : d <= 41 ? 3 : d <= 81 ? 4 : d <= 161 ? 5 : 6; }
static int bucket(int d) { return d == 0 ? 0 : d == 1 ? 1 : d < 10 ? 2 : d < 20 ? 3 : d < 40 ? 4 : d < 80 ? 5 : d < 160 ? 6 : 7; }

static int subsys_live;

int main(int argc, char **argv)
{
    vh_init(argc, argv, "C09");
    cx_scratch_init();
    cx_env_on = 1;
    cx_fd_snapshot();
    int thorough = !strcmp(vh_tier, "thorough");

    while (vh_next_case()) {
        if (VH_CASE_TRY()) {
            cx_scratch_clean();
            cx_files_reset();
            cx_log_reset();
            cx_spawns = 0; cx_fgets_calls = 0; cx_fgets_budget = 0;
            cx_env_clear();
            cx_env_set("HOME", "/home/user"); cx_env_set("A", "valueA"); cx_env_set("FOO", "foo bar"); cx_env_set("TMPDIR", "."); cx_env_set("INCP", "inc");
            cx_model_begin_expansion(&xmodel); cx_model_reset_store(&xmodel); memset(&xmodel, 0, sizeof xmodel);

            /* ---- classes */
            static const int DLO[] = { 0, 9, 19, 39, 79, 159, 250 }, DHI[] = { 3, 11, 21, 41, 81, 161, 255 };
            int sel = (int) (vh_case_idx % 10);
            int dc = sel < 4 ? 0 : sel - 3;
            int target_depth = (int) vh_range(DLO[dc], DHI[dc]);
            if (thorough && (vh_case_idx / 10) % 4 == 0) target_depth = (int) ((vh_case_idx / 40) % 256);      /* every depth 0..255 */
            /* include chains: none (64%), around the first two doublings of the file stack (9-11, 19-21), short, and -- the statement counts
             * file nesting up to the 8-bit index too -- around the later doublings (39-41, 79-81, 159-161) and close to the index limit */
            int chain_class = (int) vh_below(100);
            int chain_left = chain_class < 64 ? 0 : chain_class < 74 ? (int) vh_range(9, 11) : chain_class < 84 ? (int) vh_range(19, 21) : chain_class < 92 ? (int) vh_range(1, 4)
                           : chain_class < 94 ? (int) vh_range(39, 41) : chain_class < 96 ? (int) vh_range(79, 81) : chain_class < 98 ? (int) vh_range(159, 162) : vh_coin(50) ? (int) vh_range(240, 250) : (int) vh_range(251, 257);
            /* a chain that reaches the file index limit has its last %include refused; the generator's running depth counts that file's begin/end
             * lines all the same, so keep such trees away from the 255 context levels by more than one file's worth of lines */
            if (chain_left > 250 && target_depth > 200) target_depth = 200;
            int files_left = chain_left ? (int) vh_below(2) : (int) vh_below(4);
            expansion_case = vh_coin(10);
            null_replaced = vh_coin(50);
            int balanced = !vh_coin(15);
            int many_ctx = vh_coin(12);
            n_reg = many_ctx ? (int) vh_range(18, 90) : (int) vh_range(0, 12);
            /* a full table: every id the 8-bit context id can name (254 besides null), and a few registrations more, which are refused */
            int full_table = many_ctx && vh_coin(12), refused_extra = 0;
            if (full_table) { n_reg = 254; refused_extra = (int) vh_range(1, 3); }

            /* ---- subsystem + registrations */
            spifconf_init_subsystem(); subsys_live = 1;
            cx_ctxs_init(&ctxs);
            /* the handler of the null context may be replaced at any point of the registration sequence: before, between or after the others */
            int null_at = null_replaced ? (vh_coin(50) ? 0 : (int) vh_range(0, n_reg)) : -1;
            for (int i = 0; i <= n_reg; i++) {
                char nm[24];
                if (i == null_at) {
                    vh_op("register null (replaces the built-in handler) after %d other contexts", i);
                    static const char *NULLNAMES[] = { "null", "null", "NULL", "Null", "nULl" };          /* context names are matched without regard to case */
                    unsigned char id = spifconf_register_context((spif_charptr_t) NULLNAMES[vh_below(5)], cx_handlers[0]);
                    int want = cx_ctxs_register(&ctxs, "null", 0);
                    VH_CHECK(id == want, "register:id", "registering \"null\" after %d other contexts returned id %u, expected %d", i, id, want);
                    if (i > 0) vh_count("null_replaced_after_other_contexts", 1);
                }
                if (i == n_reg) break;
                if (many_ctx) snprintf(nm, sizeof nm, "c%d", i); else snprintf(nm, sizeof nm, "%s", NAMES[i]);
                int want = cx_ctxs_register(&ctxs, nm, ctxs.n);          /* handler number == id */
                unsigned char id = spifconf_register_context((spif_charptr_t) nm, cx_handlers[want]);
                VH_CHECK(id == want, "register:id", "registering context #%d %s returned id %u, expected %d", i, nm, id, want);
            }
            for (int x = 0; x < refused_extra; x++) {
                char nm[24]; snprintf(nm, sizeof nm, "over%d", x);
                vh_op("register %s with the table full (254 contexts): must be refused without any effect", nm);
                unsigned char id = spifconf_register_context((spif_charptr_t) nm, cx_handlers[1]);
                VH_CHECK(id == (unsigned char) -1, "register:id", "registering %s with all 254 ids taken returned id %u, expected the refusal value 255", nm, id);
                vh_count("registrations_refused_with_a_full_table", 1);
            }
            if (expansion_case) cx_register_customs(0);
            vh_op("registered %d contexts%s; target depth %d, include chain %d, loose includes %d, %s%s", n_reg, null_replaced ? " + null" : "", target_depth,
                  chain_left, files_left, balanced ? "balanced" : "unbalanced", expansion_case ? ", expansion constructs" : "");
            {
                struct spifconf_verif_state st; const char *p = cx_tables_ok(&st);
                if (p) vh_fail("tables", "after registration: %s", p);
                VH_CHECK((int) st.ctx_idx == ctxs.n - 1, "register:count", "hook ctx_idx %u after registering, model has %d ids", st.ctx_idx, ctxs.n);
            }

            /* ---- the tree */
            cx_g.ctxs = &ctxs; cx_g.n_reg = n_reg; cx_g.expansion = expansion_case;
            cx_g.target_depth = target_depth; cx_g.files_left = files_left; cx_g.chain_left = chain_left;
            cx_g.cycles = vh_coin(30); cx_g.overlong_left = 3; cx_g.inc_through_env = 1;
            cx_file *mainf = cx_gen_tree("main.cfg", balanced, 1);
            cx_g.cycles = 0;
            int max_level = cx_g.max_level;
            cx_files_write_all();

            /* ---- model */
            cx_lmodel lm;
            cx_lm_init(&lm, &ctxs, expansion_case ? &xmodel : NULL, NULL, 0);
            cx_model_file(&lm, mainf, 1);
            if (lm.weak) vh_fail("harness:generator", "generated tree left the well-formed population: %s", lm.weak_why);
            if (cx_ev_overflow) vh_fail("harness:overflow", "event log overflow in the model");

            /* ---- run */
            int fds_before = cx_fd_count();
            vh_op("spifconf_parse(main.cfg): %d files, %ld lines, %d expected events, max depth %ld, max file depth %ld", cx_nfiles, lm.lines, cx_nexp, lm.max_depth, lm.max_fdepth);
            for (int i = 0; i < cx_nfiles && i < 3; i++) vh_op("  file %s starts: %s", cx_files[i].name, vh_q(cx_files[i].data.b, (long) (cx_files[i].data.n > 120 ? 120 : cx_files[i].data.n)));
            spif_charptr_t ret = spifconf_parse((spif_charptr_t) "main.cfg", NULL, NULL);
            vh_evals(1);

            /* ---- oracles */
            VH_CHECK(ret != NULL, "parse:return", "spifconf_parse returned NULL for an existing well-formed file");
            free(ret);
            if (cx_ev_overflow) vh_fail("harness:overflow", "event log overflow");
            if (cx_handler_problem) vh_fail("tables:in-handler", "observed from inside a handler: %s", cx_handler_problem);
            cx_slots sl; cx_slots_init(&sl);
            const char *key = NULL; long nstate = 0;
            const char *d = cx_compare_events(&ctxs, &sl, &key, &nstate);
            if (d) vh_fail(key, "%s", d);
            vh_evals(cx_nexp + nstate);
            vh_count("events_checked", cx_nexp); vh_count("state_checks", nstate);
            {
                struct spifconf_verif_state st; const char *p = cx_tables_ok(&st);
                if (p) vh_fail("tables", "after parse: %s", p);
                VH_CHECK(fstate_idx == 0, "parse:file-stack", "fstate_idx is %u after spifconf_parse returned (entry value 0)", fstate_idx);
                int fds_after = cx_fd_count();
                VH_CHECK(fds_after == fds_before, "parse:files-open", "%d descriptors open after the parse, %d before", fds_after, fds_before);
                /* balanced as delivered: what an include refused at the file index limit would have opened or closed does not count */
                if (balanced && lm.depth == 0) VH_CHECK(st.ctx_state_idx == 0, "parse:context-stack", "context stack depth %u after a balanced input (entry value 0)", st.ctx_state_idx);
                else vh_count("unbalanced_cases", 1);
                if (st.ctx_state_cnt >= 40) vh_count("ctx_stack_grew_to_40", 1);
                if (st.ctx_state_cnt >= 80) vh_count("ctx_stack_grew_to_80", 1);
                if (st.ctx_state_cnt >= 160) vh_count("ctx_stack_grew_to_160", 1);
                if (st.ctx_state_cnt >= 320) vh_count("ctx_stack_grew_to_320", 1);
                if (st.fstate_cnt >= 20) vh_count("file_stack_grew_to_20", 1);
                if (st.fstate_cnt >= 40) vh_count("file_stack_grew_to_40", 1);
                if (st.ctx_cnt >= 40) vh_count("ctx_table_grew_to_40", 1);
                if (st.ctx_cnt >= 80) vh_count("ctx_table_grew_to_80", 1);
            }
            VH_CHECK(cx_spawns == 0, "spawn", "%ld spawn attempts while parsing text without backquote/%%exec/%%preproc: %s", cx_spawns, cx_last_cmd);
            vh_evals(4);

            /* ---- coverage */
            vh_count(dc == 0 ? "depth_0_3" : dc == 1 ? "depth_9_11" : dc == 2 ? "depth_19_21" : dc == 3 ? "depth_39_41" : dc == 4 ? "depth_79_81" : dc == 5 ? "depth_159_161" : "depth_250_255", 1);
            if (lm.max_depth >= 250) vh_count("reached_depth_250_plus", 1);
            vh_cov(vh_mix(0xDEE9, (uint64_t) lm.max_depth));             /* checks/c09.py looks these up: which maximum depths were reached */
            if (max_level >= 9) vh_count("include_chain_9_plus", 1);
            if (max_level >= 19) vh_count("include_chain_19_plus", 1);
            if (max_level >= 79) vh_count("include_chain_79_plus", 1);
            if (max_level >= 159) vh_count("include_chain_159_plus", 1);
            if (max_level >= 240) vh_count("include_chain_240_plus", 1);
            vh_count("unknown_begins", lm.unknown_begins); vh_count("surplus_ends", lm.surplus_ends); vh_count("includes", lm.includes);
            vh_count("texts", lm.texts); vh_count("begins", lm.begins); vh_count("ends", lm.ends); vh_count("lines", lm.lines);
            if (null_replaced) vh_count("null_replaced_cases", 1); else vh_count("builtin_null_cases", 1);
            if (expansion_case) vh_count("expansion_cases", 1);
            vh_cov(vh_mix(0xC09, (uint64_t) depth_class_of((int) lm.max_depth) * 1000 + (uint64_t) (max_level > 18 ? 3 : max_level > 8 ? 2 : max_level > 0 ? 1 : 0) * 100 +
                          (uint64_t) null_replaced * 10 + (uint64_t) balanced * 2 + (uint64_t) expansion_case));
            {
                /* per-event classes: (kind, depth bucket, context class) */
                int dep = 0;
                for (int i = 0; i < cx_nexp; i++) {
                    cx_ev *x = &cx_exp[i];
                    int cls = x->ctx == 0 ? 0 : 1;
                    if (x->kind == 'B') dep++;
                    vh_cov(vh_mix(0xE0, (uint64_t) x->kind * 100 + (uint64_t) bucket(dep) * 4 + (uint64_t) cls * 2 + (uint64_t) null_replaced));
                    if (x->kind == 'E' && dep > 0) dep--;
                }
            }
            if (vh_case_idx % 10 == 1) vh_sample("%d files, %ld lines -> %d events (max depth %ld, include depth %d, %ld unknown begins, %ld surplus ends), e.g. %s", cx_nfiles, lm.lines, cx_nexp,
                                                 lm.max_depth, max_level, lm.unknown_begins, lm.surplus_ends, vh_q(mainf->data.b, (long) (mainf->data.n > 100 ? 100 : mainf->data.n)));
            /* second parse in the same cycle: state threading continues from slot 0 (weakly: its carried-over value is not asserted) */
            if (balanced && lm.depth == 0 && vh_coin(25)) {           /* (balanced as delivered, see above) */
                cx_log_reset(); cx_files_reset();
                cx_g.target_depth = (int) vh_below(4); cx_g.files_left = 1; cx_g.chain_left = 0;
                cx_file *m2 = cx_gen_tree("second.cfg", 1, 50);
                cx_files_write_all();
                cx_lm_init(&lm, &ctxs, expansion_case ? &xmodel : NULL, NULL, 0);
                cx_model_file(&lm, m2, 1);
                if (lm.weak) vh_fail("harness:generator", "second tree left the well-formed population: %s", lm.weak_why);
                vh_op("second spifconf_parse(second.cfg) in the same cycle: %d expected events", cx_nexp);
                ret = spifconf_parse((spif_charptr_t) "second.cfg", NULL, NULL);
                VH_CHECK(ret != NULL, "parse:return", "second spifconf_parse returned NULL");
                free(ret);
                sl.state[0] = CX_OPAQUE;
                d = cx_compare_events(&ctxs, &sl, &key, &nstate);
                if (d) vh_fail(key, "second parse: %s", d);
                VH_CHECK(fstate_idx == 0, "parse:file-stack", "fstate_idx is %u after the second parse", fstate_idx);
                VH_CHECK(cx_fd_count() == fds_before, "parse:files-open", "descriptors left open by the second parse");
                vh_count("second_parses", 1); vh_evals(cx_nexp + 2);
            }

            subsys_live = 0;
            spifconf_free_subsystem();
        } else {
            /* abandoned case */
            cx_fd_restore();
            fstate_idx = 0;
            if (subsys_live) { subsys_live = 0; spifconf_free_subsystem(); }     /* so that its variable list cannot leak into the next case */
        }
        vh_case_done();
    }
    cx_scratch_fini();
    return vh_finish();
}
