#!/usr/bin/env python3
"""tools/benign_keep.py <benign-dir> <PROP> [PROP...]: apply a behaviour-preserving change to a scratch copy of /repo, confirm the
119 stable tests still pass, run the quick checks with LIBAST_SRC on the changed copy (every one must exit 0) and store the
change with the results under /verif/benign/<name>/."""
import sys, os, json, subprocess, shutil, tempfile
ROOT = os.path.dirname(os.path.dirname(os.path.abspath(__file__)))
src = os.path.abspath(sys.argv[1]); props = sys.argv[2:]
W = tempfile.mkdtemp(prefix='benigneval.', dir='/tmp')
subprocess.run(['rsync', '-a', '--exclude', '.git', '--exclude', 'seeds', '--exclude', 'benign', '/repo/', W + '/tree/'], check=True)
ok = subprocess.run('cd %s/tree && patch -p1 -s --no-backup-if-mismatch < %s/patch.diff' % (W, src), shell=True).returncode == 0
tests = False
res = {}
if ok:
    tests = subprocess.run([os.path.join(ROOT, 'tools', 'baseline.sh'), W + '/tree'], stdout=subprocess.PIPE).returncode == 0
    for p in props:
        env = dict(os.environ, LIBAST_SRC=W + '/tree', VERIF_BUILD=W + '/build', VERIF_EVIDENCE=W + '/evidence')
        r = subprocess.run([os.path.join(ROOT, 'bin', 'check'), p, '--tier', 'quick'], stdout=subprocess.PIPE, stderr=subprocess.DEVNULL, text=True, env=env, timeout=3600)
        first = ''
        for l in r.stdout.splitlines():
            if 'key=' in l or l.startswith('INCONCLUSIVE'):
                first = l.strip()[:300]; break
        detail = ''
        if r.returncode != 0:
            detail = '\n'.join(r.stdout.splitlines()[:14])[:3000]
        res[p] = {'exit': r.returncode, 'first': first, 'detail': detail}
name = os.path.basename(src)
print(json.dumps({'name': name, 'applied': ok, 'tests_still_pass': tests, 'checks': {p: (v['exit'], v['first']) for p, v in res.items()}}))
for p, v in res.items():
    if v['exit'] != 0:
        print('---- %s on %s:\n%s' % (p, name, v['detail']))
if ok and tests:
    dst = os.path.join(ROOT, 'benign', name)
    os.makedirs(dst, exist_ok=True)
    shutil.copy(os.path.join(src, 'patch.diff'), dst)
    meta = {}
    try: meta = json.load(open(os.path.join(src, 'meta.json')))
    except Exception: pass
    meta['checks_run_on_changed_tree'] = {p: {'exit': v['exit'], 'first': v['first']} for p, v in res.items()}
    meta['all_silent'] = all(v['exit'] == 0 for v in res.values())
    meta['repo_head'] = subprocess.run(['git', '-C', '/repo', 'rev-parse', '--short', 'HEAD'], stdout=subprocess.PIPE, text=True).stdout.strip()
    json.dump(meta, open(os.path.join(dst, 'meta.json'), 'w'), indent=1)
shutil.rmtree(W, ignore_errors=True)
