/* C14: URL objects decompose and recompose every well-formed URL exactly.  DESIGN.md §4 C14.
 *
 * Case kinds (by case index):
 *   idx % 3 != 2  component tuple: a URL text is assembled from a tuple of optional components over
 *                 alphabets that keep the documented shape  [proto:][//][user[:passwd]@]host[:port][/path][?query]
 *                 (and bare paths) unambiguous for a left-to-right reader; it is parsed under each of the five
 *                 forced lookup outcomes; accessors, canonical text after unparse and the re-parse are compared
 *                 with the tuple.
 *   idx % 3 == 2  arbitrary byte string (<= 200 bytes): safety only (sanitizers, object sanity).
 *
 * getprotobyname/getservbyname are interposed at link time (-Wl,--wrap): libast never sees the host's
 * /etc/protocols and /etc/services, the harness decides what every lookup answers.
 */
#define _GNU_SOURCE
#include <config.h>
#include <libast.h>
#include <netdb.h>
#include <arpa/inet.h>
#include <ctype.h>
#include "vh.h"

/* ------------------------------------------------------------------ forced lookup outcomes */
enum { OUT_PROTO = 0, OUT_TCP, OUT_UDP, OUT_NEITHER, OUT_SERV_NOPROTO, NOUT };
static const char *OUTNAME[NOUT] = { "protocol-found", "tcp-service", "udp-service", "neither", "service-without-protocol" };

static int lk_outcome;
static int lk_port;                     /* host byte order */
static int lk_calls_proto, lk_calls_serv, lk_total;
static char lk_log[256];
static size_t lk_logn;

static char se_name[64], se_proto[8];
static char *no_aliases[1] = { NULL };
static struct servent fake_se;
static struct protoent fake_pe;
static char pe_name[64];

static void lk_reset(int outcome, int port)
{
    lk_outcome = outcome; lk_port = port; lk_calls_proto = lk_calls_serv = 0; lk_logn = 0; lk_log[0] = 0;
}
static void lk_note(const char *fmt, const char *a, const char *b, const char *res)
{
    if (lk_logn < sizeof lk_log - 60)
        lk_logn += (size_t) snprintf(lk_log + lk_logn, sizeof lk_log - lk_logn, fmt, a ? a : "(null)", b ? b : "(null)", res);
    lk_total++;
}

struct protoent *__wrap_getprotobyname(const char *name)
{
    struct protoent *r = NULL;
    lk_calls_proto++;
    if (name == se_proto) {
        /* second-stage lookup of the protocol a found service runs over */
        if (lk_outcome == OUT_TCP || lk_outcome == OUT_UDP) r = &fake_pe;
    } else if (lk_outcome == OUT_PROTO) {
        r = &fake_pe;
    }
    if (r) {
        snprintf(pe_name, sizeof pe_name, "%.60s", name ? name : "");
        fake_pe.p_name = pe_name; fake_pe.p_aliases = no_aliases;
        fake_pe.p_proto = !strcmp(pe_name, "udp") ? 17 : 6;
    }
    lk_note("P(%.20s%.0s)=%s ", name, "", r ? "hit" : "miss");
    return r;
}

struct servent *__wrap_getservbyname(const char *name, const char *proto)
{
    struct servent *r = NULL;
    int want_tcp = proto && !strcmp(proto, "tcp"), want_udp = proto && !strcmp(proto, "udp");
    lk_calls_serv++;
    if ((lk_outcome == OUT_TCP && (want_tcp || !proto)) || (lk_outcome == OUT_UDP && (want_udp || !proto))
        || (lk_outcome == OUT_SERV_NOPROTO && (want_tcp || !proto))) {
        snprintf(se_name, sizeof se_name, "%.60s", name ? name : "");
        snprintf(se_proto, sizeof se_proto, "%s", lk_outcome == OUT_UDP ? "udp" : "tcp");
        fake_se.s_name = se_name; fake_se.s_aliases = no_aliases; fake_se.s_proto = se_proto;
        fake_se.s_port = htons((uint16_t) lk_port);
        r = &fake_se;
    }
    lk_note("S(%.20s,%.4s)=%s ", name, proto, r ? "hit" : "miss");
    return r;
}

/* ------------------------------------------------------------------ component tuples */
enum { F_PROTO, F_USER, F_PASSWD, F_HOST, F_PORT, F_PATH, F_QUERY, NF };
static const char *FNAME[NF] = { "proto", "user", "passwd", "host", "port", "path", "query" };
typedef struct { char *f[NF]; } comps_t;          /* NULL = absent */

static const char ALNUM[] = "abcdefghijklmnopqrstuvwxyzABCDEFGHIJKLMNOPQRSTUVWXYZ0123456789";
static const char *SERVICE_WORDS[] = { "http", "ftp", "ssh", "telnet", "smtp", "domain", "ntp", "https", "imap2", "tftp" };
static const char *PROTOCOL_WORDS[] = { "tcp", "udp", "icmp", "ip", "ipv6", "sctp", "gre", "esp" };

static char *gen_from(const char *alpha, int lo, int hi)
{
    int n = (int) vh_range(lo, hi);
    size_t na = strlen(alpha);
    char *s = malloc((size_t) n + 1);
    for (int i = 0; i < n; i++) s[i] = alpha[vh_below(na)];
    s[n] = 0;
    return s;
}
static int small_len(void) { return vh_coin(70) ? (int) vh_range(1, 6) : (int) vh_range(7, 24); }

static void comps_free(comps_t *c) { for (int i = 0; i < NF; i++) { free(c->f[i]); c->f[i] = NULL; } }

/* canonical printer: the text `unparse` must rebuild.  "//" exactly when a host is present. */
static char *canonical(const comps_t *c)
{
    size_t n = 16;
    for (int i = 0; i < NF; i++) if (c->f[i]) n += strlen(c->f[i]) + 3;
    char *t = malloc(n), *p = t;
    *p = 0;
    if (c->f[F_PROTO]) p += sprintf(p, "%s:", c->f[F_PROTO]);
    if (c->f[F_HOST]) p += sprintf(p, "//");
    if (c->f[F_USER]) {
        p += sprintf(p, "%s", c->f[F_USER]);
        if (c->f[F_PASSWD]) p += sprintf(p, ":%s", c->f[F_PASSWD]);
        p += sprintf(p, "@");
    }
    if (c->f[F_HOST]) {
        p += sprintf(p, "%s", c->f[F_HOST]);
        if (c->f[F_PORT]) p += sprintf(p, ":%s", c->f[F_PORT]);
    }
    if (c->f[F_PATH]) p += sprintf(p, "%s", c->f[F_PATH]);
    if (c->f[F_QUERY]) p += sprintf(p, "?%s", c->f[F_QUERY]);
    return t;
}

/* input spelling: like canonical but "//" is the generator's choice */
static char *spell(const comps_t *c, int slashes)
{
    size_t n = 16;
    for (int i = 0; i < NF; i++) if (c->f[i]) n += strlen(c->f[i]) + 3;
    char *t = malloc(n), *p = t;
    *p = 0;
    if (c->f[F_PROTO]) p += sprintf(p, "%s:", c->f[F_PROTO]);
    if (slashes) p += sprintf(p, "//");
    if (c->f[F_USER]) {
        p += sprintf(p, "%s", c->f[F_USER]);
        if (c->f[F_PASSWD]) p += sprintf(p, ":%s", c->f[F_PASSWD]);
        p += sprintf(p, "@");
    }
    if (c->f[F_HOST]) {
        p += sprintf(p, "%s", c->f[F_HOST]);
        if (c->f[F_PORT]) p += sprintf(p, ":%s", c->f[F_PORT]);
    }
    if (c->f[F_PATH]) p += sprintf(p, "%s", c->f[F_PATH]);
    if (c->f[F_QUERY]) p += sprintf(p, "?%s", c->f[F_QUERY]);
    return t;
}

/* Without a protocol word, a text whose first ':' is preceded only by letters/digits reads as "proto:" to a
 * left-to-right reader (host:port, user:passwd@...): the documented shape is only unambiguous with "//". */
static int needs_slashes(const comps_t *c)
{
    if (c->f[F_HOST] && !c->f[F_HOST][0]) return 1;
    if (c->f[F_PROTO]) return 0;
    char *t = spell(c, 0);
    const char *colon = strchr(t, ':');
    int amb = 0;
    if (colon) {
        amb = 1;
        for (const char *q = t; q < colon; q++) if (!isalnum((unsigned char) *q)) { amb = 0; break; }
    }
    free(t);
    return amb;
}

static int proto_class;     /* 0 unknown word, 1 service name, 2 protocol name */

static void gen_tuple(comps_t *c, unsigned shape)
{
    memset(c, 0, sizeof *c);
    int has_host = (shape >> F_HOST) & 1;
    if ((shape >> F_PROTO) & 1) {
        proto_class = (int) vh_below(3);
        if (proto_class == 0) c->f[F_PROTO] = gen_from(ALNUM, 1, 9);
        else if (proto_class == 1) c->f[F_PROTO] = strdup(SERVICE_WORDS[vh_below(sizeof SERVICE_WORDS / sizeof *SERVICE_WORDS)]);
        else c->f[F_PROTO] = strdup(PROTOCOL_WORDS[vh_below(sizeof PROTOCOL_WORDS / sizeof *PROTOCOL_WORDS)]);
    } else proto_class = 3;
    if (has_host) {
        if ((shape >> F_USER) & 1) {
            c->f[F_USER] = gen_from(ALNUM, 1, small_len());
            if ((shape >> F_PASSWD) & 1) {
                /* "user:@host" is in the shape too: a password that is present and empty (ftp://anonymous:@host/) */
                if (vh_coin(8)) { c->f[F_PASSWD] = strdup(""); vh_count("passwd_present_and_empty", 1); }
                else c->f[F_PASSWD] = gen_from("abcdefghijklmnopqrstuvwxyzABCDEFGHIJKLMNOPQRSTUVWXYZ0123456789::", 1, small_len());
            }
        }
        /* host: letters, digits, '.', '-'; starts with a letter or digit */
        char *h = gen_from("abcdefghijklmnopqrstuvwxyz0123456789.-ABCXYZ", 1, small_len());
        h[0] = ALNUM[vh_below(62)];
        c->f[F_HOST] = h;
        if ((shape >> F_PORT) & 1) {
            /* "host:/p": a port that was given, and is empty -- given all the same, so nothing is filled in from the service database */
            if (vh_coin(6)) { c->f[F_PORT] = strdup(""); vh_count("port_present_and_empty", 1); }
            else {
                c->f[F_PORT] = gen_from("0123456789", 1, 5);
                /* "//:8080/p": a host that is present and empty in front of a port (always spelled with "//", see needs_slashes) */
                if (!c->f[F_USER] && vh_coin(8)) { h[0] = 0; vh_count("host_present_and_empty", 1); }
            }
        }
    }
    if (((shape >> F_PATH) & 1) || !has_host) {
        /* bare paths always have a path; '/'-led, may contain @ : . and further '/', never starts with "//" */
        if (((shape >> F_PATH) & 1) || vh_coin(97)) {
            char *body = gen_from("abcdefghijklmnopqrstuvwxyzABCXYZ0123456789/@:.-_~%+", 0, small_len());
            if (body[0] == '/') body[0] = 'r';
            char *p = malloc(strlen(body) + 2);
            sprintf(p, "/%s", body);
            free(body);
            c->f[F_PATH] = p;
        }
    }
    if ((shape >> F_QUERY) & 1) {
        /* query: = & @ : and, only when a path is present, '/' */
        /* "host?" and "/p?" are in the shape too: a query that is present and empty */
        if (vh_coin(8)) { c->f[F_QUERY] = strdup(""); vh_count("query_present_and_empty", 1); }
        else c->f[F_QUERY] = gen_from(c->f[F_PATH] ? "abcdefghijklmnopqrstuvwxyz0123456789=&@:.-_/+;" : "abcdefghijklmnopqrstuvwxyz0123456789=&@:.-_+;",
                                 1, small_len());
    }
}

/* ------------------------------------------------------------------ observation */
static void check_str_obj(spif_str_t s, const char *what)
{
    if (SPIF_STR_ISNULL(s)) return;
    const char *p = (const char *) SPIF_STR_STR(s);
    VH_CHECK(p != NULL, "object:component-text", "%s: non-NULL component with NULL text", what);
    size_t n = strlen(p);
    VH_CHECK((size_t) spif_str_get_len(s) == n, "object:component-len", "%s: len %ld but text %s has %zu bytes", what,
             (long) spif_str_get_len(s), vh_qs(p), n);
    VH_CHECK((size_t) spif_str_get_size(s) > n, "object:component-size", "%s: size %ld does not cover text+NUL (%zu)", what,
             (long) spif_str_get_size(s), n + 1);
    size_t a = vh_alloc_size(p);
    if (a) VH_CHECK(a >= (size_t) spif_str_get_size(s), "object:component-alloc", "%s: size %ld claims more than the %zu allocated bytes",
                    what, (long) spif_str_get_size(s), a);
    vh_evals(1);
}

static spif_str_t getf(spif_url_t u, int i)
{
    switch (i) {
        case F_PROTO: return spif_url_get_proto(u);
        case F_USER: return spif_url_get_user(u);
        case F_PASSWD: return spif_url_get_passwd(u);
        case F_HOST: return spif_url_get_host(u);
        case F_PORT: return spif_url_get_port(u);
        case F_PATH: return spif_url_get_path(u);
        default: return spif_url_get_query(u);
    }
}

static void check_all_objs(spif_url_t u, const char *stage)
{
    char w[64];
    for (int i = 0; i < NF; i++) { snprintf(w, sizeof w, "%s %s", stage, FNAME[i]); check_str_obj(getf(u, i), w); }
    snprintf(w, sizeof w, "%s text", stage);
    if (SPIF_STR_STR(SPIF_STR(u))) check_str_obj(SPIF_STR(u), w);
}

/* compare accessors with a tuple; weak_port: port may be absent or equal alt_port */
static void expect_comps(spif_url_t u, const comps_t *want, const char *keypfx, const char *stage, const char *text, int weak_port, const char *alt_port)
{
    char key[64];
    for (int i = 0; i < NF; i++) {
        spif_str_t g = getf(u, i);
        const char *gs = SPIF_STR_ISNULL(g) ? NULL : (const char *) SPIF_STR_STR(g);
        const char *ws = want->f[i];
        vh_evals(1);
        if (i == F_PORT && weak_port) {
            if (gs == NULL || (alt_port && !strcmp(gs, alt_port))) continue;
            snprintf(key, sizeof key, "%s:%s", keypfx, FNAME[i]);
            vh_fail(key, "%s of %s under outcome %s: port %s, expected absent or %s [lookups: %s]", stage, vh_qs(text), OUTNAME[lk_outcome],
                    vh_qs(gs), alt_port ? alt_port : "(none)", lk_log);
        }
        if ((gs == NULL) != (ws == NULL) || (gs && strcmp(gs, ws))) {
            snprintf(key, sizeof key, "%s:%s", keypfx, FNAME[i]);
            vh_fail(key, "%s of %s under outcome %s: %s = %s, expected %s [lookups: %s]", stage, vh_qs(text), OUTNAME[lk_outcome], FNAME[i],
                    vh_qs(gs), vh_qs(ws), lk_log);
        }
    }
}

static void tuple_case(void)
{
    /* shape: 7 presence bits + the "//" spelling bit */
    unsigned shape;
    long t = vh_case_idx / 3 * 2 + vh_case_idx % 3;              /* running tuple number */
    if (t < 256) shape = (unsigned) t;                            /* every shape once, then random */
    else {
        shape = (unsigned) vh_below(256);
        if (!((shape >> F_HOST) & 1) && vh_coin(60)) shape |= 1u << F_HOST;        /* bare paths: a fifth of the tuples */
    }
    int slashes = (shape >> 7) & 1;
    comps_t c;
    gen_tuple(&c, shape);
    int forced = 0;
    if (!slashes && needs_slashes(&c)) { slashes = 1; forced = 1; }
    /* a bare path spelled "//"+path would put the first path segment in host position: only "///..." is a path */
    char *text = spell(&c, slashes);
    int svc_port = (int) (vh_coin(10) ? (vh_coin(50) ? 1 : 65535) : vh_range(1, 65535));
    char svc_port_s[16];
    snprintf(svc_port_s, sizeof svc_port_s, "%d", svc_port);
    unsigned present = 0;
    for (int i = 0; i < NF; i++) if (c.f[i]) present |= 1u << i;

    for (int oc = 0; oc < NOUT; oc++) {
        comps_t want = c;                                         /* shallow: strings shared with c */
        int fill = c.f[F_PROTO] && !c.f[F_PORT];
        int weak_port = 0;
        if (fill) {
            if (oc == OUT_TCP || oc == OUT_UDP) want.f[F_PORT] = svc_port_s;
            else if (oc == OUT_SERV_NOPROTO) weak_port = 1;       /* statement silent: absent or the service's port */
        }
        vh_op("parse %s outcome=%s svcport=%d", vh_qs(text), OUTNAME[oc], svc_port);
        lk_reset(oc, svc_port);
        char *in = vh_heapstr(text);
        vh_stack_scribble(vh_case_idx & 1 ? 0x5a : 0x00);
        spif_url_t u = (vh_case_idx & 2) ? spif_url_new_from_ptr((spif_charptr_t) in) : NULL;
        if (!(vh_case_idx & 2)) {
            spif_str_t s = spif_str_new_from_ptr((spif_charptr_t) in);
            u = spif_url_new_from_str(s);
            spif_str_del(s);
        }
        free(in);                                                  /* the URL must own all its text */
        VH_CHECK(!SPIF_URL_ISNULL(u), "parse:refused", "constructor returned NULL for %s", vh_qs(text));
        VH_CHECK(SPIF_OBJ_IS_URL(u), "parse:class", "constructor returned an object of class %s", vh_qs((const char *) SPIF_OBJ_CLASS(u)->classname));
        VH_CHECK(SPIF_STR_STR(SPIF_STR(u)) && !strcmp((char *) SPIF_STR_STR(SPIF_STR(u)), text), "parse:text",
                 "full text after parse is %s, input was %s", vh_qs((char *) SPIF_STR_STR(SPIF_STR(u))), vh_qs(text));
        check_all_objs(u, "parse");
        expect_comps(u, &want, "parse", "parse", text, weak_port, svc_port_s);
        if (!fill) { if (lk_calls_proto + lk_calls_serv) vh_count("lookups_when_no_fill_needed", 1); }
        else {
            vh_count(oc == OUT_PROTO ? "fill_outcome_protocol_found" : oc == OUT_TCP ? "fill_outcome_tcp" : oc == OUT_UDP ? "fill_outcome_udp" :
                     oc == OUT_NEITHER ? "fill_outcome_neither" : "fill_outcome_service_without_protocol", 1);
            if (proto_class == 2 && oc == OUT_PROTO) vh_count("protocol_word_is_protocol_name", 1);
        }
        /* what the object holds now (weak port resolved by observation) */
        comps_t now = want;
        spif_str_t gp = spif_url_get_port(u);
        char nowport[64];
        if (weak_port) {
            if (SPIF_STR_ISNULL(gp)) now.f[F_PORT] = NULL;
            else { snprintf(nowport, sizeof nowport, "%s", (char *) SPIF_STR_STR(gp)); now.f[F_PORT] = nowport; }
        }
        int port_without_host = now.f[F_PORT] && !now.f[F_HOST];

        vh_op("unparse");
        spif_bool_t ok = spif_url_unparse(u);
        VH_CHECK(ok, "unparse:refused", "unparse returned FALSE for %s", vh_qs(text));
        vh_evals(1);
        VH_CHECK(SPIF_OBJ_IS_URL(u), "unparse:class", "after unparse of %s the object is no longer a url object (class %s)", vh_qs(text),
                 vh_qs((const char *) SPIF_OBJ_CLASS(u)->classname));
        check_all_objs(u, "unparse");
        const char *got = (const char *) SPIF_STR_STR(SPIF_STR(u));
        VH_CHECK(got != NULL, "unparse:text", "no text after unparse of %s", vh_qs(text));
        char *got_copy = strdup(got);
        if (!port_without_host) {
            char *canon = canonical(&now);
            vh_evals(1);
            if (strcmp(got, canon))
                vh_fail("unparse:text", "unparse of %s (outcome %s) gives %s, canonical text is %s", vh_qs(text), OUTNAME[oc], vh_qs(got), vh_qs(canon));
            free(canon);
            /* components unchanged by unparse */
            expect_comps(u, &now, "unparse", "after unparse", text, 0, NULL);
            vh_count("unparse_strong", 1);
        } else {
            /* port filled for a bare path: the statement does not say how a port without a host is spelled.
             * weak: protocol, path and query survive the round trip and the text is a fixpoint. */
            vh_count("unparse_weak_port_without_host", 1);
        }
        spif_url_del(u);

        /* re-parse the text produced.  Port explicit now => any lookup outcome must leave it alone. */
        int oc2 = now.f[F_PORT] ? (int) vh_below(NOUT) : oc;
        int other_port = svc_port == 65535 ? 1 : svc_port + 1;
        vh_op("reparse %s outcome=%s", vh_qs(got_copy), OUTNAME[oc2]);
        lk_reset(oc2, now.f[F_PORT] ? other_port : svc_port);
        in = vh_heapstr(got_copy);
        spif_url_t u2 = spif_url_new_from_ptr((spif_charptr_t) in);
        free(in);
        VH_CHECK(!SPIF_URL_ISNULL(u2), "reparse:refused", "constructor returned NULL for %s", vh_qs(got_copy));
        check_all_objs(u2, "reparse");
        if (!port_without_host) {
            int weak2 = !now.f[F_PORT] && c.f[F_PROTO] && oc2 == OUT_SERV_NOPROTO;
            expect_comps(u2, &now, "reparse", "re-parse", got_copy, weak2, svc_port_s);
            vh_count("reparse_strong", 1);
        } else {
            for (int i = 0; i < NF; i++) {
                if (i != F_PROTO && i != F_PATH && i != F_QUERY) continue;
                spif_str_t g = getf(u2, i);
                const char *gs = SPIF_STR_ISNULL(g) ? NULL : (const char *) SPIF_STR_STR(g);
                vh_evals(1);
                if ((gs == NULL) != (now.f[i] == NULL) || (gs && strcmp(gs, now.f[i])))
                    vh_fail("reparse:weak", "re-parse of %s (from %s): %s = %s, expected %s", vh_qs(got_copy), vh_qs(text), FNAME[i], vh_qs(gs), vh_qs(now.f[i]));
            }
            spif_url_unparse(u2);
            const char *g2 = (const char *) SPIF_STR_STR(SPIF_STR(u2));
            vh_evals(1);
            if (!g2 || strcmp(g2, got_copy))
                vh_fail("reparse:weak", "unparse is not a fixpoint: %s -> %s -> %s", vh_qs(text), vh_qs(got_copy), vh_qs(g2));
        }
        /* dup parses the same text again */
        if (oc == (int) (vh_case_idx % NOUT)) {
            vh_op("dup");
            lk_reset(oc2, now.f[F_PORT] ? other_port : svc_port);
            spif_url_t d = spif_url_dup(u2);
            VH_CHECK(!SPIF_URL_ISNULL(d), "dup:refused", "dup returned NULL");
            check_all_objs(d, "dup");
            VH_CHECK(SPIF_CMP_IS_EQUAL(spif_url_comp(u2, d)), "dup:comp", "dup of %s does not compare equal", vh_qs(got_copy));
            spif_url_del(d);
        }
        spif_url_del(u2);
        vh_cov(vh_mix(vh_mix(shape | (unsigned) forced << 8, (uint64_t) oc), (uint64_t) proto_class));
        if (oc == OUT_TCP && c.f[F_HOST] && c.f[F_USER] && (c.f[F_PROTO] || vh_coin(30)) && vh_coin(20))
            vh_sample("%s [%s, service port %d] -> proto=%s user=%s passwd=%s host=%s port=%s path=%s query=%s -> unparse %s", text, OUTNAME[oc], svc_port,
                      vh_qs(now.f[F_PROTO]), vh_qs(now.f[F_USER]), vh_qs(now.f[F_PASSWD]), vh_qs(now.f[F_HOST]), vh_qs(now.f[F_PORT]),
                      vh_qs(now.f[F_PATH]), vh_qs(now.f[F_QUERY]), got_copy);
        free(got_copy);
    }
    vh_count("tuple_cases", 1);
    if (forced) vh_count("tuples_forced_slashes", 1);
    if (!c.f[F_HOST]) vh_count("bare_path_tuples", 1);
    if (c.f[F_PASSWD] && strchr(c.f[F_PASSWD], ':')) vh_count("passwd_with_colon", 1);
    if (c.f[F_PATH] && (strchr(c.f[F_PATH], '@') || strchr(c.f[F_PATH], ':'))) vh_count("path_with_at_or_colon", 1);
    if (c.f[F_QUERY] && (strchr(c.f[F_QUERY], '@') || strchr(c.f[F_QUERY], ':') || strchr(c.f[F_QUERY], '/'))) vh_count("query_with_at_colon_slash", 1);
    free(text);
    comps_free(&c);
}

/* ------------------------------------------------------------------ arbitrary byte strings */
static void random_case(void)
{
    int mode = (int) vh_below(4);
    int n = (int) (vh_coin(15) ? vh_range(0, 3) : vh_coin(80) ? vh_range(4, 60) : vh_range(61, 200));
    char *s = malloc((size_t) n + 1);
    static const char STRUCT[] = "::://///@@@???..-ab01tcpudphttp";
    if (mode == 3 && n > 0) {
        /* a well-formed URL with a few bytes overwritten */
        comps_t c;
        gen_tuple(&c, (unsigned) vh_below(128));
        char *t = spell(&c, vh_coin(50));
        size_t tl = strlen(t);
        free(s);
        s = malloc(tl + 1);
        memcpy(s, t, tl + 1);
        n = (int) tl;
        for (int k = (int) vh_range(1, 4); k > 0 && n > 0; k--) s[vh_below((uint64_t) n)] = vh_coin(50) ? STRUCT[vh_below(sizeof STRUCT - 1)] : (char) vh_range(1, 255);
        free(t);
        comps_free(&c);
    } else {
        for (int i = 0; i < n; i++)
            s[i] = mode == 0 ? (char) vh_range(1, 255) : mode == 1 ? STRUCT[vh_below(sizeof STRUCT - 1)] :
                   (vh_coin(60) ? STRUCT[vh_below(sizeof STRUCT - 1)] : (char) vh_range(1, 255));
        s[n] = 0;
    }
    int oc = (int) vh_below(NOUT);
    int port = (int) vh_range(0, 65535);
    vh_op("parse-bytes %s outcome=%s", vh_q(s, n), OUTNAME[oc]);
    lk_reset(oc, port);
    char *in = vh_heapstr(s);
    vh_stack_scribble(vh_case_idx & 1 ? 0x5a : 0x00);
    spif_url_t u = spif_url_new_from_ptr((spif_charptr_t) in);
    VH_CHECK(!SPIF_URL_ISNULL(u), "bytes:refused", "constructor returned NULL for %s", vh_q(s, n));
    VH_CHECK(!strcmp(in, s), "bytes:input-modified", "input %s was modified to %s", vh_q(s, n), vh_qs(in));
    free(in);
    check_all_objs(u, "bytes");
    VH_CHECK(SPIF_STR_STR(SPIF_STR(u)) && !strcmp((char *) SPIF_STR_STR(SPIF_STR(u)), s), "bytes:text", "full text after parse is %s, input was %s",
             vh_qs((char *) SPIF_STR_STR(SPIF_STR(u))), vh_q(s, n));
    uint64_t pres = 0;
    for (int i = 0; i < NF; i++) if (!SPIF_STR_ISNULL(getf(u, i))) pres |= 1u << i;
    vh_op("unparse-bytes");
    spif_url_unparse(u);
    VH_CHECK(SPIF_OBJ_IS_URL(u), "unparse:class", "after unparse of %s the object is no longer a url object (class %s)", vh_q(s, n),
             vh_qs((const char *) SPIF_OBJ_CLASS(u)->classname));
    check_all_objs(u, "bytes-unparse");
    if (SPIF_STR_STR(SPIF_STR(u))) {
        char *t2 = strdup((char *) SPIF_STR_STR(SPIF_STR(u)));
        vh_op("reparse-bytes %s", vh_qs(t2));
        lk_reset((int) vh_below(NOUT), port);
        in = vh_heapstr(t2);
        spif_url_t u2 = spif_url_new_from_ptr((spif_charptr_t) in);
        free(in);
        if (!SPIF_URL_ISNULL(u2)) {
            check_all_objs(u2, "bytes-reparse");
            vh_op("dup-bytes");
            spif_url_t d = spif_url_dup(u2);
            if (!SPIF_URL_ISNULL(d)) { check_all_objs(d, "bytes-dup"); spif_url_del(d); }
            spif_url_del(u2);
        }
        free(t2);
    }
    spif_url_del(u);
    vh_evals(1);
    vh_cov(vh_mix(vh_mix(0xb17e5, pres), (uint64_t) oc * 4 + (uint64_t) mode));
    vh_count("random_cases", 1);
    if (pres & (1u << F_PROTO)) vh_count("random_with_proto", 1);
    if (vh_coin(1)) vh_sample("bytes %s [%s] -> components present mask 0x%02x", vh_q(s, n > 40 ? 40 : n), OUTNAME[oc], (unsigned) pres);
    free(s);
}

int main(int argc, char **argv)
{
    vh_init(argc, argv, "C14");
    while (vh_next_case()) {
        if (VH_CASE_TRY()) {
            if (vh_case_idx % 3 == 2) random_case();
            else tuple_case();
        }
        vh_case_done();
    }
    vh_count("lookups_answered", lk_total);
    return vh_finish();
}
