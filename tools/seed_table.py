#!/usr/bin/env python3
"""Regenerates seeded/INDEX.md from seeded/*/meta.json."""
import os, json, glob
ROOT = os.path.dirname(os.path.dirname(os.path.abspath(__file__)))
rows = []
for d in sorted(glob.glob(os.path.join(ROOT, 'seeded', '*'))):
    mp = os.path.join(d, 'meta.json')
    if not os.path.exists(mp):
        continue
    m = json.load(open(mp))
    name = os.path.basename(d)
    det = m.get('detected_by', [])
    first = '; '.join('%s: %s' % (p, (r.get('first') or '').replace('key=', '').split(' case=')[0]) for p, r in m.get('checks_run', {}).items() if r.get('exit') == '1')
    rows.append((name, m.get('property', ''), (m.get('title') or m.get('what_it_breaks') or '')[:110].replace('|', '/'),
                 (m.get('needs_to_manifest') or '')[:160].replace('|', '/').replace('\n', ' '), ', '.join(det) or ('not detected: behaviour the statement leaves open' if m.get('outside_statement') else '**missed**'), first[:120], m.get('history', '')))
with open(os.path.join(ROOT, 'seeded', 'INDEX.md'), 'w') as f:
    f.write('# Seeded defects (written by independent sub-agents from the property text only)\n\n')
    f.write('Each directory: `patch.diff` (applies to /repo HEAD at the time it was confirmed), `demo.c` + `build_demo.sh` (exit 0 clean, non-zero mutated), `meta.json`.\n')
    f.write('Confirmation and detection were run with `tools/seed_keep.py` (scratch copy of /repo, patch applied, 119 stable tests still pass, demo both ways, quick check with `LIBAST_SRC` on the mutated copy).\n\n')
    f.write('| seed | property | change | needs to manifest | detected by (quick tier) | first violation key | history |\n|---|---|---|---|---|---|---|\n')
    for r in rows:
        f.write('| %s | %s | %s | %s | %s | %s | %s |\n' % r)
    own = sum(1 for r in rows if r[1] and r[1] in r[4])
    open_ = sum(1 for r in rows if r[4].startswith('not detected'))
    other = sum(1 for r in rows if r[4] != '**missed**' and not r[4].startswith('not detected') and not (r[1] and r[1] in r[4]))
    f.write('\n%d seeds: %d detected by the quick tier of their own property\'s check, %d only by another property\'s check (see history), %d change behaviour the statement leaves open and are not detected (see history), %d missed.\n'
            % (len(rows), own, other, open_, sum(1 for r in rows if r[4] == '**missed**')))
print(len(rows), 'seeds')
