"""C16: NULL-argument calls fail soft (frozen guard table x runtime debug levels, one forked child per cell)."""
import os, json, subprocess, sys
import vf


def ncases():
    n = 0
    for l in open(os.path.join(vf.ROOT, 'harness', 'c16_cases.inc')):
        if l.startswith('#define C16_NCASES'):
            n = int(l.split()[2])
    return n


def build():
    return vf.build_harness('c16', 'asan', ['c16.c'], cflags=['-Wno-incompatible-pointer-types', '-Wno-int-conversion', '-Wno-discarded-qualifiers'])


def rebuild_for_replay(rec):
    return build()


def run(chk):
    exe = build()
    rows = ncases()
    nlev = chk.pick(2, 4)
    cells = rows * nlev
    per = (cells + vf.NCPU - 1) // vf.NCPU
    chk.run('asan', exe, per, timeout=1200)
    chk.rule = ('case = one row of the frozen guard table gen/c16_guards.tsv (entry point or class-table slot, pointer parameter set to NULL, '
                'other arguments valid samples) x runtime debug level (%s); each runs in a forked child; oracle: documented failure value, '
                'no allocation inside the call (ASan malloc hook), other arguments bit-identical (two-level heap snapshot), normal exit; at level >=1 '
                'alternatively exit 255 with a FATAL diagnostic; distinct = distinct (row, level) cells') % ('0,1' if nlev == 2 else '0,1,3,5')
    chk.exhaustive = True
    chk.cov['table_rows'] = rows
    chk.cov['levels'] = nlev
    try:
        d = subprocess.run([sys.executable, os.path.join(vf.ROOT, 'tools', 'gen_c16.py'), '--diff', vf.SRC], stdout=subprocess.PIPE, text=True, timeout=60).stdout
        chk.cov['entry_points_vs_frozen_table'] = json.loads(d.strip().splitlines()[-1])
    except Exception as e:
        chk.cov['entry_points_vs_frozen_table'] = 'diff failed: %s' % e
    chk.assumptions += ['"documented to guard" = guarded in the pinned tree (frozen table gen/c16_guards.tsv); functions that never guarded are listed there as #UNGUARDED and not judged',
                        'guards whose failure value is itself a call with effects (e.g. spif_str_init(self)) are outside the statement\'s value set and skipped']
    chk.require('soft_fail_level0', rows - 5)
    chk.min_cases = cells
