/* C02: every list implementation is the same abstract sequence (incl. iterators).
 * DESIGN.md §4 C02, Appendix A.2.
 *
 * One generated history is applied in lock-step to an array, a linked_list and a dlinked_list list object
 * and to a model (vector of label|NULL).  After every operation, per class: the return value equals the
 * model's; full read-back by independent routes (get(i) for i in [-len-1,len], a fresh iterator with exact
 * exhaustion behaviour, to_array, index/find/contains of every label in play) equals the model; the
 * structural invariants of the public structs hold.  Modes: random histories (default) and `--mode exh`
 * (all mutator sequences of length 4 over a 2-label alphabet and the index boundary set; every prefix is
 * checked on the way, so lengths 1..3 are covered too). */
#include "c0x_containers.h"

#define MAXLEN 700
#define MAXPOOL 4

enum { OP_APPEND, OP_PREPEND, OP_INSERT_AT, OP_REMOVE, OP_REMOVE_AT, OP_GET, OP_INDEX, OP_FIND, OP_CONTAINS,
       OP_COUNT, OP_REVERSE, OP_TO_ARRAY, OP_ITER, OP_DUP, NOPS };
static const char *const opname[NOPS] = { "append", "prepend", "insert_at", "remove", "remove_at", "get", "index", "find",
                                          "contains", "count", "reverse", "to_array", "iterate", "dup" };

typedef struct { int m[MAXLEN]; int n; } seq_t;
typedef struct { spif_list_t o[CX_NKIND]; seq_t s; int last_mut; } ent_t;
typedef struct { int rb; int rid; int ridx; } res_t;

static ent_t pool[MAXPOOL + 4];      /* random histories stop at MAXPOOL; the exhaustive mode can dup 4 times */
static int npool;
static int order[CX_NKIND];
static int labels[8], nlabels;        /* labels probed in every read-back */
static char hist[700]; static size_t histo;

static spif_list_t new_list(int k)
{
    switch (k) {
        case CX_ARRAY: return SPIF_LIST_NEW(array);
        case CX_LINKED: return SPIF_LIST_NEW(linked_list);
        default: return SPIF_LIST_NEW(dlinked_list);
    }
}

/* ------------------------------------------------------------- reference semantics (Appendix A.2) */
static int norm_idx(int idx, int n) { return idx < 0 ? idx + n : idx; }

static const char *idx_class(int idx, int n, int *code)
{
    int nm = norm_idx(idx, n), c;
    const char *s;
    if (nm < -1) { c = 0; s = "under"; }
    else if (nm == -1) { c = 1; s = "minus1"; }
    else if (n == 0) { if (nm == 0) { c = 2; s = "empty0"; } else { c = 3; s = "emptypast"; } }
    else if (nm == 0) { c = 4; s = "first"; }
    else if (nm < n - 1) { c = 5; s = "mid"; }
    else if (nm == n - 1) { c = 6; s = "last"; }
    else if (nm == n) { c = 7; s = "end"; }
    else if (nm == n + 1) { c = 8; s = "past1"; }
    else { c = 9; s = "past"; }
    if (code) *code = c * 2 + (idx < 0);
    return s;
}

static int m_first(const seq_t *s, int id)
{
    for (int i = 0; i < s->n; i++) if (s->m[i] == id) return i;
    return -1;
}
static void m_ins(seq_t *s, int pos, int id)
{
    memmove(s->m + pos + 1, s->m + pos, sizeof(int) * (size_t) (s->n - pos));
    s->m[pos] = id; s->n++;
}
static int m_del(seq_t *s, int pos)
{
    int id = s->m[pos];
    memmove(s->m + pos, s->m + pos + 1, sizeof(int) * (size_t) (s->n - pos - 1));
    s->n--;
    return id;
}
/* applies op to *s in place, fills the expected result */
static void model_apply(seq_t *s, int op, int id, int idx, res_t *r)
{
    int nm, p;
    r->rb = 1; r->rid = CX_NULLID; r->ridx = -1;
    switch (op) {
        case OP_APPEND: m_ins(s, s->n, id); break;
        case OP_PREPEND: m_ins(s, 0, id); break;
        case OP_INSERT_AT:
            nm = norm_idx(idx, s->n);
            if (nm < 0) { r->rb = 0; break; }
            while (s->n < nm) m_ins(s, s->n, CX_NULLID);
            m_ins(s, nm, id);
            break;
        case OP_REMOVE: p = m_first(s, id); if (p >= 0) r->rid = m_del(s, p); break;
        case OP_REMOVE_AT: nm = norm_idx(idx, s->n); if (nm >= 0 && nm < s->n) r->rid = m_del(s, nm); break;
        case OP_GET: nm = norm_idx(idx, s->n); if (nm >= 0 && nm < s->n) r->rid = s->m[nm]; break;
        case OP_INDEX: r->ridx = m_first(s, id); break;
        case OP_FIND: p = m_first(s, id); if (p >= 0) r->rid = id; break;
        case OP_CONTAINS: r->rb = m_first(s, id) >= 0; break;
        case OP_COUNT: r->ridx = s->n; break;
        case OP_REVERSE: for (int i = 0, j = s->n - 1; i < j; i++, j--) { int t = s->m[i]; s->m[i] = s->m[j]; s->m[j] = t; } break;
        default: break;
    }
}

static const char *show_seq(const seq_t *s)
{
    static char b[400]; size_t o = 0;
    b[0] = 0;
    o += (size_t) snprintf(b + o, sizeof b - o, "[");
    for (int i = 0; i < s->n && o < sizeof b - 16; i++) o += (size_t) snprintf(b + o, sizeof b - o, "%s%s", i ? "," : "", cx_lab2s(s->m[i]));
    snprintf(b + o, sizeof b - o, "]%s", s->n && o >= sizeof b - 16 ? ".." : "");
    return b;
}

/* ------------------------------------------------------------- full read-back of one subject against the model */
static void readback(const char *op, int k, spif_list_t l, const seq_t *s)
{
    int n = s->n, i;
    spif_listidx_t c = SPIF_LIST_COUNT(l);
    CX_DG(c);
    CX_CHECK(c == n, op, k, "count", "count is %d, model has %d %s", (int) c, n, show_seq(s));
    cx_struct_check(op, k, SPIF_OBJ(l), s->m, n, cx_id2, cx_lab2s);
    for (i = -n - 1; i <= n; i++) {
        int nm = norm_idx(i, n);
        int want = (nm >= 0 && nm < n) ? s->m[nm] : CX_NULLID;
        int got = cx_id2(SPIF_LIST_GET(l, i));
        CX_DG(got);
        CX_CHECK(got == want, op, k, "get-readback", "get(%d) on %d elements gives %s, expected %s; model %s", i, n, cx_lab2s(got), cx_lab2s(want), show_seq(s));
    }
    cx_iter_check(op, k, SPIF_LIST_ITERATOR(l), s->m, n, cx_id2, cx_lab2s);
    cx_toarray_check(op, k, SPIF_LIST_TO_ARRAY(l), s->m, n, cx_id2, cx_lab2s);
    for (i = 0; i < nlabels; i++) {
        spif_obj_t probe = cx_new2(labels[i]), f;
        int want = m_first(s, labels[i]);
        spif_listidx_t ix = SPIF_LIST_INDEX(l, probe);
        spif_bool_t has;
        CX_DG(ix);
        CX_CHECK(ix == want, op, k, "index-readback", "index(%s) is %d, expected %d; model %s", cx_lab2s(labels[i]), (int) ix, want, show_seq(s));
        f = SPIF_LIST_FIND(l, probe);
        CX_DG(f == NULL);
        CX_CHECK(cx_id2(f) == (want >= 0 ? labels[i] : CX_NULLID) && f != probe, op, k, "find-readback", "find(%s) gives %s, expected %s; model %s",
                 cx_lab2s(labels[i]), f == probe ? "the probe itself" : cx_lab2s(cx_id2(f)), want >= 0 ? cx_lab2s(labels[i]) : "NULL", show_seq(s));
        /* which of several equal elements: the first one, the one index() names (remove() takes that one out, too) */
        if (f && ix >= 0) CX_CHECK(f == SPIF_LIST_GET(l, ix), op, k, "find-identity", "find(%s) returned an equal element other than the first one (the one at index %ld); model %s",
                                   cx_lab2s(labels[i]), (long) ix, show_seq(s));
        has = SPIF_LIST_CONTAINS(l, probe);
        CX_DG(has);
        CX_CHECK(!!has == (want >= 0), op, k, "contains-readback", "contains(%s) is %d, expected %d; model %s", cx_lab2s(labels[i]), (int) has, want >= 0, show_seq(s));
        cx_del_str(probe);
    }
}

/* ------------------------------------------------------------- one operation on one subject */
static void subj_apply(const char *on, int k, spif_list_t l, int op, int id, int idx, const res_t *e, const seq_t *before)
{
    spif_obj_t x, probe;
    spif_bool_t b;
    int got;
    switch (op) {
        case OP_APPEND:
            x = cx_new2(id); b = SPIF_LIST_APPEND(l, x); CX_DG(b);
            CX_CHECK(b, on, k, "result", "append(%s) returned FALSE", cx_lab2s(id));
            break;
        case OP_PREPEND:
            x = cx_new2(id); b = SPIF_LIST_PREPEND(l, x); CX_DG(b);
            CX_CHECK(b, on, k, "result", "prepend(%s) returned FALSE", cx_lab2s(id));
            break;
        case OP_INSERT_AT:
            x = cx_new2(id); b = SPIF_LIST_INSERT_AT(l, x, idx); CX_DG(b);
            CX_CHECK(!!b == e->rb, on, k, "result", "insert_at(%s, %d) on %s returned %s, expected %s", cx_lab2s(id), idx, show_seq(before),
                     b ? "TRUE" : "FALSE (refused)", e->rb ? "TRUE" : "FALSE (refused)");
            if (!b) cx_del_str(x);            /* a refused element stays ours */
            break;
        case OP_REMOVE:
            probe = cx_new2(id); x = SPIF_LIST_REMOVE(l, probe); got = cx_id2(x); CX_DG(got);
            CX_CHECK(got == e->rid && x != probe, on, k, "result", "remove(%s) on %s returned %s, expected %s", cx_lab2s(id), show_seq(before),
                     x == probe ? "the probe itself" : cx_lab2s(got), cx_lab2s(e->rid));
            cx_del_str(x); cx_del_str(probe);
            break;
        case OP_REMOVE_AT:
            x = SPIF_LIST_REMOVE_AT(l, idx); got = cx_id2(x); CX_DG(got);
            CX_CHECK(got == e->rid, on, k, "result", "remove_at(%d) on %s returned %s, expected %s", idx, show_seq(before), cx_lab2s(got), cx_lab2s(e->rid));
            cx_del_str(x);
            break;
        case OP_GET:
            got = cx_id2(SPIF_LIST_GET(l, idx)); CX_DG(got);
            CX_CHECK(got == e->rid, on, k, "result", "get(%d) on %s returned %s, expected %s", idx, show_seq(before), cx_lab2s(got), cx_lab2s(e->rid));
            break;
        case OP_INDEX:
            probe = cx_new2(id); got = (int) SPIF_LIST_INDEX(l, probe); CX_DG(got);
            CX_CHECK(got == e->ridx, on, k, "result", "index(%s) on %s returned %d, expected %d", cx_lab2s(id), show_seq(before), got, e->ridx);
            cx_del_str(probe);
            break;
        case OP_FIND:
            probe = cx_new2(id); x = SPIF_LIST_FIND(l, probe); got = cx_id2(x); CX_DG(got);
            CX_CHECK(got == e->rid && x != probe, on, k, "result", "find(%s) on %s returned %s, expected %s", cx_lab2s(id), show_seq(before), cx_lab2s(got), cx_lab2s(e->rid));
            cx_del_str(probe);
            break;
        case OP_CONTAINS:
            probe = cx_new2(id); b = SPIF_LIST_CONTAINS(l, probe); CX_DG(b);
            CX_CHECK(!!b == e->rb, on, k, "result", "contains(%s) on %s returned %d, expected %d", cx_lab2s(id), show_seq(before), (int) b, e->rb);
            cx_del_str(probe);
            break;
        case OP_COUNT:
            got = (int) SPIF_LIST_COUNT(l); CX_DG(got);
            CX_CHECK(got == e->ridx, on, k, "result", "count returned %d, expected %d", got, e->ridx);
            break;
        case OP_REVERSE:
            b = SPIF_LIST_REVERSE(l); CX_DG(b);
            CX_CHECK(b, on, k, "result", "reverse returned FALSE on %s", show_seq(before));
            break;
        default: break;      /* to_array / iterate: the read-back that follows is the operation */
    }
}

static int has_holes(const seq_t *s) { for (int i = 0; i < s->n; i++) if (s->m[i] == CX_NULLID) return 1; return 0; }
static int len_bucket(int n) { return n <= 3 ? n : n <= 7 ? 4 : 5; }

static void note_hist(const char *t)
{
    if (histo < sizeof hist - 40) histo += (size_t) snprintf(hist + histo, sizeof hist - histo, "%s%s", histo ? "; " : "", t);
}

/* ------------------------------------------------------------- one step of a history on pool entry pi */
static void step(int pi, int op, int id, int idx)
{
    ent_t *e = &pool[pi];
    seq_t before = e->s, after = e->s;
    res_t exp;
    char on[64], desc[128];
    int acode = 0, n = before.n;
    const char *ac = "";

    if (op == OP_INSERT_AT || op == OP_REMOVE_AT || op == OP_GET) ac = idx_class(idx, n, &acode);
    else if (op == OP_REMOVE || op == OP_INDEX || op == OP_FIND || op == OP_CONTAINS) {
        int p = m_first(&before, id), dup = 0;
        for (int i = p + 1; p >= 0 && i < n; i++) if (before.m[i] == id) dup = 1;
        if (p < 0) { ac = "absent"; acode = 0; }
        else if (p == 0) { ac = "head"; acode = 1; }
        else if (p == n - 1) { ac = "tail"; acode = 2; }
        else { ac = "inner"; acode = 3; }
        acode = acode * 2 + dup;
    } else if (op == OP_DUP || op == OP_REVERSE || op == OP_APPEND || op == OP_PREPEND) {
        ac = n == 0 ? "empty" : has_holes(&before) ? "holes" : "plain";
        acode = n == 0 ? 0 : has_holes(&before) ? 1 : 2;
    }
    snprintf(on, sizeof on, "%s%s%s", opname[op], *ac ? "@" : "", ac);

    if (op == OP_INSERT_AT) snprintf(desc, sizeof desc, "L%d.insert_at(%s,%d)", pi, cx_lab2s(id), idx);
    else if (op == OP_REMOVE_AT || op == OP_GET) snprintf(desc, sizeof desc, "L%d.%s(%d)", pi, opname[op], idx);
    else if (op == OP_APPEND || op == OP_PREPEND || op == OP_REMOVE || op == OP_INDEX || op == OP_FIND || op == OP_CONTAINS)
        snprintf(desc, sizeof desc, "L%d.%s(%s)", pi, opname[op], cx_lab2s(id));
    else snprintf(desc, sizeof desc, "L%d.%s()", pi, opname[op]);
    vh_op("%s  [%s] on %s", desc, on, show_seq(&before));
    note_hist(desc);

    vh_count(opname[op], 1);
    vh_cov(vh_mix(vh_mix((uint64_t) len_bucket(n) * 2 + (uint64_t) has_holes(&before), (uint64_t) op * 64 + (uint64_t) acode), (uint64_t) e->last_mut + 1));
    if (e->last_mut == OP_REVERSE) vh_count("op_after_reverse", 1);
    if (e->last_mut == OP_REMOVE || e->last_mut == OP_REMOVE_AT) vh_count("op_after_remove", 1);
    if (e->last_mut == OP_DUP) vh_count("op_after_dup", 1);

    if (op == OP_DUP) {
        ent_t *c = &pool[npool];
        if (n == 0) vh_count("dup_empty", 1);
        if (has_holes(&before)) vh_count("dup_with_placeholders", 1);
        memset(c, 0, sizeof *c);
        for (int j = 0; j < CX_NKIND; j++) {
            int k = order[j];
            spif_list_t d = SPIF_LIST_DUP(e->o[k]);
            CX_DG(d == NULL);
            CX_CHECK(!SPIF_LIST_ISNULL(d) && d != e->o[k], on, k, "result", "dup of %s returned %s", show_seq(&before), d ? "the original" : "NULL");
            CX_CHECK(SPIF_OBJ_CLASS(d) == SPIF_OBJ_CLASS(e->o[k]), on, k, "class", "the copy is not of the list class of the original");
            c->o[k] = d;
            readback(on, k, d, &before);
            readback(on, k, e->o[k], &before);
        }
        c->s = before; c->last_mut = OP_DUP; e->last_mut = OP_DUP;
        npool++;
        return;
    }

    model_apply(&after, op, id, idx, &exp);
    if (op == OP_INSERT_AT) {
        if (!exp.rb) vh_count("insert_at_refused", 1);
        else if (n == 0) vh_count(idx == 0 ? "insert_at_empty_0" : "insert_at_empty_padded", 1);
        else if (norm_idx(idx, n) > n) vh_count("insert_at_padded", 1);
        else if (norm_idx(idx, n) == n) vh_count("insert_at_end", 1);
        else if (norm_idx(idx, n) == n - 1) vh_count("insert_at_last", 1);
    }
    if ((op == OP_REMOVE_AT || op == OP_GET) && (norm_idx(idx, n) < 0 || norm_idx(idx, n) >= n)) vh_count("refused_get_remove_at", 1);
    if (op == OP_REVERSE && n == 0) vh_count("reverse_empty", 1);
    if ((op == OP_REMOVE_AT || op == OP_REMOVE) && after.n == n - 1 && after.n == 0) vh_count("removed_only_element", 1);
    if (op == OP_REMOVE_AT && after.n == n - 1 && norm_idx(idx, n) == n - 1) vh_count("removed_tail", 1);

    for (int j = 0; j < CX_NKIND; j++) {
        int k = order[j];
        subj_apply(on, k, e->o[k], op, id, idx, &exp, &before);
        readback(on, k, e->o[k], &after);
    }
    cx_toarray_empty_agree(on);
    /* (c) observational interchangeability: every class produced the model's results above, hence the same results */
    vh_evals(1);
    e->s = after;
    if (op == OP_APPEND || op == OP_PREPEND || op == OP_INSERT_AT || op == OP_REMOVE || op == OP_REMOVE_AT || op == OP_REVERSE) e->last_mut = op;
}

static void pool_start(void)
{
    npool = 1;
    memset(&pool[0], 0, sizeof pool[0]);
    pool[0].last_mut = -1;
    for (int k = 0; k < CX_NKIND; k++) {
        pool[0].o[k] = new_list(k);
        if (SPIF_LIST_ISNULL(pool[0].o[k])) CX_FAIL("new", k, "null", "SPIF_LIST_NEW returned NULL");
    }
    for (int j = 0; j < CX_NKIND; j++) order[j] = (int) ((vh_case_idx + j) % CX_NKIND);
    histo = 0; hist[0] = 0;
}
static void pool_finish(void)
{
    for (int p = 0; p < npool; p++)
        for (int j = 0; j < CX_NKIND; j++) {
            int k = order[j];
            vh_op("final read-back and del of L%d %s", p, cx_kind[k]);
            readback("final", k, pool[p].o[k], &pool[p].s);
            SPIF_LIST_DEL(pool[p].o[k]);
        }
}

/* index generators relative to the current length */
static int gen_idx(int g, int n)
{
    switch (g) {
        case 0: return -n - 2;
        case 1: return -n - 1;
        case 2: return -n;
        case 3: return n >= 3 ? -(int) vh_range(2, n - 1) : -1;
        case 4: return -1;
        case 5: return 0;
        case 6: return 1;
        case 7: return n >= 3 ? (int) vh_range(1, n - 2) : 0;
        case 8: return n - 1;
        case 9: return n;
        case 10: return n + 1;
        default: return n + 2 + (int) vh_below(2);
    }
}

static void random_history(void)
{
    static const int NL[] = { 2, 3, 4, 8, 8, 64 };
    static const int W[NOPS] = { 8, 6, 24, 8, 12, 4, 3, 3, 2, 1, 9, 1, 2, 5 };
    int nl = NL[vh_below(6)], nops, r = (int) vh_below(100);
    nops = r < 25 ? (int) vh_range(1, 8) : r < 75 ? (int) vh_range(9, 40) : (int) vh_range(41, 80);
    nlabels = nl <= 8 ? nl : 6;
    for (int i = 0; i < nlabels; i++) labels[i] = nl <= 8 ? i * (nl == 2 ? 9 : 1) % 64 : (int) vh_below(64);
    pool_start();
    for (int t = 0; t < nops; t++) {
        int pi = npool > 1 && vh_coin(40) ? (int) vh_below((uint64_t) npool) : npool - 1;
        int n = pool[pi].s.n, tot = 0, op, id, idx = 0, w[NOPS];
        for (int i = 0; i < NOPS; i++) {
            w[i] = W[i];
            if (n > 56 && (i == OP_APPEND || i == OP_PREPEND || i == OP_INSERT_AT)) w[i] = 0;
            if (i == OP_DUP && npool >= MAXPOOL) w[i] = 0;
            tot += w[i];
        }
        r = (int) vh_below((uint64_t) tot);
        for (op = 0; op < NOPS - 1 && r >= w[op]; op++) r -= w[op];
        /* label: mostly one that is present when the operation looks something up */
        id = nl <= 8 ? labels[vh_below((uint64_t) nl)] : (int) vh_below(64);
        if ((op == OP_REMOVE || op == OP_INDEX || op == OP_FIND || op == OP_CONTAINS) && n > 0 && vh_coin(70)) {
            int c = pool[pi].s.m[vh_below((uint64_t) n)];
            if (c != CX_NULLID) id = c;
        }
        if (op == OP_INSERT_AT || op == OP_REMOVE_AT || op == OP_GET) {
            int g = (int) vh_below(12);
            if (op == OP_INSERT_AT && n > 40 && g >= 10) g = 7;
            idx = gen_idx(g, n);
        }
        step(pi, op, id, idx);
    }
    pool_finish();
    if (vh_coin(3)) vh_sample("history (%d ops, labels %d): %s => %s", nops, nl, hist, show_seq(&pool[0].s));
}

/* ------------------------------------------------------------- small-scope exhaustive enumeration
 * Mutator alphabet (38): append/prepend x {a,b}; insert_at(x, g) for 10 boundary positions g x {a,b};
 * remove {a,b}; remove_at(g) x 10; reverse; dup (the history continues on the copy).
 * A case fixes the first two mutators; it runs all 38^2 continuations. */
#define EXH_A 38
static const int exh_gen[10] = { 0, 1, 2, 4, 5, 6, 8, 9, 10, 11 };   /* -n-2,-n-1,-n,-1,0,1,n-1,n,n+1,n+2 */
static void exh_decode(int d, int n, int *op, int *id, int *idx)
{
    static const int lab[2] = { 0, 9 };
    *idx = 0; *id = 0;
    if (d < 2) { *op = OP_APPEND; *id = lab[d]; }
    else if (d < 4) { *op = OP_PREPEND; *id = lab[d - 2]; }
    else if (d < 24) { int g = exh_gen[(d - 4) / 2]; *op = OP_INSERT_AT; *id = lab[(d - 4) % 2]; *idx = g == 11 ? n + 2 : gen_idx(g, n); }
    else if (d < 26) { *op = OP_REMOVE; *id = lab[d - 24]; }
    else if (d < 36) { int g = exh_gen[d - 26]; *op = OP_REMOVE_AT; *idx = g == 11 ? n + 2 : gen_idx(g, n); }
    else if (d == 36) *op = OP_REVERSE;
    else *op = OP_DUP;
}
static void exh_case(long ci)
{
    int d[4];
    d[0] = (int) (ci / EXH_A); d[1] = (int) (ci % EXH_A);
    nlabels = 2; labels[0] = 0; labels[1] = 9;
    for (d[2] = 0; d[2] < EXH_A; d[2]++)
        for (d[3] = 0; d[3] < EXH_A; d[3]++) {
            pool_start();
            for (int t = 0; t < 4; t++) {
                int op, id, idx, pi = npool - 1;
                exh_decode(d[t], pool[pi].s.n, &op, &id, &idx);
                step(pi, op, id, idx);
            }
            pool_finish();
            vh_count("exh_sequences", 1);
        }
}

int main(int argc, char **argv)
{
    int exh = 0;
    for (int i = 1; i + 1 < argc; i++) if (!strcmp(argv[i], "--mode") && !strcmp(argv[i + 1], "exh")) exh = 1;
    vh_init(argc, argv, "C02");
    while (vh_next_case()) {
        cx_dg = 0;
        if (VH_CASE_TRY()) {
            if (exh) { if (vh_case_idx < (long) EXH_A * EXH_A) exh_case(vh_case_idx); }
            else random_history();
        }
        vh_digest(cx_dg);
        vh_case_done();
    }
    return vh_finish();
}
