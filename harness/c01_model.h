/* C01: reference model (char buffer + length), generators, per-object invariant check. */
#ifndef C01_MODEL_H
#define C01_MODEL_H

#define NPOOL 6
#define MAXLEN 49152           /* growth operations are not generated beyond this */

typedef struct {
    obj_t o;                   /* NULL = slot empty */
    char *m;                   /* model text, mlen+1 bytes, no embedded NUL */
    long mlen;
} slot_t;

static slot_t pool[NPOOL];
static char keybuf[96];

static const char *key(const char *op, const char *clause)
{
    snprintf(keybuf, sizeof keybuf, CN ".%s:%s", op, clause);
    return keybuf;
}

static void m_take(slot_t *s, char *t, long n) { free(s->m); s->m = t; s->mlen = n; }
static char *m_alloc(long n) { char *p = malloc((size_t) n + 1); p[n] = 0; return p; }
static void m_set(slot_t *s, const char *t, long n) { char *p = m_alloc(n); if (n) memcpy(p, t, (size_t) n); m_take(s, p, n); }
static char *cat3(const char *a, long la, const char *b, long lb, const char *c, long lc)
{
    char *p = m_alloc(la + lb + lc);
    if (la) memcpy(p, a, (size_t) la);
    if (lb) memcpy(p + la, b, (size_t) lb);
    if (lc) memcpy(p + la + lb, c, (size_t) lc);
    return p;
}

static int m_isspace(unsigned char c) { return c == ' ' || (c >= '\t' && c <= '\r'); }
static int m_lower(unsigned char c) { return (c >= 'A' && c <= 'Z') ? c + 32 : c; }
static int m_upper(unsigned char c) { return (c >= 'a' && c <= 'z') ? c - 32 : c; }

/* state class of an object for coverage hashing */
static int state_class(slot_t *s)
{
    if (!s->o) return 0;
    if (!s->o->s) return 1;
    if (s->mlen == 0) return 2;
    if (s->mlen == 1) return 3;
    if (s->mlen < 64) return 4;
    if (s->mlen < 4094) return 5;
    if (s->mlen <= 4097) return 6;
    return 7;
}

/* ---- text generators: exact-size heap strings without NUL ---- */
enum { TC_EMPTY, TC_ONE, TC_BLANK, TC_PADDED, TC_HIGH, TC_BIG, TC_CHUNK, TC_ALNUM, TC_NUM, TC_PUNCT, NTC };
static const char *const NUMS[] = { "0", "1", "-1", "123", "077", "0x1f", "0X7fffffff", " 42", "\t-17abc", "3.25", "1e5", "-0.5e-3x", ".5",
    "inf", "nan", "18446744073709551615", "99999999999999999999999", "+8", "0x", "08", "z9", "1 2" };
static void fill_random(char *p, long n, int nl_ok)
{
    for (long i = 0; i < n; i++) {
        unsigned c = (unsigned) (vh_next() % 255) + 1;
        if (!nl_ok && c == '\n') c = 'n';
        p[i] = (char) c;
    }
}
static char *gen_text_class(int tc, long *lenp)
{
    char *p; long n = 0;
    static const char ws[] = " \t\n\v\f\r";
    static const char an[] = "abcxyzABCXYZ0189_";
    switch (tc) {
        case TC_EMPTY: p = m_alloc(0); break;
        case TC_ONE: p = m_alloc(n = 1); p[0] = vh_coin(30) ? ' ' : vh_coin(20) ? (char) 0xe9 : an[vh_below(sizeof an - 1)]; break;
        case TC_BLANK: p = m_alloc(n = vh_range(1, 6)); for (long i = 0; i < n; i++) p[i] = ws[vh_below(6)]; break;
        case TC_PADDED: {
            long a = vh_range(0, 3), w = vh_range(1, 8), b = vh_range(0, 3);
            if (a + b == 0) a = 1;
            p = m_alloc(n = a + w + b);
            for (long i = 0; i < n; i++) p[i] = (i < a || i >= a + w) ? ws[vh_below(6)] : (vh_coin(15) ? ' ' : an[vh_below(sizeof an - 1)]);
            if (p[a] == ' ') p[a] = 'q';
            if (p[a + w - 1] == ' ') p[a + w - 1] = 'Q';
            break;
        }
        case TC_HIGH: p = m_alloc(n = vh_range(1, 20)); for (long i = 0; i < n; i++) p[i] = (char) (0x80 + vh_below(128)); break;
        case TC_BIG: p = m_alloc(n = vh_range(4096, 16384)); fill_random(p, n, 1); break;
        case TC_CHUNK: p = m_alloc(n = vh_range(4093, 4098)); fill_random(p, n, 1); break;
        case TC_NUM: { const char *s = NUMS[vh_below(sizeof NUMS / sizeof NUMS[0])]; n = (long) strlen(s); p = m_alloc(n); memcpy(p, s, (size_t) n); break; }
        case TC_PUNCT: p = m_alloc(n = vh_range(1, 40)); for (long i = 0; i < n; i++) p[i] = (char) (0x20 + vh_below(0x5f)); break;
        default: p = m_alloc(n = vh_range(2, 14)); for (long i = 0; i < n; i++) p[i] = an[vh_below(sizeof an - 1)]; break;
    }
    *lenp = n;
    return p;
}
static int gen_tc(void)
{
    unsigned r = (unsigned) vh_below(100);
    if (r < 10) return TC_EMPTY;
    if (r < 20) return TC_ONE;
    if (r < 28) return TC_BLANK;
    if (r < 40) return TC_PADDED;
    if (r < 48) return TC_HIGH;
    if (r < 52) return TC_BIG;
    if (r < 55) return TC_CHUNK;
    if (r < 75) return TC_ALNUM;
    if (r < 88) return TC_NUM;
    return TC_PUNCT;
}

/* boundary index set around len (DESIGN §4 C01 G) */
#define NBIDX 21
static idx_t bidx(int k, long len)
{
    switch (k) {
        case 0: return -len - 2;
        case 1: return -len - 1;
        case 2: return -len;
        case 3: return -len + 1;
        case 4: return -1;
        case 5: return 0;
        case 6: return 1;
        case 7: return len / 2;
        case 8: return len - 2;
        case 9: return len - 1;
        case 10: return len;
        case 11: return len + 1;
        case 12: return len + 2;
        case 13: return INT64_MAX;
        case 14: return INT64_MIN;
        case 15: return (idx_t) INT32_MAX + 1;
        case 16: return -(idx_t) INT32_MAX - 2;
        case 17: return ((idx_t) 1 << 32) + 1;          /* truncation to 32 bits would make this 1 */
        case 18: return -(((idx_t) 1 << 32) + 1);
        case 19: return -2;
        default: return 2;
    }
}
static idx_t gen_idx(long len)
{
    if (vh_coin(15)) return (idx_t) vh_range(-len - 3, len + 3);
    if (vh_coin(25)) return (idx_t) vh_range(0, len > 0 ? len - 1 : 0);
    return bidx((int) vh_below(NBIDX), len);
}
static int idx_class(idx_t i, long len)
{
    idx_t n = i < 0 ? i + len : i;
    if (i > (idx_t) 1 << 30 || i < -((idx_t) 1 << 30)) return i < 0 ? 1 : 2;
    if (n < 0) return 3;
    if (n == 0) return i < 0 ? 4 : 5;
    if (n < len - 1) return i < 0 ? 6 : 7;
    if (n == len - 1) return i < 0 ? 8 : 9;
    if (n == len) return 10;
    return 11;
}

/* ---- reference slice semantics (Appendix A.1) ---- */
static int m_substr(long len, idx_t idx, idx_t cnt, long *from, long *n)
{
    if (idx < 0) idx += len;
    if (idx < 0 || idx >= len) return 0;
    if (cnt > 0) *n = cnt < len - idx ? (long) cnt : len - idx;
    else {
        idx_t k = (len - idx) + cnt;
        if (k < 0) return 0;
        *n = (long) k;
    }
    *from = (long) idx;
    return 1;
}

/* ---- representation invariant + text equality for one object ---- */
static void check_obj(slot_t *s, const char *op)
{
    obj_t o = s->o;
    idx_t len = F(get_len)(o), size = F(get_size)(o);
    char *t = (char *) o->s;
    vh_evals(1);
    if (len != o->len || size != o->size)
        vh_fail(key(op, "accessor"), "get_len/get_size %lld/%lld differ from fields %lld/%lld", (long long) len, (long long) size, (long long) o->len, (long long) o->size);
    if (len != s->mlen)
        vh_fail(key(op, "len"), "reported length %lld, ideal sequence has %ld (object text %s, ideal %s)", (long long) len, s->mlen,
                t ? vh_q(t, (long) strnlen(t, 60)) : "NULL", vh_q(s->m, s->mlen > 60 ? 60 : s->mlen));
    if (!t) {
        if (len != 0 || size != 0) vh_fail(key(op, "inv-null"), "s==NULL but len=%lld size=%lld", (long long) len, (long long) size);
        return;
    }
    if (size <= len) vh_fail(key(op, "inv-size"), "reported capacity %lld not greater than length %lld (text %s)", (long long) size, (long long) len, vh_q(s->m, s->mlen > 60 ? 60 : s->mlen));
    size_t a = vh_alloc_size(t);
    if (a && (size_t) size > a) vh_fail(key(op, "inv-alloc"), "reported capacity %lld exceeds the %zu bytes actually allocated (len %lld)", (long long) size, a, (long long) len);
    if (a && (size_t) len >= a) vh_fail(key(op, "inv-alloc"), "length %lld does not fit the %zu bytes allocated", (long long) len, a);
    if (len && memcmp(t, s->m, (size_t) len)) {
        long d = 0; while (t[d] == s->m[d]) d++;
        vh_fail(key(op, "text"), "text differs from the ideal sequence at offset %ld of %lld: object ..%s, ideal ..%s", d, (long long) len,
                vh_q(t + (d > 8 ? d - 8 : 0), (len - d > 24 ? 24 : (long) len - d) + (d > 8 ? 8 : d)), vh_q(s->m + (d > 8 ? d - 8 : 0), (len - d > 24 ? 24 : (long) len - d) + (d > 8 ? 8 : d)));
    }
    if (t[len] != 0) vh_fail(key(op, "inv-nul"), "s[len] is 0x%02x, not NUL (len %lld size %lld)", (unsigned char) t[len], (long long) len, (long long) size);
}
static void check_all(const char *op)
{
    for (int i = 0; i < NPOOL; i++) if (pool[i].o) check_obj(&pool[i], op);
}

/* snapshot for "refused / query leaves the value bit-identical" */
typedef struct { char *s; idx_t len, size; uint64_t h; } snap_t;
static snap_t snap(obj_t o)
{
    snap_t x = { (char *) o->s, o->len, o->size, 0 };
    size_t a = o->s ? vh_alloc_size(o->s) : 0;
    size_t n = o->s ? (size_t) (o->len < 0 ? 0 : o->len + 1) : 0;     /* text and its terminator */
    if (a && n > a) n = a;
    x.h = o->s ? vh_hash_bytes(o->s, n, 1) : 0;
    return x;
}
static void check_snap(obj_t o, snap_t b, const char *op, const char *clause)
{
    snap_t a = snap(o);
    vh_evals(1);
    if (a.len != b.len || a.size != b.size || a.h != b.h)
        vh_fail(key(op, clause), "value changed: len %lld->%lld size %lld->%lld bytes %s", (long long) b.len, (long long) a.len, (long long) b.size, (long long) a.size, a.h == b.h ? "same" : "differ");
}
#endif
