"""C04: the three vector classes are one sorted multiset.  DESIGN.md §4 C04, App. A.3."""
import vf

EXH_CASES = 7 * 7
EXH_TOTAL = 7 ** 6


def build(flavor='asan'):
    return vf.build_harness('c04', flavor, ['c04.c'])


def rebuild_for_replay(rec):
    return build()


def run(chk):
    chk.run('asan', build(), chk.pick(1000, 60000))
    if not chk.quick():
        r = chk.run('exhaustive', build(), (EXH_CASES + vf.NCPU - 1) // vf.NCPU, args=['--mode', 'exh'], timeout=3000)
        n = r.counts.get('exh_sequences', 0)
        chk.cov['exhaustive_small_scope'] = ('all %d sequences of length 6 (prefixes = lengths 1..5) over insert/remove of 3 labels and dup, '
                                             'probing the 3 labels, both gaps, below-all and above-all after every step: %d run' % (EXH_TOTAL, n))
        if n != EXH_TOTAL and not r.violations:
            chk.inconclusive.append('exhaustive enumeration ran %d of %d sequences' % (n, EXH_TOTAL))
    chk.rule = ('case = one random history (1..60 vector operations; 1..30 distinct labels so duplicates, minimum, maximum and absent probes all '
                'occur; dup copies join the pool) applied in lock-step to array, linked_list, dlinked_list vectors and a reference multiset; '
                'after every operation each class is compared with the model on the return value and on a full read-back (count, fresh '
                'iterator incl. exhaustion, to_array, walk of the public struct: all must equal the ascending model sequence; find/contains '
                'of every label in play plus a probe below all and above all labels) and the structural invariants of C02(d) are checked; '
                'distinct = (size bucket, distinct-label bucket, previous mutator, operation, probe class, duplicate?) tuples')
    for name, m in (('insert', 500), ('remove', 300), ('find', 100), ('contains', 50), ('dup', 30), ('dup_empty', 3),
                    ('probe_on_empty', 20), ('probe_below_min', 30), ('probe_above_max', 30), ('probe_in_gap', 10), ('probe_single_element', 20),
                    ('removed_min', 30), ('removed_max', 30), ('removed_duplicate', 20), ('removed_only_element', 10),
                    ('insert_below_min', 30), ('insert_above_max', 30), ('insert_duplicate', 50),
                    ('op_after_remove', 100), ('op_after_dup', 20), ('iter_exhaustion_checks', 1000), ('struct_walks', 1000)):
        chk.require(name, m)
    chk.min_cases = 1000
    chk.coverage(build('cov'), 200)       # thorough tier: gcov line coverage of the anchored sources under this workload
