"""C01: str/ustr objects are faithful character-sequence values under any history."""
import os
import vf

SRCS = ['c01.c']
NTABLE = 6 * 17 * 2      # single-step table cases (c01_driver.h NTABLE)


def build(ustr=False):
    # the same driver compiled twice: spif_str_* and (with -DC01_USTR) spif_ustr_*
    return vf.build_harness('c01u' if ustr else 'c01', 'asan', SRCS, wraps=['read'],
                            cflags=(['-DC01_USTR'] if ustr else []) + ['-Wno-pointer-to-int-cast', '-Wno-format-extra-args'])


def rebuild_for_replay(rec):
    return build(ustr='h-c01u-' in os.path.basename(rec.get('exe', '')))


def run(chk):
    per = chk.pick(250, 25000)          # cases PER SHARD: quick ~4000 histories per class, thorough ~1e5
    for label, ustr in (('str', False), ('ustr', True)):
        chk.run(label, build(ustr), per)
    chk.rule = ('case < %d: one cell (base text in {never-filled, "", 1, 2, 5 chars, all blanks}) x (operation) x (route) of the exhaustive '
                'single-step table, every boundary index/count/argument applied to a fresh object; other cases: a random history of 1-60 '
                'operations over a pool of <=6 live objects from every constructor (every third history starts from a never-filled string '
                'with a forced first operation).  After every operation all live objects are compared with the model (text, length, '
                'NUL at length, capacity > length, allocation >= capacity) and a battery of queries runs on the target.  distinct = distinct '
                '(operation, route, state class of the target, argument class incl. index/count class, outcome accepted/refused/weak) and '
                '(substr index class, count class, state class) tuples' % NTABLE)
    chk.assumptions += ['C locale', 'both classes driven by the same source (harness/c01.c, -DC01_USTR for ustr); the class-table route uses the '
                        'SPIF_STR_* method macros of str.h, which dispatch on the object\'s own strclass table (ustr.h method macros and the '
                        'NEW_FROM_* macros of both headers do not compile; those slots are called through the strclass variable)',
                        'read() is wrapped for libast\'s own calls: short reads, EINTR and a stale errno are injected into new_from_fd/init_from_fd']
    chk.cov['single_step_table'] = ('enumerated completely in both tiers: {never-filled, "", "a", "aB", " aB1\\t", "   "} x {6 append/prepend forms, '
                                    'splice, splice_from_ptr, trim, reverse, upcase, downcase, clear, sprintf, done, dup, substr/substr_to_ptr} x 2 routes; '
                                    'splice and substr over the full 21 x 21 grid of boundary indices and counts (around the length, both signs, '
                                    '+-2^31, +-2^32+1, INT64_MIN/MAX)')
    chk.min_cases = 2 * 16 * per * 9 // 10
    chk.require('table_cases', 2 * NTABLE)
    chk.require('histories', 2 * 16 * (per - NTABLE // 16 - 1) * 8 // 10)
    for f in ('append', 'append_from_ptr', 'append_char', 'prepend', 'prepend_from_ptr', 'prepend_char'):
        chk.require('first_op_' + f, 40)
    for name, n in (('battery_on_null_text', 500), ('battery_on_big_text', 200), ('refused_positions', 1000), ('q_substr_refused', 1000),
                    ('q_absent_char', 1000), ('operand_fresh_empty', 200), ('self_as_argument', 20), ('reinit_after_done', 100),
                    ('route_table', 5000), ('route_direct', 5000), ('dup', 200), ('splice_negcnt_refused', 20),
                    ('fp_len_0', 5), ('fp_len_1', 5), ('fp_len_4094_4097', 20), ('fp_len_8191_8193', 20), ('fp_len_3x4096', 20),
                    ('fd_len_0', 5), ('fd_len_4094_4097', 20), ('fd_len_8191_8193', 20), ('fd_len_3x4096', 20),
                    ('fp_with_newline', 50), ('fp_without_newline', 50), ('fp_empty_stream', 3), ('fp_tmpfile', 50), ('fp_pipe', 20),
                    ('fd_pipe', 50), ('fd_memfd', 50), ('fd_eintr_injected', 30), ('fd_short_reads', 30), ('fd_stale_eintr', 10),
                    ('buff_size_lt_len', 30), ('buff_size_eq_len', 30), ('buff_size_gt_len', 30)):
        chk.require(name, n)
