"""C12: spiftool_split, the tok class, join and the word utilities against one reference quoting grammar."""
import os, subprocess, tempfile, shutil
import vf


def build(flavor='asan'):
    return vf.build_harness('c12', flavor, ['c12.c'])


def rebuild_for_replay(rec):
    return build()


def probe_empty_token(exe):
    """Does spif_tok_eval survive an empty token ("")?  It calls spif_str_trim() on an empty string, which in an
    unrepaired str.c reads the byte before the buffer (a C01 defect, not C12's).  True = safe."""
    e = dict(os.environ)
    e.update(vf.ASAN_ENV)
    d = tempfile.mkdtemp(prefix='c12probe-', dir=vf.BUILD)
    try:
        p = subprocess.run([exe, '--probe-trim', '--out', d], stdout=subprocess.PIPE, stderr=subprocess.PIPE, env=e, timeout=60, cwd=d)
        return p.returncode == 0 and b'PROBE-OK' in p.stdout, p.stderr.decode('utf-8', 'replace')
    except subprocess.TimeoutExpired:
        return False, 'probe timed out'
    finally:
        shutil.rmtree(d, ignore_errors=True)


def run(chk):
    exe = build()
    L = chk.pick(6, 8)
    E = sum(6 ** k for k in range(L + 1))
    n = vf.NCPU
    per = (E + n - 1) // n + chk.pick(6000, 62500)        # the whole grid + 2e4 / 1e6 random strings
    safe, why = probe_empty_token(exe)
    args = [] if safe else ['--no-empty-tok']
    r = chk.run('asan', exe, per, args=args)
    chk.rule = ('case = one input string: every string of length <= %d over {a, SPACE, ", \', \\, :} (%d strings, enumerated completely) plus random '
                'strings up to 2 kB over a wider alphabet; each is split and tokenised under the delimiter sets {default, ":", ": "} and compared with a '
                'reference tokenizer written from the statement, split vs tok token for token, join+split round trip of the plain tokens, and '
                'num_words/get_word/get_pword for every index 0..num_words+1 against the word grammars; distinct = distinct small strings, and '
                '(delimiter set, token count, grammar features, length class) classes for random strings' % (L, E))
    complete = r.counts.get('grid_strings') == E and not r.violations
    chk.exhaustive = bool(complete and safe)
    chk.cov['exhaustive_over'] = ('all %d strings of length <= %d over the 6-symbol alphabet x 3 delimiter sets for split, tok, join and the word utilities' % (E, L)) + \
        ('' if safe else ' -- EXCEPT tok on inputs with an empty token (see assumptions)')
    chk.assumptions += ['C locale', 'get_word text: a backslash directly before a quote may be kept or dropped (statement silent); word BOUNDARIES of num_words and get_word must agree',
                        'get_pword may point at the word or just after its opening quote; NULL for a lone quote at the very end of the string',
                        'tok tokens are compared after trimming both sides (tok trims, split does not)']
    if not safe:
        chk.assumptions.append('spif_str_trim() of an empty string is unsafe in this tree (str.c, property C01): tok is NOT driven on inputs whose token list '
                               'contains an empty token (%d inputs skipped); split is still checked on them' % r.counts.get('tok_skipped_empty_token', 0))
        err = [l for l in why.splitlines() if 'ERROR:' in l or 'runtime error' in l]
        chk.cov['tok_empty_token_probe'] = 'unsafe: ' + (err[0].strip()[:200] if err else 'probe did not finish')
    else:
        chk.cov['tok_empty_token_probe'] = 'safe'
        chk.require('tok_empty_token_inputs', 1000)
    chk.require('grid_strings', E)
    chk.require('random_strings', 1000)
    chk.require('random_strings_over_300', 100)
    chk.require('split_calls', 3 * E)
    chk.require('tok_evals', E)
    chk.require('join_roundtrips', 10000)
    chk.require('word_inputs', E)
    chk.require('pword_checked', E)
    chk.require('inputs_with_empty_token', 1000)
    chk.require('inputs_with_escaped_delimiter', 1000)
    chk.require('inputs_with_escaped_closing_quote', 1000)
    chk.require('inputs_with_foreign_quote_in_group', 1000)
    chk.require('inputs_with_unclosed_group', 1000)
    chk.require('inputs_ending_in_backslash_explicit_delims', 1000)
    chk.require('inputs_ending_in_backslash_default_delims', 1000)
    chk.require('word_inputs_backslash_quote', 1000)
    chk.require('word_inputs_rule_sensitive', 500)
    chk.require('word_inputs_ending_in_backslash', 1000)
    if not chk.quick():
        chk.require('many_tokens_cases', 1)      # 66000 tokens: more than a 16-bit counter holds (split only)
    chk.min_cases = E
    chk.coverage(build('cov'), 300)       # thorough tier: gcov line coverage of the anchored sources under this workload
