/* C01: constructors / re-initialisers, including the stream and descriptor readers, and
 * the wrapped read() that injects short reads and EINTR into libast's own read calls. */
#ifndef C01_CTOR_H
#define C01_CTOR_H

static struct { int armed, plan[8], nplan, calls, eof_calls; } rd;
ssize_t __real_read(int fd, void *buf, size_t n);
ssize_t __wrap_read(int fd, void *buf, size_t n)
{
    if (!rd.armed) return __real_read(fd, buf, n);
    int k = rd.calls++;
    if (rd.calls > 200000) vh_fail(key("init_from_fd", "spin"), "more than 200000 read() calls for one construction");
    int act = k < rd.nplan ? rd.plan[k] : 0;
    if (act == 2) { vh_count("fd_eintr_injected", 1); errno = EINTR; return -1; }
    if (act == 1 && n > 1) { n = 1 + (size_t) ((k * 977 + 13) % (n - 1 < 700 ? n - 1 : 700)); }
    ssize_t got = __real_read(fd, buf, n);
    if (act == 1 && got > 0) vh_count("fd_short_reads", 1);
    if (got == 0 && ++rd.eof_calls > 3)
        vh_fail(key("init_from_fd", "spin"), "read() returned 0 (end of input) %d times and the constructor keeps reading (errno is a stale %d)", rd.eof_calls, errno);
    return got;
}

static long gen_stream_len(const char **cls)
{
    static const long L[] = { 0, 1, 4094, 4095, 4096, 4097, 8191, 8192, 8193, 3 * 4096 - 1, 3 * 4096, 3 * 4096 + 1, 3 * 4096 + 2 };
    static const char *const C[] = { "0", "1", "4094_4097", "4094_4097", "4094_4097", "4094_4097", "8191_8193", "8191_8193", "8191_8193", "3x4096", "3x4096", "3x4096", "3x4096" };
    if (vh_coin(65)) { int k = (int) vh_below(13); *cls = C[k]; return L[k]; }
    *cls = "other";
    return vh_coin(60) ? vh_range(2, 120) : vh_range(120, 16000);
}

static void write_all(int fd, const char *p, long n)
{
    while (n > 0) { ssize_t w = write(fd, p, (size_t) n); if (w <= 0) { if (errno == EINTR) continue; vh_fail("harness:write", "write failed errno %d", errno); } p += w; n -= w; }
}

/* Build slot s by constructor form `form` through route r.  If s->o is set the object has been
 * done() and is re-initialised in place with the matching init_* method. */
enum { CF_NEW, CF_PTR, CF_BUFF, CF_NUM, CF_FP, CF_FD, NCF };
static const char *const CFNAME[] = { "new", "new_from_ptr", "new_from_buff", "new_from_num", "new_from_fp", "new_from_fd" };
static const char *const IFNAME[] = { "init", "init_from_ptr", "init_from_buff", "init_from_num", "init_from_fp", "init_from_fd" };

static void construct(slot_t *s, int si, int form, int r)
{
    int re = s->o != NULL;
    const char *opn = re ? IFNAME[form] : CFNAME[form];
    obj_t o = s->o;
    spif_bool_t ok = TRUE;
    int weak_empty = 0;
    char nm[40];
    snprintf(nm, sizeof nm, "ctor_%s", opn);
    vh_count(nm, 1);
    vh_count(r ? "route_table" : "route_direct", 1);
    switch (form) {
        case CF_NEW:
            vh_op("s%d %s() r%d", si, opn, r);
            if (re) ok = c_init(r, o); else o = c_new(r);
            m_set(s, "", 0);
            break;
        case CF_PTR: {
            long n; char *t = gen_text_class(gen_tc(), &n);
            vh_op("s%d %s(%s) r%d", si, opn, vh_q(t, n > 60 ? 60 : n), r);
            if (re) ok = c_init_from_ptr(r, o, t); else o = c_new_from_ptr(r, t);
            m_take(s, t, n);
            break;
        }
        case CF_BUFF: {
            long L; char *t = gen_text_class(gen_tc(), &L);
            long n; int k = (int) vh_below(6);
            if (k == 5) {       /* no buffer at all, with a size of zero or a few bytes: an empty text that is still a well-formed object */
                n = vh_coin(50) ? 0 : vh_range(1, 20);
                vh_op("s%d %s(NULL, %ld) r%d", si, opn, n, r);
                vh_count("buff_null", 1);
                if (re) ok = c_init_from_buff(r, o, NULL, n); else o = c_new_from_buff(r, NULL, n);
                m_set(s, "", 0);
                free(t);
                break;
            }
            n = k == 0 ? 0 : k == 1 ? (L ? (long) vh_below((uint64_t) L) : 0) : k == 2 ? L : k == 3 ? L + 1 : L + vh_range(2, 40);
            char *b = n <= L ? vh_heapdup(t, (size_t) n) : vh_heapstr(t);        /* exact-size block: n bytes without NUL, or the whole string */
            vh_op("s%d %s(%s, %ld) text length %ld r%d", si, opn, vh_q(t, L > 60 ? 60 : L), n, L, r);
            vh_count(n < L ? "buff_size_lt_len" : n == L ? "buff_size_eq_len" : "buff_size_gt_len", 1);
            if (re) ok = c_init_from_buff(r, o, b, n); else o = c_new_from_buff(r, b, n);
            free(b);
            m_set(s, t, n < L ? n : L);
            free(t);
            break;
        }
        case CF_NUM: {
            long v; char buf[32];
            switch (vh_below(7)) { case 0: v = 0; break; case 1: v = 1; break; case 2: v = -1; break; case 3: v = LONG_MIN; break; case 4: v = LONG_MAX; break;
                                   case 5: v = vh_range(-100000, 100000); break; default: v = (long) vh_next(); break; }
            vh_op("s%d %s(%ld) r%d", si, opn, v, r);
            if (re) ok = c_init_from_num(r, o, v); else o = c_new_from_num(r, v);
            snprintf(buf, sizeof buf, "%ld", v);
            m_set(s, buf, (long) strlen(buf));
            break;
        }
        case CF_FP: {
            const char *cls; long L = gen_stream_len(&cls);
            int nl = vh_coin(55), tail = nl && vh_coin(40) ? (int) vh_range(1, 5000) : 0, viapipe = vh_coin(25);
            char *line = m_alloc(L); fill_random(line, L, 0);
            char *rest = m_alloc(tail); fill_random(rest, tail, 1);
            FILE *fp; int pfd[2] = { -1, -1 };
            if (viapipe) {
                if (pipe(pfd)) vh_fail("harness:pipe", "pipe failed");
                write_all(pfd[1], line, L); if (nl) write_all(pfd[1], "\n", 1); write_all(pfd[1], rest, tail);
                close(pfd[1]);
                fp = fdopen(pfd[0], "r");
            } else {
                fp = tmpfile();
                if (!fp) vh_fail("harness:tmpfile", "tmpfile failed errno %d", errno);
                if (L) fwrite(line, 1, (size_t) L, fp);
                if (nl) fputc('\n', fp);
                if (tail) fwrite(rest, 1, (size_t) tail, fp);
                rewind(fp);
            }
            vh_op("s%d %s(%s: line of %ld bytes%s, then %d more bytes) r%d", si, opn, viapipe ? "pipe stream" : "tmpfile", L, nl ? " + newline" : ", no newline", tail, r);
            snprintf(nm, sizeof nm, "fp_len_%s", cls); vh_count(nm, 1);
            vh_count(nl ? "fp_with_newline" : "fp_without_newline", 1);
            vh_count(viapipe ? "fp_pipe" : "fp_tmpfile", 1);
            if (L == 0 && !nl) { weak_empty = 1; vh_count("fp_empty_stream", 1); }
            if (re) ok = c_init_from_fp(r, o, fp); else o = c_new_from_fp(r, fp);
            fclose(fp);
            m_take(s, line, L);
            free(rest);
            break;
        }
        default: {
            const char *cls; long L = gen_stream_len(&cls);
            int memfd = vh_coin(50), fd, pfd[2];
            char *t = m_alloc(L); fill_random(t, L, 1);
            if (memfd) {
                fd = memfd_create("c01", 0);
                if (fd < 0) vh_fail("harness:memfd", "memfd_create failed errno %d", errno);
                write_all(fd, t, L);
                lseek(fd, 0, SEEK_SET);
            } else {
                if (pipe(pfd)) vh_fail("harness:pipe", "pipe failed");
                if (L > 60000) fcntl(pfd[1], F_SETPIPE_SZ, 1 << 20);
                write_all(pfd[1], t, L);
                close(pfd[1]);
                fd = pfd[0];
            }
            memset(&rd, 0, sizeof rd);
            if (vh_coin(40)) { rd.nplan = (int) vh_range(1, 8); for (int i = 0; i < rd.nplan; i++) rd.plan[i] = (int) vh_below(3); }
            int stale = (int) vh_below(8);
            vh_op("s%d %s(%s holding %ld bytes; read plan %d:%d%d%d%d%d%d%d%d; errno before the call %s) r%d", si, opn, memfd ? "memfd" : "pipe", L, rd.nplan,
                  rd.plan[0], rd.plan[1], rd.plan[2], rd.plan[3], rd.plan[4], rd.plan[5], rd.plan[6], rd.plan[7], stale == 0 ? "EINTR" : stale == 1 ? "EAGAIN" : "0", r);
            snprintf(nm, sizeof nm, "fd_len_%s", cls); vh_count(nm, 1);
            vh_count(memfd ? "fd_memfd" : "fd_pipe", 1);
            if (stale == 0) vh_count("fd_stale_eintr", 1);
            if (L == 0) { weak_empty = 1; vh_count("fd_empty_input", 1); }
            rd.armed = 1;
            errno = stale == 0 ? EINTR : stale == 1 ? EAGAIN : 0;
            if (re) ok = c_init_from_fd(r, o, fd); else o = c_new_from_fd(r, fd);
            rd.armed = 0;
            close(fd);
            m_take(s, t, L);
            break;
        }
    }
    vh_evals(1);
    if (weak_empty && (re ? !ok : !o)) {
        /* Appendix A.1: an empty input may yield an empty object or a refused construction */
        vh_count("empty_input_refused", 1);
        if (re) c_init(0, o);
    } else if (re ? !ok : !o)
        vh_fail(key(opn, "failed"), "%s returned %s for a legal argument", opn, re ? "FALSE" : "NULL");
    s->o = o;
    if (!o) { m_take(s, NULL, 0); return; }
    if (!IS_MY_CLASS(o)) vh_fail(key(opn, "class"), "constructed object is not of class " CLASSNAME);
    check_obj(s, opn);
    COV(vh_mix(vh_mix(0xc7, (uint64_t) (form * 4 + r * 2 + re)), (uint64_t) state_class(s)));
}
#endif
