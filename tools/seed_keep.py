#!/usr/bin/env python3
"""tools/seed_keep.py <seed-dir> <PROP> [PROP...] : run tools/seed_eval.sh and, if the seed is confirmed
(applies, tests still pass, demo passes clean and fails mutated), store it as /verif/seeded/<name>/ with what was run."""
import sys, os, json, subprocess, shutil
ROOT = os.path.dirname(os.path.dirname(os.path.abspath(__file__)))
seed = os.path.abspath(sys.argv[1]); props = sys.argv[2:]
out = subprocess.run([os.path.join(ROOT, 'tools', 'seed_eval.sh'), seed] + props, stdout=subprocess.PIPE, text=True).stdout.strip().splitlines()[-1]
res = json.loads(out)
name = os.path.basename(seed)
confirmed = res['applied'] and res['tests_still_pass'] and res['demo_clean_exit'] == '0' and res['demo_mutant_exit'] not in ('0', 'NA')
print(json.dumps(res))
if not confirmed:
    print('NOT CONFIRMED -> not kept'); sys.exit(1)
dst = os.path.join(ROOT, 'seeded', name)
os.makedirs(dst, exist_ok=True)
for f in ('patch.diff', 'demo.c', 'build_demo.sh'):
    if os.path.exists(os.path.join(seed, f)):
        shutil.copy(os.path.join(seed, f), dst)
for f in os.listdir(seed):
    if f.endswith(('.c', '.h', '.sh', '.conf', '.txt')) and not os.path.exists(os.path.join(dst, f)):
        shutil.copy(os.path.join(seed, f), dst)
meta = {}
try:
    meta = json.load(open(os.path.join(seed, 'meta.json')))
except Exception:
    pass
meta['confirmed_by_me'] = {'how': 'tools/seed_eval.sh: patch applied to a scratch copy of /repo HEAD, tools/baseline.sh (119 stable tests), build_demo.sh on clean and mutated copy, then bin/check <ID> --tier quick with LIBAST_SRC=<mutated copy>',
                           'tests_still_pass': res['tests_still_pass'], 'demo_clean_exit': res['demo_clean_exit'], 'demo_mutant_exit': res['demo_mutant_exit'],
                           'repo_head': subprocess.run(['git', '-C', '/repo', 'rev-parse', '--short', 'HEAD'], stdout=subprocess.PIPE, text=True).stdout.strip()}
meta['checks_run'] = res['checks']
meta['detected_by'] = [p for p, r in res['checks'].items() if r['exit'] == '1']
json.dump(meta, open(os.path.join(dst, 'meta.json'), 'w'), indent=1)
print('kept', dst, 'detected_by', meta['detected_by'])
