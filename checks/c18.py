"""C18: built-in hash functions vs reference definitions."""
import vf

GRID = 73 * 4 * 4


def build():
    return vf.build_harness('c18', 'asan-noalign', ['c18.c'])


def rebuild_for_replay(rec):
    return build()


def run(chk):
    exe = build()
    n = vf.NCPU
    per = (GRID + n - 1) // n            # the whole stated grid ...
    per += chk.pick(400, 60000)            # ... plus random (length, seed, content) cases per shard
    chk.run('asan', exe, per)
    chk.rule = ('case = (length, seed class, content class) from the stated grid (73 lengths x 4 seeds x 4 contents, enumerated '
                'completely) plus random cases; each case evaluates all 6 hashes at 8 alignments in 3 placements (exact-size heap '
                'block, changing surroundings, guard pages) against independent reference definitions; distinct = distinct '
                '(hash function, alignment, length, seed class, content class) tuples')
    chk.exhaustive = True
    chk.cov['exhaustive_over'] = 'grid of lengths {0..64,95..97,127..129,1000,4099} x 8 alignments x 4 seed classes x 4 content classes x 6 functions'
    chk.assumptions += ['-fsanitize=alignment off in this harness (jenkins32 takes 32-bit words by contract; x86 tolerates misaligned loads)',
                        'little-endian host']
    chk.require('grid_cases', GRID)
    chk.require('guard_page_evals', 1000)
    chk.require('same_address_changed_content_evals', 10000)
    chk.require('jenkins_eq_LE', GRID)
    chk.min_cases = GRID
    chk.coverage(vf.build_harness('c18', 'cov', ['c18.c']), 80, ['src/builtin_hashes.c'])
