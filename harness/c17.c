/* C17: spiftool_version_compare is a safe, deterministic, antisymmetric order.
 * DESIGN.md §4 C17, Appendix A.7.
 *
 * Case index -> pair (deterministic):
 *   [0, E*E)   every ordered pair of strings of length <= L over {a,b,1,2,.,-}  (L = 3 quick, 4 thorough; E = #strings)
 *   >= E*E     random pairs: well-formed versions n(.n)*[word[n]] (strong reference comparator, A.7),
 *              long runs (120..140 and 300..5000 letters/digits/punctuation), numeric extremes, arbitrary bytes
 * Every argument is an exact-size heap string.  Each direction of each pair is evaluated three times, after a
 * different stack-scribble pattern and a different prior call; the per-case digest of all answers is compared
 * across the asan / asan-pat / asan-zero builds by checks/c17.py.
 */
#define _GNU_SOURCE
#include <config.h>
#include <libast.h>
#include <errno.h>
#include "vh.h"

static const char SMALL[6] = { 'a', 'b', '1', '2', '.', '-' };
#define NSMALL 6

/* ------------------------------------------------------------------ reference comparator (A.7) */
enum { K_END, K_DIG, K_ALPHA, K_PUNCT };
static int klass(unsigned char c)
{
    if (!c) return K_END;
    if (c >= '0' && c <= '9') return K_DIG;
    if ((c >= 'a' && c <= 'z') || (c >= 'A' && c <= 'Z')) return K_ALPHA;
    return K_PUNCT;
}
static int lc(unsigned char c) { return (c >= 'A' && c <= 'Z') ? c + 32 : c; }
static int ci_cmp(const char *a, size_t na, const char *b, size_t nb)
{
    size_t n = na < nb ? na : nb;
    for (size_t i = 0; i < n; i++) { int d = lc((unsigned char) a[i]) - lc((unsigned char) b[i]); if (d) return d < 0 ? -1 : 1; }
    return na < nb ? -1 : na > nb ? 1 : 0;
}
static int ci_is(const char *a, size_t na, const char *w) { return na == strlen(w) && ci_cmp(a, na, w, na) == 0; }
static int word_rank(const char *a, size_t n)
{
    if (ci_is(a, n, "snap")) return 1;
    if (ci_is(a, n, "pre")) return 2;
    if (ci_is(a, n, "alpha")) return 3;
    if (ci_is(a, n, "beta")) return 4;
    if (ci_is(a, n, "rc")) return 5;
    return 6;
}
static int starts_ci(const char *a, const char *w)
{
    size_t n = strlen(w);
    return strlen(a) >= n && ci_cmp(a, n, w, n) == 0;
}
static int prerelease_tail(const char *a) { return starts_ci(a, "snap") || starts_ci(a, "pre") || starts_ci(a, "alpha") || starts_ci(a, "beta"); }

/* returns -1/0/1; *undefined is set when A.7 does not define the answer (runs of different classes meet) */
static int ref_cmp(const char *a, const char *b, int *undefined, int *used_tail, int *depth)
{
    *undefined = 0; *used_tail = 0; *depth = 0;
    while (*a && *b) {
        int ka = klass((unsigned char) *a), kb = klass((unsigned char) *b);
        if (ka != kb) { *undefined = 1; return 0; }
        const char *ea = a, *eb = b;
        while (klass((unsigned char) *ea) == ka) ea++;
        while (klass((unsigned char) *eb) == kb) eb++;
        int c = 0;
        if (ka == K_DIG) {
            const char *xa = a, *xb = b;
            while (xa < ea - 1 && *xa == '0') xa++;
            while (xb < eb - 1 && *xb == '0') xb++;
            size_t la = (size_t) (ea - xa), lb = (size_t) (eb - xb);
            if (la != lb) c = la < lb ? -1 : 1;
            else { int m = memcmp(xa, xb, la); c = m < 0 ? -1 : m > 0 ? 1 : 0; }
        } else if (ka == K_ALPHA) {
            int ra = word_rank(a, (size_t) (ea - a)), rb = word_rank(b, (size_t) (eb - b));
            if (ra != rb) c = ra < rb ? -1 : 1;
            else if (ra == 6) c = ci_cmp(a, (size_t) (ea - a), b, (size_t) (eb - b));
        } else c = ci_cmp(a, (size_t) (ea - a), b, (size_t) (eb - b));
        if (c) return c;
        a = ea; b = eb; (*depth)++;
    }
    if (*a) { *used_tail = 1; return prerelease_tail(a) ? -1 : 1; }
    if (*b) { *used_tail = 1; return prerelease_tail(b) ? 1 : -1; }
    return 0;
}

/* ------------------------------------------------------------------ the monitored call */
static int norm(spif_cmp_t c, const char *a, const char *b)
{
    if (c == SPIF_CMP_LESS) return -1;
    if (c == SPIF_CMP_EQUAL) return 0;
    if (c == SPIF_CMP_GREATER) return 1;
    vh_fail("version_compare:result-range", "version_compare(%s, %s) returned %d, not one of LESS/EQUAL/GREATER", vh_qs(a), vh_qs(b), (int) c);
}

static char *prior_a[3], *prior_b[3];
static void init_priors(void)
{
    char la[120], lb[120];
    memset(la, 'z', 100); la[100] = 0; memset(lb, 'z', 100); lb[99] = 'y'; lb[100] = 0;
    prior_a[0] = vh_heapstr("1.0");        prior_b[0] = vh_heapstr("1.0.1");
    prior_a[1] = vh_heapstr(la);           prior_b[1] = vh_heapstr(lb);
    prior_a[2] = vh_heapstr("99999999--"); prior_b[2] = vh_heapstr("99999999-+");
}
static const int SCRIBBLE[3] = { 0x00, 0xff, 0x41 };
static const int ERRNO_BEFORE[3] = { 0, ERANGE, EINTR };

/* one direction, three evaluations under different leftover stack contents / prior calls; all answers must agree */
static int eval3(const char *a, const char *b, uint64_t *dig)
{
    int r[3];
    for (int k = 0; k < 3; k++) {
        vh_op("version_compare(%s, %s) after stack fill 0x%02x and prior call #%d", vh_qs(a), vh_qs(b), SCRIBBLE[k], k);
        vh_stack_scribble(SCRIBBLE[k]);
        if (k != 2) (void) spiftool_version_compare((spif_charptr_t) prior_a[k], (spif_charptr_t) prior_b[k]);
        else { vh_stack_scribble(SCRIBBLE[k]); }
        errno = ERRNO_BEFORE[k];            /* what an unrelated earlier library call may have left behind */
        if (VH_GUARD_TRY(3)) { r[k] = norm(spiftool_version_compare((spif_charptr_t) a, (spif_charptr_t) b), a, b); vh_guard_end(); }
        else vh_fail("version_compare:non-termination", "version_compare(%s, %s) used more than 3 s of CPU time (a linear scan of %zu + %zu bytes)", vh_qs(a), vh_qs(b), strlen(a), strlen(b));
        vh_evals(1);
        *dig = vh_mix(*dig, (uint64_t) (r[k] + 2));
        if (k > 0)
            VH_CHECK(r[k] == r[0], "version_compare:determinism", "version_compare(%s, %s) = %d after stack fill 0x%02x / prior call #0 but %d after stack fill 0x%02x / prior call #%d",
                     vh_qs(a), vh_qs(b), r[0], SCRIBBLE[0], r[k], SCRIBBLE[k], k);
    }
    /* the same two addresses in two consecutive calls, their contents exchanged in between: the answer is a function of the text, not of
     * where it lives or of what was compared there before */
    {
        size_t la = strlen(a), lb = strlen(b), cap = (la > lb ? la : lb) + 1;
        char *ba = malloc(cap), *bb = malloc(cap);
        memcpy(ba, a, la + 1); memcpy(bb, b, lb + 1);
        int s1 = norm(spiftool_version_compare((spif_charptr_t) ba, (spif_charptr_t) bb), a, b);
        memcpy(ba, b, lb + 1); memcpy(bb, a, la + 1);
        int s2 = norm(spiftool_version_compare((spif_charptr_t) ba, (spif_charptr_t) bb), b, a);
        int s3 = norm(spiftool_version_compare((spif_charptr_t) b, (spif_charptr_t) a), b, a);
        vh_evals(3);
        vh_count("same_addresses_exchanged_contents", 1);
        free(ba); free(bb);
        VH_CHECK(s1 == r[0], "version_compare:determinism", "version_compare(%s, %s) = %d, but %d for the same text at other addresses", vh_qs(a), vh_qs(b), r[0], s1);
        VH_CHECK(s2 == s3, "version_compare:determinism", "two consecutive calls with the same two addresses, contents exchanged in between: second call (now %s vs %s) = %d, the same texts at their own addresses give %d",
                 vh_qs(b), vh_qs(a), s2, s3);
    }
    return r[0];
}

/* ------------------------------------------------------------------ generators */
static size_t small_count(int L) { size_t n = 0, p = 1; for (int k = 0; k <= L; k++) { n += p; p *= NSMALL; } return n; }
static void small_decode(long k, char *out)
{
    long len = 0, pw = 1;
    while (k >= pw) { k -= pw; pw *= NSMALL; len++; }
    for (long i = 0; i < len; i++) { out[i] = SMALL[k % NSMALL]; k /= NSMALL; }
    out[len] = 0;
}

typedef struct { char *p; size_t n, cap; } sb_t;
static void sb_add(sb_t *s, const char *t, size_t n)
{
    if (s->n + n + 1 > s->cap) { s->cap = (s->n + n + 1) * 2; s->p = realloc(s->p, s->cap); }
    memcpy(s->p + s->n, t, n); s->n += n; s->p[s->n] = 0;
}
static void sb_adds(sb_t *s, const char *t) { sb_add(s, t, strlen(t)); }
static void sb_fill(sb_t *s, int c, size_t n) { for (size_t i = 0; i < n; i++) { char ch = (char) c; sb_add(s, &ch, 1); } }

static const char *PREWORDS[] = { "snap", "pre", "alpha", "beta", "rc" };
static const char *OTHERWORDS[] = { "a", "b", "p", "final", "patch", "rel", "x", "dev", "Final", "P", "git", "z", "fin", "finals", "patched", "release", "pat", "de" };

/* suffix words are matched without regard to case: a quarter of them are spelled with capitals (all, first letter, or mixed) */
static void sb_add_word(sb_t *s, const char *w)
{
    int mode = vh_coin(25) ? (int) vh_range(1, 3) : 0;
    for (size_t i = 0; w[i]; i++) {
        char c = w[i];
        if (c >= 'a' && c <= 'z' && (mode == 1 || (mode == 2 && i == 0) || (mode == 3 && vh_coin(50)))) c = (char) (c - 'a' + 'A');
        sb_add(s, &c, 1);
    }
    if (mode) vh_count("suffix_words_with_capitals", 1);
}

static void gen_number(sb_t *s)
{
    char t[40];
    int m = (int) vh_below(100);
    if (m < 55) snprintf(t, sizeof t, "%ld", vh_range(0, 12));
    else if (m < 80) snprintf(t, sizeof t, "%ld", vh_range(0, 120));
    else if (m < 88) snprintf(t, sizeof t, "%ld", vh_range(0, 99999999));
    else if (m < 90) snprintf(t, sizeof t, "0%ld", vh_range(0, 99));                 /* leading zero */
    else if (m < 92) { snprintf(t, sizeof t, "%0*ld", (int) vh_range(19, 30), vh_coin(70) ? vh_range(0, 120) : vh_range(0, 999999999999L)); vh_count("zero_padded_components_of_19_to_30_digits", 1); }   /* many leading zeros: still a small number */
    else if (m < 96) snprintf(t, sizeof t, "%ld", 2147483640L + vh_range(0, 16));   /* around 2^31 */
    else snprintf(t, sizeof t, "%ld", vh_range(1000000000L, 999999999999999999L)); /* 10..18 digits */
    sb_adds(s, t);
}
typedef struct { int ncomp; int word; int has_num; } wf_shape_t;   /* word: -1 none, 0..4 pre-release, 5 other */
static void gen_wf(sb_t *s, wf_shape_t *sh)
{
    sh->ncomp = (int) vh_range(1, 4);
    for (int i = 0; i < sh->ncomp; i++) { if (i) sb_adds(s, "."); gen_number(s); }
    sh->word = -1; sh->has_num = 0;
    if (vh_coin(55)) {
        if (vh_coin(70)) { sh->word = (int) vh_below(5); sb_add_word(s, PREWORDS[sh->word]); }
        else { sh->word = 5; sb_adds(s, OTHERWORDS[vh_below(sizeof OTHERWORDS / sizeof *OTHERWORDS)]); }
        if (vh_coin(60)) { sh->has_num = 1; gen_number(s); }
    }
}
/* b derived from a well-formed a by one edit that keeps it well-formed */
static void gen_wf_variant(const char *a, sb_t *s)
{
    /* split a into numeric head and suffix */
    size_t hl = 0; while (a[hl] && (klass((unsigned char) a[hl]) == K_DIG || a[hl] == '.')) hl++;
    const char *suf = a + hl;
    int which = (int) vh_below(7);
    if (which == 6) {                                                                /* an "other" word that shares a long prefix with a's word */
        const char *d = suf; while (klass((unsigned char) *d) == K_ALPHA) d++;
        size_t wl = (size_t) (d - suf);
        if (wl == 0 || word_rank(suf, wl) != 6) which = 2;
        else {
            sb_add(s, a, hl + wl);
            if (vh_coin(50)) { char c = (char) vh_range('a', 'z'); sb_add(s, &c, 1); }
            else { char c = s->p[s->n - 1]; s->p[s->n - 1] = (char) (c == 'z' ? 'y' : c == 'Z' ? 'Y' : c + 1); }
            if (vh_coin(70)) sb_adds(s, d);
            return;
        }
    }
    switch (which) {
    case 0: sb_add(s, a, hl); break;                                                /* bare version */
    case 1: sb_add(s, a, hl); sb_adds(s, "."); gen_number(s); if (vh_coin(30)) sb_adds(s, suf); break;   /* one more component */
    case 2: {                                                                        /* other suffix word, same number */
        sb_add(s, a, hl);
        if (vh_coin(70)) sb_add_word(s, PREWORDS[vh_below(5)]); else sb_adds(s, OTHERWORDS[vh_below(sizeof OTHERWORDS / sizeof *OTHERWORDS)]);
        const char *d = suf; while (klass((unsigned char) *d) == K_ALPHA) d++;
        if (*d && vh_coin(70)) sb_adds(s, d); else if (vh_coin(40)) gen_number(s);
        break;
    }
    case 3: {                                                                        /* same word, other number */
        const char *d = suf; while (klass((unsigned char) *d) == K_ALPHA) d++;
        sb_add(s, a, (size_t) (d - a));
        if (d != suf && vh_coin(80)) gen_number(s);
        break;
    }
    case 4: {                                                                        /* change the last numeric component of the head */
        size_t k = hl; while (k > 0 && a[k - 1] != '.') k--;
        sb_add(s, a, k); gen_number(s); sb_adds(s, suf);
        break;
    }
    default: sb_adds(s, a); break;                                                  /* identical text, other address */
    }
}

static int run_char(int k)
{
    static const char punct[] = ".-_+~:/ ";
    if (k == K_DIG) return (int) vh_range('0', '9');
    if (k == K_ALPHA) return vh_coin(85) ? (int) vh_range('a', 'z') : (int) vh_range('A', 'Z');
    return vh_coin(90) ? punct[vh_below(sizeof punct - 1)] : (int) vh_range(0x80, 0xff);
}
static size_t long_len(void)
{
    switch (vh_below(4)) {
    case 0: return (size_t) vh_range(120, 140);
    case 1: return (size_t) vh_range(126, 130);
    case 2: return (size_t) vh_range(300, 5000);
    default: return (size_t) vh_range(250, 262);
    }
}
/* a: 0..2 short runs, one long run, 0..2 short runs.  b: same text with a small change somewhere at/after the long run */
static void gen_long(sb_t *a, sb_t *b, size_t *runlen_a, size_t *runlen_b, int *kind)
{
    int k = (int) vh_range(K_DIG, K_PUNCT), kprev = 0;
    int pre = (int) vh_below(3), post = (int) vh_below(3);
    for (int i = 0; i < pre; i++) { int kk; do kk = (int) vh_range(K_DIG, K_PUNCT); while (kk == kprev || (i == pre - 1 && kk == k)); kprev = kk; size_t n = (size_t) vh_range(1, 3); for (size_t j = 0; j < n; j++) { char c = (char) run_char(kk); sb_add(a, &c, 1); } }
    sb_adds(b, a->p ? a->p : "");
    size_t n = long_len();
    int uniform = vh_coin(50), fillc = run_char(k);
    size_t start = a->n;
    for (size_t j = 0; j < n; j++) { char c = (char) (uniform ? fillc : run_char(k)); sb_add(a, &c, 1); }
    *runlen_a = n; *kind = k;
    /* b's long run */
    int m = (int) vh_below(6);
    size_t nb = n;
    if (m == 0) nb = n;                              /* identical run */
    else if (m == 1) nb = n + 1;
    else if (m == 2) nb = n - 1;
    else if (m == 3) nb = (size_t) vh_range(1, 5);   /* short on the other side */
    else if (m == 4) nb = long_len();
    sb_add(b, a->p + start, nb < n ? nb : n);
    for (size_t j = n; j < nb; j++) { char c = (char) (uniform ? fillc : run_char(k)); sb_add(b, &c, 1); }
    if (m == 5 && nb > 0) b->p[b->n - 1 - vh_below(nb < 8 ? nb : 8)] = (char) run_char(k);   /* differ near the end of the run */
    *runlen_b = nb;
    kprev = k;
    sb_t tail = { 0 };
    for (int i = 0; i < post; i++) { int kk; do kk = (int) vh_range(K_DIG, K_PUNCT); while (kk == kprev); kprev = kk; size_t q = (size_t) vh_range(1, 3); for (size_t j = 0; j < q; j++) { char c = (char) run_char(kk); sb_add(&tail, &c, 1); } }
    if (tail.p) { sb_adds(a, tail.p); if (vh_coin(70)) sb_adds(b, tail.p); else { tail.p[tail.n - 1] = (char) run_char(kprev); sb_adds(b, tail.p); } free(tail.p); }
}

static void gen_arbitrary(sb_t *s)
{
    static const char *frag[] = { "snap", "pre", "alpha", "beta", "rc", "SNAP", "Pre", "alphabet", "prefix", "b", "1", "0", "10", "007", ".", "-", "..", "_", "~", "+", " ", "2147483648", "4294967296", "9223372036854775808", "\xe9", "\xff" };
    int n = (int) vh_range(0, 7);
    for (int i = 0; i < n; i++) {
        if (vh_coin(75)) sb_adds(s, frag[vh_below(sizeof frag / sizeof *frag)]);
        else { char c = (char) vh_range(1, 255); sb_add(s, &c, 1); }
    }
    if (!s->p) sb_adds(s, "");
}
static void gen_numeric(sb_t *s)
{
    static const char *big[] = { "2147483647", "2147483648", "2147483649", "4294967295", "4294967296", "4294967297", "9223372036854775807",
                                 "9223372036854775808", "18446744073709551616", "0", "1", "00000000000000000001", "99999999999999999999999999" };
    int n = (int) vh_range(1, 3);
    for (int i = 0; i < n; i++) {
        if (i) sb_adds(s, ".");
        if (vh_coin(70)) sb_adds(s, big[vh_below(sizeof big / sizeof *big)]);
        else sb_fill(s, (int) vh_range('1', '9'), (size_t) vh_range(1, 40));
    }
}

/* ------------------------------------------------------------------ one case */
enum { POP_SMALL, POP_WF, POP_LONG, POP_NUM, POP_ARB };
static const char *POPNAME[] = { "small_exhaustive", "wellformed", "long_runs", "numeric_extremes", "arbitrary" };

static void run_pair(const char *a0, const char *b0, int pop)
{
    char *a = vh_heapstr(a0), *b = vh_heapstr(b0);      /* exact-size: any read past the NUL is a sanitizer report */
    uint64_t dig = 0x17;
    int same = strcmp(a0, b0) == 0;
    int rab = eval3(a, b, &dig);
    int rba = eval3(b, a, &dig);
    vh_op("version_compare(a, a), (b, b)");
    int raa = norm(spiftool_version_compare((spif_charptr_t) a, (spif_charptr_t) a), a, a);
    int rbb = norm(spiftool_version_compare((spif_charptr_t) b, (spif_charptr_t) b), b, b);
    vh_evals(2);
    dig = vh_mix(dig, (uint64_t) ((raa + 2) * 4 + rbb + 2));
    VH_CHECK(memcmp(a, a0, strlen(a0) + 1) == 0 && memcmp(b, b0, strlen(b0) + 1) == 0, "version_compare:argument-changed", "version_compare modified an argument");
    VH_CHECK(raa == 0, "version_compare:reflexive", "version_compare(x, x) = %d for x = %s (same pointer)", raa, vh_qs(a));
    VH_CHECK(rbb == 0, "version_compare:reflexive", "version_compare(x, x) = %d for x = %s (same pointer)", rbb, vh_qs(b));
    if (same) VH_CHECK(rab == 0 && rba == 0, "version_compare:reflexive", "version_compare(%s, %s) = %d / %d for equal texts at different addresses", vh_qs(a), vh_qs(b), rab, rba);
    VH_CHECK(rab == -rba, "version_compare:antisymmetry", "version_compare(%s, %s) = %d but version_compare(%s, %s) = %d", vh_qs(a), vh_qs(b), rab, vh_qs(b), vh_qs(a), rba);
    int undef = 0, tail = 0, depth = 0, want = ref_cmp(a0, b0, &undef, &tail, &depth);
    if (pop == POP_WF) {
        if (!undef) {
            VH_CHECK(rab == want, "version_compare:order", "version_compare(%s, %s) = %d, reference order (A.7) says %d", vh_qs(a), vh_qs(b), rab, want);
            vh_count("wf_strong_pairs", 1);
            if (tail) vh_count("wf_tail_rule", 1);
            if (want == 0 && !same) vh_count("wf_equal_different_text", 1);
        } else vh_count("wf_mixed_class_weak", 1);
    }
    if (undef) vh_count("mixed_class_pairs", 1);
    vh_count(POPNAME[pop], 1);
    vh_digest(dig);
    /* coverage: small pairs individually; others by shape class */
    if (pop == POP_SMALL) vh_cov(vh_hash_str(b0, vh_hash_str(a0, 11)));
    else {
        size_t la = strlen(a0), lb = strlen(b0);
        int lca = la < 8 ? 0 : la < 120 ? 1 : la < 128 ? 2 : la < 256 ? 3 : 4, lcb = lb < 8 ? 0 : lb < 120 ? 1 : lb < 128 ? 2 : lb < 256 ? 3 : 4;
        vh_cov(vh_mix(vh_mix((uint64_t) pop, (uint64_t) (lca * 5 + lcb)), (uint64_t) ((rab + 1) * 64 + undef * 32 + tail * 16 + (depth > 7 ? 7 : depth))));
    }
    if ((pop == POP_WF && vh_coin(3)) || (pop == POP_LONG && vh_coin(1) && strlen(a0) < 150) || (pop == POP_SMALL && vh_case_idx % 9973 == 0))
        vh_sample("version_compare(%s, %s) = %d%s", vh_qs(a0), vh_qs(b0), rab, pop == POP_WF ? (undef ? " (weak: mixed classes)" : " == reference") : "");
    free(a); free(b);
}

int main(int argc, char **argv)
{
    vh_init(argc, argv, "C17");
    init_priors();
    int L = strcmp(vh_tier, "thorough") == 0 ? 4 : 3;
    for (int i = 1; i + 1 < argc; i++) if (!strcmp(argv[i], "--L")) L = atoi(argv[i + 1]);      /* memcheck run: smaller grid */
    if (L < 0 || L > 4) L = 3;
    long E = (long) small_count(L), grid = E * E;
    while (vh_next_case()) {
        if (VH_CASE_TRY()) {
            long idx = vh_case_idx;
            if (idx < grid) {
                char a[8], b[8];
                small_decode(idx / E, a); small_decode(idx % E, b);
                run_pair(a, b, POP_SMALL);
                vh_count("grid_pairs", 1);
            } else {
                sb_t a = { 0 }, b = { 0 };
                int m = (int) vh_below(100), pop;
                if (m < 45) {
                    wf_shape_t sa, sb2;
                    pop = POP_WF;
                    gen_wf(&a, &sa);
                    if (vh_coin(65)) gen_wf_variant(a.p, &b); else gen_wf(&b, &sb2);
                    if (vh_coin(50)) { sb_t t = a; a = b; b = t; }
                } else if (m < 70) {
                    size_t ra, rb; int kind;
                    pop = POP_LONG;
                    gen_long(&a, &b, &ra, &rb, &kind);
                    if (ra >= 128 || rb >= 128) vh_count("pairs_with_run_ge_128", 1);
                    if (ra >= 128 && rb >= 128) vh_count(kind == K_DIG ? "both_runs_ge_128_digits" : kind == K_ALPHA ? "both_runs_ge_128_letters" : "both_runs_ge_128_punct", 1);
                    if (ra >= 300 || rb >= 300) vh_count("pairs_with_run_ge_300", 1);
                    if (vh_coin(50)) { sb_t t = a; a = b; b = t; }
                } else if (m < 80) {
                    pop = POP_NUM;
                    gen_numeric(&a);
                    if (vh_coin(30)) sb_adds(&b, a.p); else gen_numeric(&b);
                } else {
                    pop = POP_ARB;
                    gen_arbitrary(&a);
                    if (vh_coin(25)) { sb_adds(&b, a.p); if (b.n && vh_coin(70)) b.p[vh_below(b.n)] = (char) vh_range(1, 255); }
                    else gen_arbitrary(&b);
                }
                if (!a.p) sb_adds(&a, "");
                if (!b.p) sb_adds(&b, "");
                run_pair(a.p, b.p, pop);
                free(a.p); free(b.p);
            }
        }
        vh_case_done();
    }
    return vh_finish();
}
