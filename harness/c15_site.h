/* One macro call site: included repeatedly by c15.c with SITE (index), SITE_FILE (string literal) and SITE_LINE defined.
 * No include guard on purpose. */
#define C15_CAT_(a, b) a##b
#define C15_CAT(a, b) C15_CAT_(a, b)
#line SITE_LINE SITE_FILE
static void *C15_CAT(site_malloc_, SITE)(size_t n, unsigned long *ln) { *ln = __LINE__; return MALLOC(n); }
static void *C15_CAT(site_calloc_, SITE)(size_t n, unsigned long *ln) { *ln = __LINE__; return CALLOC(c15_unit_t, n); }
static void *C15_CAT(site_realloc_, SITE)(void *mem, size_t n, unsigned long *ln) { *ln = __LINE__; return REALLOC(mem, n); }
static char *C15_CAT(site_strdup_, SITE)(const char *s, unsigned long *ln) { *ln = __LINE__; return (char *) STRDUP(s); }
static void C15_CAT(site_free_, SITE)(void **pp, unsigned long *ln) { void *ptr = *pp; *ln = __LINE__; FREE(ptr); *pp = ptr; }
static const char *C15_CAT(site_file_, SITE)(void) { return __FILE__; }
#undef C15_CAT
#undef C15_CAT_
