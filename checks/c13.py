"""C13: bounded (safe_strncpy/safe_strncat/substr) and in-place (chomp, condense_whitespace, case, safe_str, strrev) helpers."""
import vf

NA = 49 * 860                 # (size 1..40, source length 0..48, destination prefix 0..size)
NB = 13 * 29 * 29             # substr (len 0..12, idx -14..14, cnt -14..14)
NC = sum(6 ** k for k in range(7))   # strings of length <= 6 over a 6-symbol alphabet
GRID = NA + NB + NC


def build(flavor='asan'):
    # realloc is wrapped so that condense_whitespace() can be driven on an interior pointer (canary layout)
    return vf.build_harness('c13', flavor, ['c13.c'], wraps=['realloc'])


def rebuild_for_replay(rec):
    return build()


def run(chk):
    exe = build()
    n = vf.NCPU
    per = (GRID + n - 1) // n + chk.pick(3000, 1000000)      # the whole grid + random long cases per shard
    r = chk.run('asan', exe, per)
    chk.rule = ('case = one tuple of the three enumerated sets (strncpy/strncat: size 1..40 x source length 0..48 x destination prefix '
                '0..size; substr: len 0..12 x idx -14..14 x cnt -14..14; in-place helpers: every string of length <= 6 over '
                "{a,B,' ',TAB,0x01,0xe9}) plus random long cases; every call is made twice, on an exact-size heap block and inside a "
                'canary layout, and compared with a reference transformation; distinct = distinct (size, source length, prefix) / '
                '(len, idx, cnt) / input strings, random cases by boundary class')
    g = r.counts
    complete = (g.get('grid_strn') == NA and g.get('grid_substr') == NB and g.get('grid_inplace') == NC and not r.violations)
    chk.exhaustive = bool(complete)
    chk.cov['exhaustive_over'] = ('safe_strncpy/safe_strncat over (size 1..40, srclen 0..48, destlen 0..size) = %d triples; substr over '
                                  '(len 0..12, idx -14..14, cnt -14..14) = %d triples; chomp/condense_whitespace/downcase/upcase/safe_str/strrev '
                                  'over all %d strings of length <= 6 over a 6-symbol alphabet' % (NA, NB, NC))
    chk.assumptions += ['C locale character classes', 'safe_str is called with len <= strlen (len is the buffer length by contract)',
                        'substr with a negative count larger than the remainder is a weak region (refusal or an in-range slice)',
                        'condense_whitespace: a leading whitespace run may become one blank or vanish (both accepted)',
                        'strncat on a destination with no terminator inside size bytes is a weak region (no change, or terminator forced into the last byte)']
    chk.require('grid_strn', NA)
    chk.require('grid_substr', NB)
    chk.require('grid_inplace', NC)
    chk.require('strncpy_truncating', 1000)
    chk.require('strncpy_exact_fit', 100)
    chk.require('strncat_truncating', 1000)
    chk.require('strncat_exact_fit', 100)
    chk.require('substr_slices', 1000)
    chk.require('substr_refused', 1000)
    chk.require('inplace_empty_string', 1)
    chk.require('inplace_all_whitespace', 100)
    chk.require('condense_realloc_intercepted', 1000)
    chk.require('shortening_results', 1000)
    chk.require('random_strn', 100)
    chk.require('random_inplace', 100)
    chk.min_cases = GRID
    chk.coverage(build('cov'), 600)       # thorough tier: gcov line coverage of the anchored sources under this workload
