#define _GNU_SOURCE
#include "vh.h"
#include <stdlib.h>
#include <string.h>
#include <stdarg.h>
#include <unistd.h>
#include <fcntl.h>
#include <errno.h>

vh_rng_t vh_rng;
int vh_verbose;
uint64_t vh_seed = 1;
long vh_case_idx = -1;
const char *vh_tier = "quick";
char vh_outdir[512] = ".";
int vh_shard = 0, vh_nshards = 1;
jmp_buf vh_case_env;

static const char *vh_prop = "C00";
static long vh_cases = 1, vh_start = 0, vh_only = -1, vh_upto = -1, vh_k = 0;
static int vh_progress_fd = -1;
static long vh_cases_run = 0, vh_nviol = 0, vh_nevals = 0;
static uint64_t vh_prop_hash;
#include <signal.h>
static volatile sig_atomic_t guard_fires;
void vh_guard_end(void);

/* weak sanitizer interface */
extern size_t __sanitizer_get_allocated_size(const volatile void *p) __attribute__((weak));
extern int __sanitizer_get_ownership(const volatile void *p) __attribute__((weak));
extern size_t __sanitizer_get_current_allocated_bytes(void) __attribute__((weak));

uint64_t vh_splitmix(uint64_t *s)
{
    uint64_t z = (*s += 0x9e3779b97f4a7c15ULL);
    z = (z ^ (z >> 30)) * 0xbf58476d1ce4e5b9ULL;
    z = (z ^ (z >> 27)) * 0x94d049bb133111ebULL;
    return z ^ (z >> 31);
}
uint64_t vh_mix(uint64_t a, uint64_t b)
{
    uint64_t s = a ^ (b * 0xd6e8feb86659fd93ULL) ^ 0x2545f4914f6cdd1dULL;
    vh_splitmix(&s);
    return vh_splitmix(&s);
}
uint64_t vh_next(void) { return vh_splitmix(&vh_rng.s); }
uint64_t vh_below(uint64_t n) { return n ? vh_next() % n : 0; }
long vh_range(long lo, long hi) { if (hi <= lo) return lo; return lo + (long) vh_below((uint64_t) (hi - lo) + 1); }
int vh_coin(int pct) { return (int) vh_below(100) < pct; }

uint64_t vh_hash_bytes(const void *p, size_t n, uint64_t h)
{
    const unsigned char *b = p;
    h ^= 0xcbf29ce484222325ULL;
    for (size_t i = 0; i < n; i++) { h ^= b[i]; h *= 0x100000001b3ULL; }
    h ^= n; h *= 0x100000001b3ULL;
    return h;
}
uint64_t vh_hash_str(const char *s, uint64_t h) { return s ? vh_hash_bytes(s, strlen(s), h) : vh_hash_bytes("\xff", 1, h); }

/* ---------------- counters ---------------- */
#define MAXCNT 256
static struct { char name[48]; long n; } cnts[MAXCNT];
static int ncnts;
void vh_count(const char *name, long n)
{
    for (int i = 0; i < ncnts; i++) if (!strcmp(cnts[i].name, name)) { cnts[i].n += n; return; }
    if (ncnts < MAXCNT) { snprintf(cnts[ncnts].name, sizeof cnts[ncnts].name, "%s", name); cnts[ncnts].n = n; ncnts++; }
}
void vh_evals(long n) { vh_nevals += n; }

/* ---------------- coverage hash set ---------------- */
#define COVCAP (1u << 21)
static uint64_t *covset;
static size_t covn;
void vh_cov(uint64_t h)
{
    if (!covset) covset = calloc(COVCAP, sizeof *covset);
    if (!h) h = 1;
    if (covn >= COVCAP / 2) return;             /* saturated: count conservatively */
    size_t i = (size_t) (h * 0x9e3779b97f4a7c15ULL >> 43) & (COVCAP - 1);
    while (covset[i]) { if (covset[i] == h) return; i = (i + 1) & (COVCAP - 1); }
    covset[i] = h; covn++;
}

/* ---------------- samples ---------------- */
#define MAXSAMP 6
static char *samples[MAXSAMP];
static int nsamples;
static long sample_tick;
void vh_sample(const char *fmt, ...)
{
    /* keep the first two, then sparse later ones */
    sample_tick++;
    if (nsamples >= MAXSAMP) return;
    if (nsamples >= 2 && (sample_tick % 97) != 0) return;
    char buf[600]; va_list ap; va_start(ap, fmt); vsnprintf(buf, sizeof buf, fmt, ap); va_end(ap);
    samples[nsamples++] = strdup(buf);
}

/* ---------------- digest ---------------- */
static FILE *digest_fp;
void vh_digest(uint64_t d)
{
    if (!digest_fp) {
        char p[600]; snprintf(p, sizeof p, "%s/digest.%d", vh_outdir, vh_shard);
        digest_fp = fopen(p, "w");
        if (!digest_fp) return;
    }
    fprintf(digest_fp, "%ld %016llx\n", vh_case_idx, (unsigned long long) d);
}

/* ---------------- journal ---------------- */
#define JN 48
#define JL 200
static char jring[JN][JL];
static long jcount;
void vh_op(const char *fmt, ...)
{
    char *slot = jring[jcount % JN];
    va_list ap; va_start(ap, fmt); vsnprintf(slot, JL, fmt, ap); va_end(ap);
    jcount++;
    if (vh_verbose) { fprintf(stderr, "  op[%ld] %s\n", jcount - 1, slot); fflush(stderr); }
}

static void json_str(FILE *f, const char *s)
{
    fputc('"', f);
    for (; *s; s++) {
        unsigned char c = (unsigned char) *s;
        if (c == '"' || c == '\\') { fputc('\\', f); fputc(c, f); }
        else if (c < 0x20 || c >= 0x7f) fprintf(f, "\\u%04x", c);
        else fputc(c, f);
    }
    fputc('"', f);
}

static void emit_v(const char *key, const char *detail)
{
    /* V <key> <case> <detail ; journal tail> -- single line, tabs/newlines squashed */
    char line[4096]; size_t o = 0;
    o += snprintf(line + o, sizeof line - o, "%s", detail);
    long from = jcount > 12 ? jcount - 12 : 0;
    o += snprintf(line + o, sizeof line - o, " || ops(%ld):", jcount);
    for (long j = from; j < jcount && o < sizeof line - 220; j++)
        o += snprintf(line + o, sizeof line - o, " [%ld] %s;", j, jring[j % JN]);
    for (char *c = line; *c; c++) if (*c == '\t' || *c == '\n' || *c == '\r') *c = ' ';
    printf("V\t%s\t%ld\t%s\n", key, vh_case_idx, line);
    fflush(stdout);
    vh_nviol++;
}

void vh_report(const char *key, const char *fmt, ...)
{
    char buf[1500]; va_list ap; va_start(ap, fmt); vsnprintf(buf, sizeof buf, fmt, ap); va_end(ap);
    emit_v(key, buf);
}
void vh_fail(const char *key, const char *fmt, ...)
{
    char buf[1500]; va_list ap; va_start(ap, fmt); vsnprintf(buf, sizeof buf, fmt, ap); va_end(ap);
    emit_v(key, buf);
    longjmp(vh_case_env, 1);
}

/* ---------------- quoting ---------------- */
const char *vh_q(const void *p, long n)
{
    static char bufs[6][400]; static int k;
    char *b = bufs[k++ % 6]; size_t o = 0;
    const unsigned char *s = p;
    if (!p) { strcpy(b, "NULL"); return b; }
    b[o++] = '"';
    for (long i = 0; i < n && o < 380; i++) {
        unsigned char c = s[i];
        if (c == '"' || c == '\\') { b[o++] = '\\'; b[o++] = c; }
        else if (c >= 0x20 && c < 0x7f) b[o++] = c;
        else o += snprintf(b + o, 6, "\\x%02x", c);
    }
    if (o >= 380) { b[o++] = '.'; b[o++] = '.'; }
    b[o++] = '"'; b[o] = 0;
    if (n > 40) snprintf(b + o, 16, "(%ld)", n);
    return b;
}
const char *vh_qs(const char *s) { return s ? vh_q(s, (long) strlen(s)) : "NULL"; }

char *vh_heapstr(const char *s) { size_t n = strlen(s) + 1; char *p = malloc(n); memcpy(p, s, n); return p; }
void *vh_heapdup(const void *p, size_t n) { void *q = malloc(n ? n : 1); if (n) memcpy(q, p, n); return q; }

int vh_have_asan(void) { return __sanitizer_get_allocated_size != 0; }
size_t vh_alloc_size(const void *p)
{
    if (!p || !__sanitizer_get_allocated_size || !__sanitizer_get_ownership) return 0;
    if (!__sanitizer_get_ownership(p)) return 0;
    return __sanitizer_get_allocated_size(p);
}
size_t vh_heap_bytes(void) { return __sanitizer_get_current_allocated_bytes ? __sanitizer_get_current_allocated_bytes() : 0; }

__attribute__((noinline)) void vh_stack_scribble(int byte)
{
    volatile char buf[24 * 1024];
    memset((char *) buf, byte, sizeof buf);
    __asm__ volatile("" : : "r"(buf) : "memory");
}

/* ---------------- CPU-time guard ---------------- */
static void emit_v(const char *key, const char *detail);
#include <sys/time.h>
sigjmp_buf vh_guard_env;
static volatile sig_atomic_t guard_armed;
int vh_case_cpu_budget = 120;
static volatile sig_atomic_t case_guard_armed;
static void guard_handler(int sig)
{
    (void) sig;
    if (guard_armed) { guard_armed = 0; guard_fires++; siglongjmp(vh_guard_env, 1); }
    if (case_guard_armed) {
        case_guard_armed = 0; guard_fires++;
        emit_v("case:cpu-budget", "the case used more than its CPU-time budget: an operation that does not terminate (or is slower than expected by orders of magnitude)");
        longjmp(vh_case_env, 1);
    }
}
void vh_guard_arm(int seconds)
{
    static int installed;
    if (!installed) { struct sigaction sa; memset(&sa, 0, sizeof sa); sa.sa_handler = guard_handler; sigemptyset(&sa.sa_mask); sa.sa_flags = SA_NODEFER; sigaction(SIGVTALRM, &sa, NULL); installed = 1; }
    struct itimerval it; memset(&it, 0, sizeof it); it.it_value.tv_sec = seconds;
    guard_armed = 1;
    setitimer(ITIMER_VIRTUAL, &it, NULL);
}
static void install_guard_handler(void)
{
    static int installed;
    if (!installed) { struct sigaction sa; memset(&sa, 0, sizeof sa); sa.sa_handler = guard_handler; sigemptyset(&sa.sa_mask); sa.sa_flags = SA_NODEFER; sigaction(SIGVTALRM, &sa, NULL); installed = 1; }
}
void vh_guard_end(void)
{
    /* leave the block guard; the per-case budget (restarted) takes over */
    struct itimerval it; memset(&it, 0, sizeof it);
    guard_armed = 0;
    if (vh_case_cpu_budget > 0 && vh_case_idx >= 0) { install_guard_handler(); it.it_value.tv_sec = vh_case_cpu_budget; case_guard_armed = 1; }
    else case_guard_armed = 0;
    setitimer(ITIMER_VIRTUAL, &it, NULL);
}

/* ---------------- driver ---------------- */
void vh_init(int argc, char **argv, const char *prop)
{
    vh_prop = prop;
    vh_prop_hash = vh_hash_str(prop, 7);
    const char *t = getenv("VERIF_TIER"); if (t && *t) vh_tier = t;
    for (int i = 1; i < argc; i++) {
        const char *a = argv[i]; const char *v = i + 1 < argc ? argv[i + 1] : "";
        if (!strcmp(a, "--seed")) { vh_seed = strtoull(v, 0, 0); i++; }
        else if (!strcmp(a, "--shard")) { vh_shard = atoi(v); i++; }
        else if (!strcmp(a, "--nshards")) { vh_nshards = atoi(v); i++; }
        else if (!strcmp(a, "--cases")) { vh_cases = atol(v); i++; }
        else if (!strcmp(a, "--start")) { vh_start = atol(v); i++; }
        else if (!strcmp(a, "--only")) { vh_only = atol(v); i++; }
        else if (!strcmp(a, "--upto")) { vh_upto = atol(v); i++; }      /* history replay: this shard's cases from --start up to and including this index */
        else if (!strcmp(a, "--tier")) { vh_tier = strdup(v); i++; }
        else if (!strcmp(a, "--out")) { snprintf(vh_outdir, sizeof vh_outdir, "%s", v); i++; }
        else if (!strcmp(a, "--verbose")) vh_verbose = 1;
    }
    if (vh_nshards < 1) vh_nshards = 1;
    if (vh_only >= 0) { vh_shard = (int) (vh_only % vh_nshards); }
    char p[600]; snprintf(p, sizeof p, "%s/progress.%d", vh_outdir, vh_shard);
    vh_progress_fd = open(p, O_CREAT | O_WRONLY | O_CLOEXEC, 0644);
    setvbuf(stdout, NULL, _IOLBF, 0);
    vh_k = 0;
}

int vh_next_case(void)
{
    long idx;
    /* a shard whose CPU-time guard fired three times stops early: the violation is on record, and every further firing costs seconds */
    if (guard_fires >= 3) { vh_count("shard_stopped_after_guard_firings", 1); return 0; }
    for (;;) {
        if (vh_only >= 0) {
            if (vh_k > 0) return 0;
            idx = vh_only; vh_k = 1; break;
        }
        if (vh_k >= vh_cases) return 0;
        idx = (long) vh_shard + vh_k * (long) vh_nshards;
        vh_k++;
        if (idx < vh_start) continue;
        if (vh_upto >= 0 && idx > vh_upto) return 0;
        break;
    }
    vh_case_idx = idx;
    vh_guard_end();          /* (re)start the per-case CPU budget; a case abandoned inside a guarded block must not leave its timer armed */
    vh_rng.s = vh_mix(vh_mix(vh_seed, vh_prop_hash), (uint64_t) idx);
    jcount = 0;
    if (vh_progress_fd >= 0) { int64_t v = idx; if (pwrite(vh_progress_fd, &v, sizeof v, 0) < 0) { } }
    if (vh_verbose) fprintf(stderr, "case %ld\n", idx);
    return 1;
}
void vh_case_done(void) { vh_cases_run++; }

int vh_finish(void)
{
    vh_case_idx = -1; vh_guard_end();
    char p[600];
    snprintf(p, sizeof p, "%s/cov.%d", vh_outdir, vh_shard);
    /* append: a shard restarted after a crash keeps earlier coverage */
    FILE *f = fopen(p, "ab");
    if (f) {
        if (covset) for (size_t i = 0; i < COVCAP; i++) if (covset[i]) fwrite(&covset[i], 8, 1, f);
        fclose(f);
    }
    if (digest_fp) fclose(digest_fp);
    if (vh_progress_fd >= 0) { int64_t v = -1; if (pwrite(vh_progress_fd, &v, sizeof v, 0) < 0) { } }
    FILE *o = stdout;
    fprintf(o, "SUMMARY\t{\"cases\":%ld,\"evals\":%ld,\"viol\":%ld,\"cov\":%zu,\"cov_saturated\":%s,\"counts\":{",
            vh_cases_run, vh_nevals, vh_nviol, covn, covn >= COVCAP / 2 ? "true" : "false");
    for (int i = 0; i < ncnts; i++) { if (i) fputc(',', o); json_str(o, cnts[i].name); fprintf(o, ":%ld", cnts[i].n); }
    fprintf(o, "},\"samples\":[");
    for (int i = 0; i < nsamples; i++) { if (i) fputc(',', o); json_str(o, samples[i]); }
    fprintf(o, "]}\n");
    fflush(o);
    return 0;
}
