"""C09: config parser delivers every line once, in order, to the innermost open context; state threading; balanced stacks."""
import vf
import c0x_common as cx


_M = 2 ** 64 - 1


def _splitmix(s):
    s = (s + 0x9e3779b97f4a7c15) & _M
    z = s
    z = ((z ^ (z >> 30)) * 0xbf58476d1ce4e5b9) & _M
    z = ((z ^ (z >> 27)) * 0x94d049bb133111eb) & _M
    return s, z ^ (z >> 31)


def _mix(a, b):
    """vh_mix() of harness/common/vh.c"""
    s = (a ^ ((b * 0xd6e8feb86659fd93) & _M) ^ 0x2545f4914f6cdd1d) & _M
    s, _ = _splitmix(s)
    s, z = _splitmix(s)
    return z


def build(flavor='asan'):
    return cx.build('c09', flavor)


def rebuild_for_replay(rec):
    return build()


def run(chk):
    per = chk.pick(600, 40000)            # per shard: 9.6e3 / 4.0e4 trees
    r = chk.run('asan', build(), per)
    # which maximum nesting depths were actually reached (the harness records vh_mix(0xDEE9, depth) as a coverage hash)
    reached = [d for d in range(256) if (_mix(0xDEE9, d) or 1) in r.cov]
    chk.cov['max_depths_reached'] = len(reached)
    if not chk.quick() and len(reached) < 256:
        chk.inconclusive.append('thorough tier must reach every nesting depth 0..255; missing: %s' % [d for d in range(256) if d not in reached][:20])
    if not chk.quick():
        # memcheck: any branch on / use of an uninitialised byte in the parser (which pattern-fill cannot expose) is an error
        chk.run('memcheck', cx.build('c09', 'plain'), 40, wrapper=cx.MEMCHECK, timeout=3000)
        chk.assumptions.append('thorough: 640 further trees under valgrind memcheck (plain -O0 build; table-size probes need ASan and are skipped there)')
    chk.rule = ('case = registered context set (0..90 names, built-in null handler kept or replaced) + generated tree of config files (main + 0..22 %include\'d files, '
                'include chains of 1-4 / 9-11 / 19-21) over the line grammar comment | blank | begin NAME | end [junk] | %include F | text, nesting depth classes '
                '0-3, 9-11, 19-21, 39-41, 79-81, 159-161, 250-255 (thorough: every depth 0..255), surplus ends, unbalanced inputs, near-miss keywords; every handler '
                'logs (context, kind, text, state in) and returns a unique token; expected events from the A.5 line-grammar model; distinct = distinct '
                '(event kind, depth bucket, context class, null-handler class) and (depth class, include class, ...) hashes')
    chk.assumptions += ['files are well-formed text files for this parser (magic first line, lines < 20480 bytes ending in newline); other files belong to C11',
                        'states returned by libast\'s own null handler are not asserted (opaque); state carried in slot 0 across two parses is not asserted']
    chk.require('cyclic_include_lines', 100)
    chk.require('handler_returned_null_state', 1000)
    for name, n in (('depth_0_3', 20), ('depth_9_11', 20), ('depth_19_21', 20), ('depth_39_41', 20), ('depth_79_81', 20), ('depth_159_161', 20), ('depth_250_255', 20),
                    ('reached_depth_250_plus', 20), 
                    ('include_chain_9_plus', 20), ('include_chain_19_plus', 10),
                    ('unknown_begins', 100), ('surplus_ends', 50), ('includes', 500), ('state_checks', 10000),
                    ('events_checked', 50000), ('null_replaced_cases', 100), ('builtin_null_cases', 100), ('second_parses', 50), ('expansion_cases', 30),
                    ('unbalanced_cases', 50)):
        chk.require(name, n)
    chk.min_cases = per * 12
