"""C19: local sockets carry bytes intact under short I/O and never leak descriptors (DESIGN.md §4 C19)."""
import vf

WRAPS = ['read', 'write', 'accept', 'close', 'socket', 'dup', 'connect', 'bind', 'listen', 'select',
         'getprotobyname', 'getservbyname']
GRID = 85 * 40        # write schedules of length <= 3 over {complete, short, EINTR, EAGAIN} x read schedules <= 3 over {complete, short, EINTR}


def build(flavor='asan'):
    return vf.build_harness('c19', flavor, ['c19.c'], wraps=WRAPS)


def rebuild_for_replay(rec):
    return build()


def run(chk):
    per = chk.pick(3000, 200000)          # scenarios PER SHARD: the 3400-point schedule grid, then sampled transfers / lifecycle histories alternately
    chk.run('asan', build(), per)
    n = per * vf.NCPU
    chk.rule = ('scenario = listener + client (+ accepted peer, duplicates) as spif_socket objects on UNIX-domain sockets in one process; '
                'transfer scenario = (write fault schedule over {complete, short, EINTR, EAGAIN}, read fault schedule over {complete, short, '
                'EINTR}, total length, number of sends, how the receive ends {sender closed, sender deleted, receiver non-blocking, listener '
                'non-blocking inherited}, direction): all schedule pairs with k<=3 enumerated, k<=6 sampled, received text compared with sent '
                'text; lifecycle scenario = random history of new/open/accept/send/recv/close/dup/del/done/set_nbio/check_io with failing '
                'opens (missing directory, path in use, no listener) and injected failures of socket/bind/listen/connect/accept/dup/close/'
                'write; after every operation the descriptor ledger (socket/accept/dup/close interposed) must satisfy opened = closed + held '
                'with one owning object per descriptor, and after deleting all objects the /proc/self/fd census must equal the pre-scenario '
                'one; distinct = (write schedule, read schedule, length class, end mode, direction) of transfers whose schedule was fully '
                'consumed + (operation, object state flags, argument/injection, outcome, object kind) of lifecycle steps')
    chk.exhaustive = False
    chk.assumptions += ['faults are injected only on descriptors the library obtained itself; a call that would sleep forever in a single '
                        'process (read with no writer left, accept with no pending connection, connect on a full backlog) is answered '
                        'by an error instead and counted',
                        'the sender\'s select() back-off sleeps are skipped (logical time)',
                        'protocol/service lookups answer "not found" (hermetic); INET sockets are not driven',
                        'close() is never made to fail with EINTR (POSIX leaves the descriptor state unspecified)',
                        'the library moves socket data through read()/write() (the interposed calls); the end-to-end comparison does not depend on it']
    chk.require('grid_transfers', GRID)
    chk.require('grid_schedules_fully_consumed', GRID * 9 // 10)
    chk.require('transfers_with_schedule_fully_consumed', n // 4)
    chk.require('lifecycle_cases', n // 4)
    chk.require('histories_with_descriptor_0_free', 100)
    chk.require('scenarios_with_clean_census', n * 9 // 10)
    chk.require('short_reads_injected', 2000)
    chk.require('short_writes_injected', 2000)
    chk.require('eintr_reads_injected', 2000)
    chk.require('eintr_writes_injected', 2000)
    chk.require('eagain_writes_injected', 2000)
    chk.require('payload_beyond_four_chunks', 500)
    chk.require('accept_ok', n // 2)
    chk.require('accept_failed', 200)
    chk.require('open_failed', 500)
    chk.require('dup_with_fd', 200)
    chk.require('open_with_injected_failure', 50)
    chk.require('accept_with_injected_failure', 50)
    chk.require('send_failed', 200)
    chk.require('recv_with_data', n // 2)
    chk.min_cases = n
    chk.coverage(build('cov'), 100)       # thorough tier: gcov line coverage of the anchored sources under this workload
