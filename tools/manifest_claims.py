# executed by tools/gen_manifest.py: claim(pid, technique, level text, level note)
# A property is claimed only once its check is silent on the (repaired) tree at several seeds and fires on mutants.
import os as _os, json as _json

_ready = set()
_rf = _os.path.join(ROOT, 'tools', 'ready.txt')
if _os.path.exists(_rf):
    _ready = {l.split()[0] for l in open(_rf) if l.strip() and not l.startswith('#')}

_SAN = 'gcc ASan+UBSan build of the current /repo sources (exact-size heap blocks, red zones, quarantine); '
_TB = 'Trusted: the reference model/oracle in the harness (written from the property statement and DESIGN Appendix A, not from the code), gcc sanitizer runtimes, the case generator reaching the behaviour (coverage counters and required observables in the evidence show what was reached). Says nothing about inputs/histories not generated.'

_ALL = {
 'C01': ('online reference-model monitor (ideal character sequence) over random operation histories on str and ustr objects, with representation-invariant and allocator-size probes after every operation, under ASan+UBSan',
         'Random histories from every constructor (incl. streams/descriptors with chunk-boundary lengths) with boundary-biased indices; after each operation text, length, NUL placement, capacity vs. allocated size and a battery of queries are compared with the ideal sequence; sanitizers watch every access. Held on the histories executed.'),
 'C02': ('lock-step differential monitoring of the array, linked-list and doubly-linked-list list classes against an ideal sequence model, structural invariant walks (links, tail, lengths, allocation size) after every operation, ASan+UBSan, pattern/zero auto-init differential',
         'One generated history drives the three classes and the model in lock-step; every return value, three independent read-back routes, iterator exhaustion and link structure are checked after each operation.'),
 'C03': ('lock-step differential monitoring of the three map classes against an ideal dictionary, caller-object scribble/delete after set (aliasing becomes ASan use-after-free), ordering and structural invariants after every operation',
         'Histories over small and large key sets with overwrite, removal of smallest/largest/only key and use after removal; results, ascending order of keys/values/pairs/iteration and copy semantics checked after each operation.'),
 'C04': ('lock-step differential monitoring of the three vector classes against a sorted-multiset model with structural invariant walks, ASan+UBSan',
         'Insert/remove/find histories with duplicate, minimum, maximum and absent probes; sortedness, multiplicities, find/remove results and class agreement checked after each operation.'),
 'C05': ('runtime law checking: canonical-observation monitors for dup (equality, independence under mutation/done/del, representation invariants of the copy) and full 7x7 comparison matrices (reflexive, antisymmetric, transitive, NULL-first, strict-prefix) over objects of 16 classes from random construction histories, incl. objects placed 2^31..2^33 bytes apart, under ASan+UBSan',
         'Objects of every value class are produced by random construction histories; each dup is compared by a canonical rendering, then both sides are mutated, emptied or deleted while the other is re-observed; comparison laws are checked on whole matrices; non-termination shows as a stack-overflow report.'),
 'C06': ('conservation monitor over ASan malloc/free hooks: generated ownership-tracked programs over the whole object API run twice per process; every block allocated inside the second execution must be freed by the time the harness has deleted what it owns; ASan quarantine detects double free / use-after-free',
         'Programs with hand-in, hand-out, copies, done+reuse, early deletion and deletion of non-empty containers; residue of the allocation window reported with allocation stack.'),
 'C07': ('online reference-model monitor (ideal byte sequence incl. NUL bytes) over random operation histories on mbuff objects from every constructor incl. seekable and streaming descriptors, representation/allocator probes after every operation, ASan+UBSan',
         'As C01 with a byte model; both reader paths and chunk-boundary lengths are forced.'),
 'C08': ('reference-reader differential monitoring of spifopt_parse on generated option tables and argument vectors (well-formed population: exact targets, masks, residual argv; arbitrary population: sanitizer silence and logical-step termination bound), every buffer an exact-size heap block, ASan+UBSan',
         'Abstract commands are printed in random spellings and parsed under all four {pre-parse, remove-args} settings and two-pass use; an independent reader gives the expected state of every target and argv.'),
 'C09': ('event-log monitor with unique state tokens: generated config file trees parsed by the real parser with logging context handlers; log compared with a line-grammar model (order, exactly-once, innermost context, state threading); stack indices/capacities peeked through a guarded accessor; fd census',
         'Trees with nesting depth classes up to 255, include chains up to 248 files deep, over-long lines, surplus ends, unknown contexts, null-context replacement at any point, full context tables; events and state threading compared with the model after each parse.'),
 'C10': ('reference-expander differential monitoring of config value expansion plus purity monitoring: each case executed under pattern- and zero-initialised stack builds, two heap fill bytes and stack scribbling, outputs must be byte-identical; exact-size input blocks under ASan for over-reads',
         'Grammar-generated value strings with escapes, tilde, $-forms, quotes, %-calls and put/get histories in hermetic environments (wrapped getenv).'),
 'C11': ('sanitizer-monitored robustness workloads for the config subsystem (random and mutated files, registration stress, path lookups up to and beyond PATH_MAX), link-time spawn monitor (system/fork/exec/popen wrapped, never executed), temp-file mode/uniqueness monitor, init/use/free lifecycle conservation monitor',
         'Byte-level hostile inputs and lifecycle programs (incl. lines handed over from argv) on pattern- and zero-initialised stack builds; spawn attempts counted at wrapped entry points (the monitor can play a pass-through preprocessor); heap balance and behaviour equality across cycles.'),
 'C12': ('reference-tokenizer differential monitoring of spiftool_split, the tok class and the word utilities: exhaustive strings over a 6-symbol alphabet up to a length bound plus random long strings, every input an exact-size heap block under ASan',
         'Exhaustive small-scope enumeration x delimiter sets; split vs reference, tok vs split, join/split round trip, word-utility consistency.'),
 'C13': ('exhaustive-grid reference monitoring of safe_strncpy/safe_strncat/substr and the in-place helpers with exact-size heap destinations (ASan red zones) and in-block canaries',
         'All (size, source length, prefix length) triples in the stated grid, all (len, idx, cnt) for substr, all short strings over a hostile alphabet for the in-place helpers.'),
 'C14': ('generated component tuples -> canonical printer -> real parser; component/unparse/re-parse oracle; getprotobyname/getservbyname wrapped to force every lookup outcome; arbitrary byte strings under ASan+UBSan and pattern-initialised stack build',
         'All 2^7 presence shapes over unambiguous alphabets and five lookup outcomes; robustness on random bytes.'),
 'C15': ('shadow-table monitor: random interleavings of the tracked allocation calls and macros on a DEBUG=5 sanitizer build, tracker table (guarded accessor) compared with a shadow dictionary after every operation; macro-semantics differential between tracking and non-tracking builds',
         'Pools with NULL, live, moved and untracked pointers, runtime level toggling, file-name length classes; table must mirror the shadow exactly after each operation.'),
 'C16': ('exhaustive execution of frozen guard tables: every guarded (entry point or class-table slot, pointer parameter) called with NULL in a forked child at runtime debug levels 0 and >=1; return value, ASan malloc-hook allocation count, two-level argument snapshots, snapshot of the library\'s exported data objects and exit path checked',
         'Tables frozen from the source (guard macros, wrappers, constructors) and from observation (positions refused by a guard of a callee, positions that accept NULL) are the oracle; every row and its companions (other NULL-tolerant pointers NULL too; string arguments set to literals the function compares with) x level cell is executed on every run.'),
 'C17': ('exhaustive short-string pairs plus long-run and well-formed generated pairs through spiftool_version_compare under ASan+UBSan; antisymmetry/reflexivity; determinism monitor (different prior calls, stack scribbling, pattern vs zero auto-init builds); reference comparator for well-formed versions',
         'All ordered pairs of strings up to a length bound over a 6-symbol alphabet, runs longer than the 128-byte scratch buffers, generated versions vs the reference order.'),
 'C18': ('sanitizer-instrumented differential execution against independent reference hash definitions over an exhaustive (length, alignment, seed, content) grid; guard-page and changing-surroundings placement monitors',
         'Runs the real hash functions on the complete stated grid plus random keys; value equality with reference definitions, placement independence and exact read extent observed on every evaluation.'),
 'C19': ('fault-schedule injection at link-time-wrapped read/write/accept (short, EINTR, EAGAIN) on real UNIX-domain sockets created through the URL API; payload integrity oracle; descriptor ledger over wrapped socket/accept/dup/close plus /proc/self/fd census; ASan+UBSan',
         'Lifecycle scenarios incl. failed opens/accepts (also dup failing inside accept), transfers over copies whose original is closed, double-close detection; all fault sequences for the first k<=3 calls enumerated, longer ones sampled.'),
 'C20': ('exhaustive configuration matrix: one probe translation unit built for compile-time DEBUG 0,1,2,3,4,5,9999, every macro of the family run in a forked child at runtime levels 0..6 with silent on/off; stderr, side-effect counters and exit path compared with the truth table of the statement',
         'Every cell of the matrix is executed and counted.'),
}
for _pid, (_tech, _text) in _ALL.items():
    if _pid in _ready:
        claim(_pid, _tech, _text + ' Level: exploration of real executions (exhaustive only where the evidence says exhaustive: true).', _SAN + _TB)
