"""C20: debug output and assertions are gated exactly by the compile-time and runtime levels.

Seven builds of harness/c20_probe.c (compile-time DEBUG = 0,1,2,3,4,5,9999 for the probe translation unit;
the macros under test are header-only) x runtime level {0..6, 9999} x silent {off,on} x every macro of the
family.  Every cell of the matrix is one case, executed in a forked child; the whole matrix is enumerated."""
import subprocess
from concurrent.futures import ThreadPoolExecutor
import vf

DEBUGS = [0, 1, 2, 3, 4, 5, 9999]
LIBSRC = ['msgs.c', 'debug.c', 'strings.c', 'mem.c']
FLAVOR = 'asan'


def build_one(d):
    return vf.build_harness('c20_d%d' % d, FLAVOR, ['c20_probe.c'], cflags=['-DPROBE_DEBUG=%d' % d], lib_sources_subset=LIBSRC)


def build_all():
    vf.build_lib(FLAVOR, LIBSRC)            # once, before the parallel harness builds (they share these objects)
    with ThreadPoolExecutor(len(DEBUGS)) as ex:
        return dict(zip(DEBUGS, ex.map(build_one, DEBUGS)))


def rebuild_for_replay(rec):
    d = 4
    a = rec.get('args') or []
    if '--probe-debug' in a:
        d = int(a[a.index('--probe-debug') + 1])
    return build_one(d)


def run(chk):
    exes = build_all()
    ncells = int(subprocess.run([exes[4], '--ncells'], stdout=subprocess.PIPE, text=True, env=dict(vf.ASAN_ENV)).stdout.strip())
    per = (ncells + vf.NCPU - 1) // vf.NCPU
    total = 0
    clean = True
    for d in DEBUGS:
        # --probe-debug is ignored by the harness; it tags the replay record with the build it belongs to
        r = chk.run('debug%d' % d, exes[d], per, args=['--probe-debug', str(d)], timeout=600)
        total += r.counts.get('cells', 0)
        chk.samples += r.samples[2:4] if len(r.samples) >= 4 else r.samples[:2]     # a couple of real cells from every build
        clean = clean and not r.truncated and not r.hangs
    want = ncells * len(DEBUGS)
    chk.rule = ('one case = one cell (compile-time DEBUG of the probe translation unit, runtime level, silent flag, macro) of the full matrix '
                '{0,1,2,3,4,5,9999} x {0..6,9999} x {off,on} x %d macro forms (D_* and D_*_IF of every subsystem in libast.h, D_NEVER, DPRINTF, '
                'DPRINTF1..9, MOO, ABORT, ASSERT/ASSERT_RVAL true and false, ASSERT_NOTREACHED[_RVAL], REQUIRE/REQUIRE_RVAL true and false, '
                'libast_dprintf/print_error/print_warning/fatal_error); each cell runs in a forked child with stdout/stderr on pipes and a '
                'side-effect counter in the macro argument; oracle = truth table of the statement (output, argument evaluation, '
                'continue/return/fatal, return value, nothing when silenced); distinct = distinct cells' % (ncells // 16))
    chk.cov['matrix_cells'] = want
    chk.cov['cells_run'] = total
    # exhaustive only if every cell of the matrix ran to a verdict and was counted (a cell whose oracle failed is not counted)
    chk.exhaustive = bool(clean and total == want)
    chk.cov['exhaustive_over'] = ('compile-time DEBUG {0,1,2,3,4,5,9999} x runtime level {0,1,2,3,4,5,6,9999} x silent {off,on} x %d macro forms '
                                  '(runtime level 9999 added to the stated 0..6 so that DPRINTF7..9 and the 9999-class macros are also seen printing)' % (ncells // 16))
    chk.assumptions += ['library objects (msgs.c debug.c strings.c mem.c) keep the configured DEBUG; only the probe translation unit varies it',
                        'gcc: the __GNUC__ && __FILE__ && __LINE__ branch of the ASSERT ladder is the one compiled; the two fallback ladders are not reachable with this compiler',
                        'silent = libast_set_silent(TRUE) (libast_program_name cannot be made NULL through the public API)',
                        'unconditional DPRINTF, MOO and ABORT are outside the statement: only "prints nothing when silenced" and "compiled out at DEBUG 0" are asserted for them']
    chk.require('cells', want)
    chk.require('fatal_exits_observed', 100)
    chk.require('assert_warnings_observed', 20)
    chk.require('require_logs_observed', 50)
    chk.require('assert_vanished_observed', 16)
    chk.require('gated_output_observed', 200)
    chk.require('class9999_output_observed', 2)
    chk.require('silenced_output_suppressed', 300)
    chk.require('cells_argument_not_evaluated', 500)
    chk.min_cases = want
