/* C05: object protocol -- dup is an independent equal copy, comp is a consistent order, type names the class.
 * DESIGN.md §4 C05. */
#define _GNU_SOURCE
#include <config.h>
#include <libast.h>
#include <stdarg.h>
#include "vh.h"

/* ---------------------------------------------------------------- string builder */
typedef struct { char *p; size_t n, cap; } sb_t;
static void sb_put(sb_t *b, const void *s, size_t n)
{
    if (b->n + n + 1 > b->cap) { b->cap = (b->n + n + 1) * 2 + 64; b->p = realloc(b->p, b->cap); }
    memcpy(b->p + b->n, s, n); b->n += n; b->p[b->n] = 0;
}
static void sb_puts(sb_t *b, const char *s) { sb_put(b, s, strlen(s)); }
static void sb_printf(sb_t *b, const char *fmt, ...)
{
    char tmp[256]; va_list ap; va_start(ap, fmt); int k = vsnprintf(tmp, sizeof tmp, fmt, ap); va_end(ap);
    sb_put(b, tmp, (size_t) (k < (int) sizeof tmp ? k : (int) sizeof tmp - 1));
}
static void sb_free(sb_t *b) { free(b->p); b->p = NULL; b->n = b->cap = 0; }

/* ---------------------------------------------------------------- classes */
enum { K_STR, K_USTR, K_MBUFF, K_PAIR, K_TOK, K_URL, K_REGEXP,
       K_ALIST, K_LLIST, K_DLIST, K_AVEC, K_LVEC, K_DVEC, K_AMAP, K_LMAP, K_DMAP, K_NCLASS };
static const char *KNAME[K_NCLASS] = { "str", "ustr", "mbuff", "objpair", "tok", "url", "regexp",
    "array_list", "linked_list_list", "dlinked_list_list", "array_vector", "linked_list_vector", "dlinked_list_vector",
    "array_map", "linked_list_map", "dlinked_list_map" };
static const char *KTYPE[K_NCLASS] = { "!spif_str_t!", "!spif_ustr_t!", "!spif_mbuff_t!", "!spif_objpair_t!", "!spif_tok_t!", "!spif_url_t!", "!spif_regexp_t!",
    "!spif_array_t!", "!spif_linked_list_t!", "!spif_dlinked_list_t!", "!spif_array_t!", "!spif_linked_list_t!", "!spif_dlinked_list_t!",
    "!spif_array_t!", "!spif_linked_list_t!", "!spif_dlinked_list_t!" };

static spif_class_t kclass(int k)
{
    switch (k) {
    case K_STR: return SPIF_CLASS_VAR(str);
    case K_USTR: return SPIF_CLASS_VAR(ustr);
    case K_MBUFF: return SPIF_CLASS_VAR(mbuff);
    case K_PAIR: return SPIF_CLASS_VAR(objpair);
    case K_TOK: return SPIF_CLASS_VAR(tok);
    case K_URL: return SPIF_CLASS_VAR(url);
    case K_REGEXP: return SPIF_CLASS_VAR(regexp);
    case K_ALIST: return (spif_class_t) SPIF_LISTCLASS_VAR(array);
    case K_LLIST: return (spif_class_t) SPIF_LISTCLASS_VAR(linked_list);
    case K_DLIST: return (spif_class_t) SPIF_LISTCLASS_VAR(dlinked_list);
    case K_AVEC: return (spif_class_t) SPIF_VECTORCLASS_VAR(array);
    case K_LVEC: return (spif_class_t) SPIF_VECTORCLASS_VAR(linked_list);
    case K_DVEC: return (spif_class_t) SPIF_VECTORCLASS_VAR(dlinked_list);
    case K_AMAP: return (spif_class_t) SPIF_MAPCLASS_VAR(array);
    case K_LMAP: return (spif_class_t) SPIF_MAPCLASS_VAR(linked_list);
    case K_DMAP: return (spif_class_t) SPIF_MAPCLASS_VAR(dlinked_list);
    }
    return NULL;
}
static int kind_of(spif_obj_t o)
{
    if (!o) return -1;
    for (int k = 0; k < K_NCLASS; k++) if (SPIF_OBJ_CLASS(o) == kclass(k)) return k;
    return -1;
}
#define IS_LIST(k) ((k) >= K_ALIST && (k) <= K_DLIST)
#define IS_VEC(k)  ((k) >= K_AVEC && (k) <= K_DVEC)
#define IS_MAP(k)  ((k) >= K_AMAP && (k) <= K_DMAP)
#define IS_CONT(k) ((k) >= K_ALIST)
#define IMPL(k)    (((k) - K_ALIST) % 3)      /* 0 array, 1 linked, 2 dlinked */

/* ---------------------------------------------------------------- canonical observation */
static void obs(spif_obj_t o, sb_t *b, int depth);

static void obs_items_seq(spif_obj_t c, sb_t *b, int depth)
{
    /* element sequence through a fresh iterator (all three interfaces have one) */
    spif_iterator_t it = SPIF_LIST_ITERATOR((spif_list_t) c);     /* iterator slot differs per interface: use the right macro */
    (void) it;
}

static void obs(spif_obj_t o, sb_t *b, int depth)
{
    if (!o) { sb_puts(b, "<NULL>"); return; }
    int k = kind_of(o);
    if (depth > 6) { sb_puts(b, "<deep>"); return; }
    switch (k) {
    case K_STR: {
        spif_str_t s = (spif_str_t) o;
        sb_printf(b, "str[%ld]:", (long) spif_str_get_len(s));
        if (SPIF_STR_STR(s)) sb_put(b, SPIF_STR_STR(s), (size_t) spif_str_get_len(s));
        break; }
    case K_USTR: {
        spif_ustr_t s = (spif_ustr_t) o;
        sb_printf(b, "ustr[%ld]:", (long) spif_ustr_get_len(s));
        if (SPIF_USTR_STR(s)) sb_put(b, SPIF_USTR_STR(s), (size_t) spif_ustr_get_len(s));
        break; }
    case K_MBUFF: {
        spif_mbuff_t m = (spif_mbuff_t) o;
        sb_printf(b, "mbuff[%ld]:", (long) spif_mbuff_get_len(m));
        for (long i = 0; i < (long) spif_mbuff_get_len(m); i++) sb_printf(b, "%02x", SPIF_MBUFF_BUFF(m)[i]);
        break; }
    case K_PAIR: {
        spif_objpair_t p = (spif_objpair_t) o;
        sb_puts(b, "pair(");
        obs(spif_objpair_get_key(p), b, depth + 1); sb_puts(b, " => "); obs(spif_objpair_get_value(p), b, depth + 1);
        sb_puts(b, ")");
        break; }
    case K_TOK: {
        spif_tok_t t = (spif_tok_t) o;
        sb_puts(b, "tok{src="); obs((spif_obj_t) spif_tok_get_src(t), b, depth + 1);
        sb_puts(b, " sep="); obs((spif_obj_t) spif_tok_get_sep(t), b, depth + 1);
        sb_printf(b, " q=%02x dq=%02x esc=%02x tokens=", (unsigned char) spif_tok_get_quote(t), (unsigned char) spif_tok_get_dquote(t), (unsigned char) spif_tok_get_escape(t));
        obs((spif_obj_t) spif_tok_get_tokens(t), b, depth + 1);
        sb_puts(b, "}");
        break; }
    case K_URL: {
        spif_url_t u = (spif_url_t) o;
        sb_printf(b, "url{text[%ld]=", (long) spif_str_get_len(SPIF_STR(u)));
        if (SPIF_STR_STR(SPIF_STR(u))) sb_put(b, SPIF_STR_STR(SPIF_STR(u)), (size_t) spif_str_get_len(SPIF_STR(u)));
        sb_puts(b, " proto="); obs((spif_obj_t) spif_url_get_proto(u), b, depth + 1);
        sb_puts(b, " user="); obs((spif_obj_t) spif_url_get_user(u), b, depth + 1);
        sb_puts(b, " passwd="); obs((spif_obj_t) spif_url_get_passwd(u), b, depth + 1);
        sb_puts(b, " host="); obs((spif_obj_t) spif_url_get_host(u), b, depth + 1);
        sb_puts(b, " port="); obs((spif_obj_t) spif_url_get_port(u), b, depth + 1);
        sb_puts(b, " path="); obs((spif_obj_t) spif_url_get_path(u), b, depth + 1);
        sb_puts(b, " query="); obs((spif_obj_t) spif_url_get_query(u), b, depth + 1);
        sb_puts(b, "}");
        break; }
    case K_REGEXP: {
        spif_regexp_t r = (spif_regexp_t) o;
        static const char *subj[] = { "abc", "ABC", "a\nc", "xyz", "", "aXc" };
        sb_printf(b, "regexp{pat[%ld]=", (long) spif_str_get_len(SPIF_STR(r)));
        if (SPIF_STR_STR(SPIF_STR(r))) sb_put(b, SPIF_STR_STR(SPIF_STR(r)), (size_t) spif_str_get_len(SPIF_STR(r)));
        sb_printf(b, " flags=%d matches=", spif_regexp_get_flags(r));
        for (int i = 0; i < 6; i++) sb_printf(b, "%d", r->data ? (int) spif_regexp_matches_ptr(r, (spif_charptr_t) subj[i]) : 9);
        sb_puts(b, "}");
        break; }
    default:
        if (IS_LIST(k)) {
            spif_list_t l = (spif_list_t) o;
            long n = (long) SPIF_LIST_COUNT(l);
            sb_printf(b, "list[%ld](", n);
            for (long i = 0; i < n; i++) { if (i) sb_puts(b, ", "); obs(SPIF_LIST_GET(l, (spif_listidx_t) i), b, depth + 1); }
            sb_puts(b, ")");
        } else if (IS_VEC(k)) {
            spif_vector_t v = (spif_vector_t) o;
            long n = (long) SPIF_VECTOR_COUNT(v);
            sb_printf(b, "vector[%ld](", n);
            spif_iterator_t it = SPIF_VECTOR_ITERATOR(v);
            long seen = 0;
            while (it && SPIF_ITERATOR_HAS_NEXT(it) && seen <= n + 2) { if (seen) sb_puts(b, ", "); obs(SPIF_ITERATOR_NEXT(it), b, depth + 1); seen++; }
            if (it) SPIF_ITERATOR_DEL(it);
            sb_printf(b, ")#%ld", seen);
        } else if (IS_MAP(k)) {
            spif_map_t m = (spif_map_t) o;
            long n = (long) SPIF_MAP_COUNT(m);
            sb_printf(b, "map[%ld](", n);
            spif_iterator_t it = SPIF_MAP_ITERATOR(m);
            long seen = 0;
            while (it && SPIF_ITERATOR_HAS_NEXT(it) && seen <= n + 2) { if (seen) sb_puts(b, ", "); obs(SPIF_ITERATOR_NEXT(it), b, depth + 1); seen++; }
            if (it) SPIF_ITERATOR_DEL(it);
            sb_printf(b, ")#%ld", seen);
        } else sb_puts(b, "<unknown class>");
    }
}
static char *observe(spif_obj_t o) { sb_t b = {0}; obs(o, &b, 0); if (!b.p) sb_puts(&b, ""); return b.p; }

/* ---------------------------------------------------------------- representation invariants (re-checked on copies) */
static const char *rep_check(spif_obj_t o, int depth)
{
    static char why[200];
    if (!o || depth > 6) return NULL;
    int k = kind_of(o);
    const char *w;
    switch (k) {
    case K_STR: case K_USTR: case K_URL: case K_REGEXP: {
        spif_str_t s = (spif_str_t) o;    /* ustr has the same layout; url and regexp derive from str */
        if (!s->s) { if (s->len || s->size) { snprintf(why, sizeof why, "%s: s==NULL but len=%ld size=%ld", KNAME[k], (long) s->len, (long) s->size); return why; } }
        else {
            if (s->len < 0 || s->size <= s->len) { snprintf(why, sizeof why, "%s: size=%ld not greater than len=%ld", KNAME[k], (long) s->size, (long) s->len); return why; }
            size_t a = vh_alloc_size(s->s);
            if (a && a < (size_t) s->size) { snprintf(why, sizeof why, "%s: reported capacity %ld exceeds the %zu bytes allocated", KNAME[k], (long) s->size, a); return why; }
            if (s->s[s->len] != 0 || (long) strlen((char *) s->s) != (long) s->len) { snprintf(why, sizeof why, "%s: text not NUL-terminated exactly at len=%ld (strlen=%zu)", KNAME[k], (long) s->len, strlen((char *) s->s)); return why; }
        }
        if (k == K_URL) {
            spif_url_t u = (spif_url_t) o;
            spif_str_t parts[7] = { u->proto, u->user, u->passwd, u->host, u->port, u->path, u->query };
            for (int i = 0; i < 7; i++) if ((w = rep_check((spif_obj_t) parts[i], depth + 1))) return w;
        }
        break; }
    case K_MBUFF: {
        spif_mbuff_t m = (spif_mbuff_t) o;
        if (!m->buff) { if (m->len || m->size) { snprintf(why, sizeof why, "mbuff: buff==NULL but len=%ld size=%ld", (long) m->len, (long) m->size); return why; } }
        else {
            if (m->size < m->len) { snprintf(why, sizeof why, "mbuff: size=%ld below len=%ld", (long) m->size, (long) m->len); return why; }
            size_t a = vh_alloc_size(m->buff);
            if (a && a < (size_t) m->size) { snprintf(why, sizeof why, "mbuff: reported capacity %ld exceeds the %zu bytes allocated", (long) m->size, a); return why; }
        }
        break; }
    case K_PAIR: {
        spif_objpair_t p = (spif_objpair_t) o;
        if ((w = rep_check(p->key, depth + 1))) return w;
        if ((w = rep_check(p->value, depth + 1))) return w;
        break; }
    case K_TOK: {
        spif_tok_t t = (spif_tok_t) o;
        if ((w = rep_check((spif_obj_t) t->src, depth + 1))) return w;
        if ((w = rep_check((spif_obj_t) t->sep, depth + 1))) return w;
        if ((w = rep_check((spif_obj_t) t->tokens, depth + 1))) return w;
        break; }
    default:
        if (!IS_CONT(k)) break;
        if (IMPL(k) == 0) {
            spif_array_t a = (spif_array_t) o;
            if (a->len < 0) { snprintf(why, sizeof why, "array: len=%ld", (long) a->len); return why; }
            if (a->len > 0) {
                if (!a->items) { snprintf(why, sizeof why, "array: len=%ld but items==NULL", (long) a->len); return why; }
                size_t al = vh_alloc_size(a->items);
                if (al && al < (size_t) a->len * sizeof(spif_obj_t)) { snprintf(why, sizeof why, "array: %ld items but only %zu bytes allocated", (long) a->len, al); return why; }
                for (long i = 0; i < a->len; i++) if ((w = rep_check(a->items[i], depth + 1))) return w;
            }
        } else if (IMPL(k) == 1) {
            spif_linked_list_t l = (spif_linked_list_t) o;
            long n = 0;
            for (spif_linked_list_item_t it = l->head; it && n <= l->len + 1; it = it->next) { n++; if ((w = rep_check(it->data, depth + 1))) return w; }
            if (n != l->len) { snprintf(why, sizeof why, "linked_list: chain has %ld nodes, len=%ld", n, (long) l->len); return why; }
        } else {
            spif_dlinked_list_t l = (spif_dlinked_list_t) o;
            long n = 0; spif_dlinked_list_item_t last = NULL;
            if (l->len == 0 && (l->head || l->tail)) { snprintf(why, sizeof why, "dlinked_list: len==0 but head=%s tail=%s", l->head ? "set" : "NULL", l->tail ? "set" : "NULL"); return why; }
            for (spif_dlinked_list_item_t it = l->head; it && n <= l->len + 1; it = it->next) {
                if (it->prev != last) { snprintf(why, sizeof why, "dlinked_list: node %ld has a wrong prev link", n); return why; }
                last = it; n++;
                if ((w = rep_check(it->data, depth + 1))) return w;
            }
            if (n != l->len) { snprintf(why, sizeof why, "dlinked_list: forward chain has %ld nodes, len=%ld", n, (long) l->len); return why; }
            if (l->tail != last) { snprintf(why, sizeof why, "dlinked_list: tail is not the last node of the forward chain"); return why; }
        }
    }
    return NULL;
}

/* ---------------------------------------------------------------- factories */
static const char *WORDS[] = { "a", "ab", "abc", "abd", "b", "B", "zz", "abc ", " x", "Q", "hello world", "ab\tc", "0", "42", "\xe9t\xe9" };
#define NWORDS 15
static const char *rword(void) { return WORDS[vh_below(NWORDS)]; }
static spif_obj_t mk_label(void) { return (spif_obj_t) spif_str_new_from_ptr((spif_charptr_t) rword()); }

static spif_obj_t make(int k, int depth);
static int no_nest;     /* comparison sets are kept class-homogeneous element-wise: comparing a list with a string is a caller error */

static spif_obj_t make_str(void)
{
    int v = (int) vh_below(10);
    spif_str_t s;
    switch (v) {
    case 8: { s = spif_str_new_from_ptr((spif_charptr_t) rword()); vh_op("str_new_from_ptr, then spliced empty (len 0, buffer kept)"); spif_str_splice_from_ptr(s, 0, spif_str_get_len(s), (spif_charptr_t) NULL); break; }
    case 9: { const char *w = rword(); s = spif_str_new_from_buff((spif_charptr_t) w, (spif_stridx_t) strlen(w) + (spif_stridx_t) vh_range(20, 80)); vh_op("str_new_from_buff(%s,+big) -- spare capacity", vh_qs(w)); break; }
    case 0: s = spif_str_new(); vh_op("str_new()"); break;                                /* empty, never filled */
    case 1: s = spif_str_new_from_ptr((spif_charptr_t) ""); vh_op("str_new_from_ptr(\"\")"); break;
    case 2: { const char *w = rword(); s = spif_str_new_from_buff((spif_charptr_t) w, (spif_stridx_t) strlen(w) + (spif_stridx_t) vh_below(6) + 1); vh_op("str_new_from_buff(%s,+)", vh_qs(w)); break; }
    case 3: s = spif_str_new_from_num(vh_range(-1000, 100000)); vh_op("str_new_from_num"); break;
    case 4: { s = spif_str_new_from_ptr((spif_charptr_t) rword()); const char *w = rword(); vh_op("str_new_from_ptr+append(%s)", vh_qs(w)); spif_str_append_from_ptr(s, (spif_charptr_t) w); break; }
    case 5: { s = spif_str_new_from_ptr((spif_charptr_t) rword()); vh_op("str_new_from_ptr+done"); spif_str_done(s); break; }     /* emptied */
    default: { const char *w = rword(); s = spif_str_new_from_ptr((spif_charptr_t) w); vh_op("str_new_from_ptr(%s)", vh_qs(w)); }
    }
    return (spif_obj_t) s;
}
static spif_obj_t make_ustr(void)
{
    int v = (int) vh_below(8);
    spif_ustr_t s;
    switch (v) {
    case 6: { const char *w = rword(); s = spif_ustr_new_from_buff((spif_charptr_t) w, (spif_ustridx_t) strlen(w) + (spif_ustridx_t) vh_below(40) + 1); vh_op("ustr_new_from_buff(%s,+) -- spare capacity", vh_qs(w)); break; }
    case 7: { s = spif_ustr_new_from_ptr((spif_charptr_t) rword()); vh_op("ustr_new_from_ptr, then spliced empty (len 0, buffer kept)"); spif_ustr_splice_from_ptr(s, 0, spif_ustr_get_len(s), (spif_charptr_t) NULL); break; }
    case 0: s = spif_ustr_new(); vh_op("ustr_new()"); break;
    case 1: s = spif_ustr_new_from_ptr((spif_charptr_t) ""); vh_op("ustr_new_from_ptr(\"\")"); break;
    case 2: { s = spif_ustr_new_from_ptr((spif_charptr_t) rword()); const char *w = rword(); vh_op("ustr_new_from_ptr+append(%s)", vh_qs(w)); spif_ustr_append_from_ptr(s, (spif_charptr_t) w); break; }
    case 3: { s = spif_ustr_new_from_ptr((spif_charptr_t) rword()); vh_op("ustr_new_from_ptr+done"); spif_ustr_done(s); break; }
    default: { const char *w = rword(); s = spif_ustr_new_from_ptr((spif_charptr_t) w); vh_op("ustr_new_from_ptr(%s)", vh_qs(w)); }
    }
    return (spif_obj_t) s;
}
static spif_obj_t make_mbuff(void)
{
    int v = (int) vh_below(9);
    spif_mbuff_t m;
    static const unsigned char B[] = "ab\0cd\0\0ef\xff\x01gh";
    switch (v) {
    case 6: { long n = vh_range(1, 14); m = spif_mbuff_new_from_ptr((spif_byteptr_t) B, (spif_memidx_t) n); vh_op("mbuff_new_from_ptr(B,%ld), then spliced empty (len 0, buffer kept)", n); spif_mbuff_splice_from_ptr(m, 0, (spif_memidx_t) n, (spif_byteptr_t) NULL, 0); break; }
    case 7: { long n = vh_range(1, 8); m = spif_mbuff_new_from_buff((spif_byteptr_t) B, (spif_memidx_t) n, (spif_memidx_t) (n + vh_range(1, 60))); vh_op("mbuff_new_from_buff(B,%ld,+) -- spare capacity", n); break; }
    case 8: { m = spif_mbuff_new_from_buff((spif_byteptr_t) NULL, 0, (spif_memidx_t) vh_range(1, 40)); vh_op("mbuff_new_from_buff(NULL,0,n) -- capacity only"); break; }
    case 0: m = spif_mbuff_new(); vh_op("mbuff_new()"); break;
    case 1: { long n = vh_range(1, 14); m = spif_mbuff_new_from_ptr((spif_byteptr_t) B, (spif_memidx_t) n); vh_op("mbuff_new_from_ptr(B,%ld)", n); break; }
    case 2: { long n = vh_range(1, 6); m = spif_mbuff_new_from_ptr((spif_byteptr_t) B, (spif_memidx_t) n); long k2 = vh_range(1, 8); vh_op("mbuff_new_from_ptr(B,%ld)+append(B+3,%ld)", n, k2); spif_mbuff_append_from_ptr(m, (spif_byteptr_t) B + 3, (spif_memidx_t) k2); break; }
    case 3: { m = spif_mbuff_new_from_ptr((spif_byteptr_t) B, 5); vh_op("mbuff_new_from_ptr+done"); spif_mbuff_done(m); break; }
    default: { const char *w = rword(); m = spif_mbuff_new_from_ptr((spif_byteptr_t) w, (spif_memidx_t) strlen(w)); vh_op("mbuff_new_from_ptr(%s)", vh_qs(w)); }
    }
    return (spif_obj_t) m;
}
static spif_obj_t make_pair(int depth)
{
    int v = (int) vh_below(5);
    spif_obj_t k = mk_label(), val = depth < 2 && !no_nest && vh_coin(25) ? make(K_ALIST + (int) vh_below(3), depth + 1) : mk_label();
    spif_objpair_t p;
    switch (v) {
    case 0: p = spif_objpair_new_from_key(k); vh_op("objpair_new_from_key"); break;           /* value absent */
    case 1: p = spif_objpair_new_from_value(val); vh_op("objpair_new_from_value"); break;     /* key absent */
    default: p = spif_objpair_new_from_both(k, val); vh_op("objpair_new_from_both");
    }
    SPIF_OBJ_DEL(k); SPIF_OBJ_DEL(val);
    return (spif_obj_t) p;
}
static spif_obj_t make_tok(void)
{
    static const char *SRC[] = { "a b c", "  one  'two three' \"four\" ", "x:y::z", "", "single", "a\\ b c", "'unterminated q" };
    int v = (int) vh_below(5);
    const char *src = SRC[vh_below(7)];
    spif_tok_t t;
    if (v == 0) { t = spif_tok_new(); vh_op("tok_new()"); return (spif_obj_t) t; }
    t = spif_tok_new_from_ptr((spif_charptr_t) src); vh_op("tok_new_from_ptr(%s) variant %d", vh_qs(src), v);
    if (!t) return NULL;
    if (v >= 2 && vh_coin(40)) spif_tok_set_sep(t, spif_str_new_from_ptr((spif_charptr_t) ":"));
    /* quote, double quote and escape characters other than the defaults are part of the value too */
    if (vh_coin(15)) { spif_tok_set_quote(t, '`'); vh_count("tok_quote_changed", 1); }
    if (vh_coin(15)) { spif_tok_set_dquote(t, '|'); vh_count("tok_dquote_changed", 1); }
    if (vh_coin(15)) { spif_tok_set_escape(t, '^'); vh_count("tok_escape_changed", 1); }
    if (v >= 2) spif_tok_eval(t);                                  /* evaluated */
    if (v >= 4) { spif_tok_set_src(t, spif_str_new_from_ptr((spif_charptr_t) SRC[vh_below(7)])); spif_tok_eval(t); }   /* re-evaluated */
    return (spif_obj_t) t;
}
static spif_obj_t make_url(void)
{
    static const char *U[] = { "http://user:pw@host.example:8080/path/x?q=1", "ftp://host/", "host.only", "/bare/path", "mailto:someone@example.org",
                               "http://h", "proto://u@h:1/p?x", "file:///etc/passwd", "a:b", "",
                               "http://@host:/x?", "http://u:@h/", "//:pw@h" };          /* the last three: components that are present and empty */
    int v = (int) vh_below(7);
    const char *src = U[vh_below(13)];
    spif_url_t u;
    if (v == 0) { u = spif_url_new(); vh_op("url_new()"); return (spif_obj_t) u; }
    u = spif_url_new_from_ptr((spif_charptr_t) src); vh_op("url_new_from_ptr(%s) variant %d", vh_qs(src), v);
    if (u && v == 3) spif_url_unparse(u);
    if (u && v == 4) { vh_op("url_set_path + url_set_user, not unparsed"); spif_url_set_path(u, spif_str_new_from_ptr((spif_charptr_t) "/changed")); spif_url_set_user(u, spif_str_new_from_ptr((spif_charptr_t) "someone")); }
    if (u && v == 6) { vh_op("url_set_query(\"\") + url_set_passwd(\"\"), not unparsed"); spif_url_set_query(u, spif_str_new_from_ptr((spif_charptr_t) "")); spif_url_set_passwd(u, spif_str_new_from_ptr((spif_charptr_t) "")); }
    if (u && v == 5) { vh_op("url_set_port, then unparse"); spif_url_set_port(u, spif_str_new_from_ptr((spif_charptr_t) "8088")); spif_url_unparse(u); }
    return (spif_obj_t) u;
}
static spif_obj_t make_regexp(void)
{
    static const char *P[] = { "a.c", "^abc$", "[A-Z]+", "x|y", "a", "(a)(b)?c", "(unclosed", "", "^ABC$", "A.C" };      /* the last two: a pattern that does not compile, an empty one -- objects all the same */
    int v = (int) vh_below(4);
    const char *pat = P[vh_below(10)];      /* incl. patterns that differ from another one only in letter case */
    spif_regexp_t r;
    if (v == 0) { spif_str_t s = spif_str_new_from_ptr((spif_charptr_t) pat); r = spif_regexp_new_from_str(s); spif_str_del(s); vh_op("regexp_new_from_str(%s)", vh_qs(pat)); }
    else { r = spif_regexp_new_from_ptr((spif_charptr_t) pat); vh_op("regexp_new_from_ptr(%s) variant %d", vh_qs(pat), v); }
    if (r && v >= 2) { const char *f = v == 2 ? "i" : "is"; spif_regexp_set_flags(r, (spif_charptr_t) f); }
    return (spif_obj_t) r;
}
static spif_obj_t make_container(int k, int depth)
{
    spif_obj_t c;
    int shape = (int) vh_below(6);       /* 0 empty; 1 single; 2.. several; 4 with placeholders (lists); 5 nested (lists) */
    if (IS_LIST(k)) {
        c = IMPL(k) == 0 ? (spif_obj_t) SPIF_LIST_NEW(array) : IMPL(k) == 1 ? (spif_obj_t) SPIF_LIST_NEW(linked_list) : (spif_obj_t) SPIF_LIST_NEW(dlinked_list);
        vh_op("%s_new shape %d", KNAME[k], shape);
        if (shape == 0) return c;
        int n = shape == 1 ? 1 : (int) vh_range(2, 6);
        for (int i = 0; i < n; i++) {
            spif_obj_t e = (shape == 5 && depth < 2 && !no_nest && vh_coin(40)) ? make(K_ALIST + (int) vh_below(3), depth + 1) : mk_label();
            if (vh_coin(70)) SPIF_LIST_APPEND((spif_list_t) c, e); else SPIF_LIST_PREPEND((spif_list_t) c, e);
        }
        if (shape == 4) {       /* NULL placeholders: insert_at past the end */
            long at = (long) SPIF_LIST_COUNT((spif_list_t) c) + vh_range(1, 3);
            vh_op("insert_at(label, %ld) -> placeholders", at);
            SPIF_LIST_INSERT_AT((spif_list_t) c, mk_label(), (spif_listidx_t) at);
        }
        if (vh_coin(20)) { vh_op("reverse"); SPIF_LIST_REVERSE((spif_list_t) c); }
        if (vh_coin(20) && SPIF_LIST_COUNT((spif_list_t) c) > 0) { vh_op("remove_at(0)"); spif_obj_t r = SPIF_LIST_REMOVE_AT((spif_list_t) c, 0); if (r) SPIF_OBJ_DEL(r); }
    } else if (IS_VEC(k)) {
        c = IMPL(k) == 0 ? (spif_obj_t) SPIF_VECTOR_NEW(array) : IMPL(k) == 1 ? (spif_obj_t) SPIF_VECTOR_NEW(linked_list) : (spif_obj_t) SPIF_VECTOR_NEW(dlinked_list);
        vh_op("%s_new shape %d", KNAME[k], shape);
        if (shape == 0) return c;
        int n = shape == 1 ? 1 : (int) vh_range(2, 6);
        if (!no_nest && shape == 4) {
            /* elements that compare EQUAL (pairs compare by their key) and still differ: their order is part of the value */
            vh_op("  vector of pairs with one key and different values");
            for (int i = 0; i < n; i++) { char vb[8]; snprintf(vb, sizeof vb, "v%d", i); SPIF_VECTOR_INSERT((spif_vector_t) c, (spif_obj_t) spif_objpair_new_from_both((spif_obj_t) spif_str_new_from_ptr((spif_charptr_t) "samekey"), (spif_obj_t) spif_str_new_from_ptr((spif_charptr_t) vb))); }
            vh_count("vectors_of_equal_but_different_elements", 1);
            return c;
        }
        for (int i = 0; i < n; i++) SPIF_VECTOR_INSERT((spif_vector_t) c, mk_label());
        if (vh_coin(25)) { spif_obj_t probe = mk_label(); spif_obj_t r = SPIF_VECTOR_REMOVE((spif_vector_t) c, probe); if (r) SPIF_OBJ_DEL(r); SPIF_OBJ_DEL(probe); }
    } else {
        c = IMPL(k) == 0 ? (spif_obj_t) SPIF_MAP_NEW(array) : IMPL(k) == 1 ? (spif_obj_t) SPIF_MAP_NEW(linked_list) : (spif_obj_t) SPIF_MAP_NEW(dlinked_list);
        vh_op("%s_new shape %d", KNAME[k], shape);
        if (shape == 0) return c;
        int n = shape == 1 ? 1 : (int) vh_range(2, 6);
        for (int i = 0; i < n; i++) {
            spif_obj_t key = mk_label(), val = (shape == 5 && depth < 2 && !no_nest && vh_coin(30)) ? make(K_ALIST + (int) vh_below(3), depth + 1) : mk_label();
            SPIF_MAP_SET((spif_map_t) c, key, val);
            SPIF_OBJ_DEL(key); SPIF_OBJ_DEL(val);
        }
        if (vh_coin(25)) { spif_obj_t probe = mk_label(); spif_obj_t r = SPIF_MAP_REMOVE((spif_map_t) c, probe); if (r) SPIF_OBJ_DEL(r); SPIF_OBJ_DEL(probe); }
    }
    return c;
}
static spif_obj_t make(int k, int depth)
{
    switch (k) {
    case K_STR: return make_str();
    case K_USTR: return make_ustr();
    case K_MBUFF: return make_mbuff();
    case K_PAIR: return make_pair(depth);
    case K_TOK: return make_tok();
    case K_URL: return make_url();
    case K_REGEXP: return make_regexp();
    default: return make_container(k, depth);
    }
}

/* ---------------------------------------------------------------- mutators (observable change not required; independence is) */
static void mutate(spif_obj_t o, int depth)
{
    int k = kind_of(o);
    int m = (int) vh_below(6);
    if (!o) return;
    switch (k) {
    case K_STR: {
        spif_str_t s = (spif_str_t) o;
        switch (m) {
        case 0: vh_op("  mutate str: append_from_ptr"); spif_str_append_from_ptr(s, (spif_charptr_t) "+tail"); break;
        case 1: vh_op("  mutate str: prepend_char"); spif_str_prepend_char(s, '>'); break;
        case 2: vh_op("  mutate str: reverse"); spif_str_reverse(s); break;
        case 3: vh_op("  mutate str: upcase"); spif_str_upcase(s); break;
        case 4: vh_op("  mutate str: clear('#')"); spif_str_clear(s, '#'); break;
        default: vh_op("  mutate str: done+init_from_ptr"); spif_str_done(s); spif_str_init_from_ptr(s, (spif_charptr_t) "reborn");
        }
        break; }
    case K_USTR: {
        spif_ustr_t s = (spif_ustr_t) o;
        switch (m) {
        case 0: vh_op("  mutate ustr: append_from_ptr"); spif_ustr_append_from_ptr(s, (spif_charptr_t) "+tail"); break;
        case 1: vh_op("  mutate ustr: prepend_char"); spif_ustr_prepend_char(s, '>'); break;
        case 2: vh_op("  mutate ustr: reverse"); spif_ustr_reverse(s); break;
        case 3: vh_op("  mutate ustr: upcase"); spif_ustr_upcase(s); break;
        case 4: vh_op("  mutate ustr: clear('#')"); spif_ustr_clear(s, '#'); break;
        default: vh_op("  mutate ustr: done+init_from_ptr"); spif_ustr_done(s); spif_ustr_init_from_ptr(s, (spif_charptr_t) "reborn");
        }
        break; }
    case K_MBUFF: {
        spif_mbuff_t b = (spif_mbuff_t) o;
        switch (m) {
        case 0: vh_op("  mutate mbuff: append_from_ptr"); spif_mbuff_append_from_ptr(b, (spif_byteptr_t) "\0+\0", 3); break;
        case 1: vh_op("  mutate mbuff: reverse"); spif_mbuff_reverse(b); break;
        case 2: vh_op("  mutate mbuff: clear(0x55)"); spif_mbuff_clear(b, 0x55); break;
        case 3: vh_op("  mutate mbuff: prepend_from_ptr"); spif_mbuff_prepend_from_ptr(b, (spif_byteptr_t) "hd", 2); break;
        default: vh_op("  mutate mbuff: done+init_from_ptr"); spif_mbuff_done(b); spif_mbuff_init_from_ptr(b, (spif_byteptr_t) "re\0born", 7);
        }
        break; }
    case K_PAIR: {
        spif_objpair_t p = (spif_objpair_t) o;
        if (m < 2 && spif_objpair_get_key(p)) { vh_op("  mutate pair: key in place"); mutate(spif_objpair_get_key(p), depth + 1); }
        else if (m < 4 && spif_objpair_get_value(p)) { vh_op("  mutate pair: value in place"); mutate(spif_objpair_get_value(p), depth + 1); }
        else if (m == 4) { vh_op("  mutate pair: set_value(new)"); spif_objpair_set_value(p, mk_label()); }
        else { vh_op("  mutate pair: set_key(new)"); spif_objpair_set_key(p, mk_label()); }
        break; }
    case K_TOK: {
        spif_tok_t t = (spif_tok_t) o;
        if (m == 0 && spif_tok_get_src(t)) { vh_op("  mutate tok: src in place"); spif_str_append_from_ptr(spif_tok_get_src(t), (spif_charptr_t) " extra"); }
        else if (m == 1) { vh_op("  mutate tok: set_src"); spif_tok_set_src(t, spif_str_new_from_ptr((spif_charptr_t) "new source text")); }
        else if (m == 2) { vh_op("  mutate tok: set_sep"); spif_tok_set_sep(t, spif_str_new_from_ptr((spif_charptr_t) "e")); }
        else if (m == 3 && spif_tok_get_tokens(t) && SPIF_LIST_COUNT(spif_tok_get_tokens(t)) > 0) { vh_op("  mutate tok: first token in place"); mutate(SPIF_LIST_GET(spif_tok_get_tokens(t), 0), depth + 1); }
        else if (spif_tok_get_src(t)) { vh_op("  mutate tok: eval"); spif_tok_set_quote(t, '`'); spif_tok_eval(t); }
        else { vh_op("  mutate tok: set_src on empty"); spif_tok_set_src(t, spif_str_new_from_ptr((spif_charptr_t) "p q")); }
        break; }
    case K_URL: {
        spif_url_t u = (spif_url_t) o;
        if (m == 0 && spif_url_get_host(u)) { vh_op("  mutate url: host in place"); spif_str_append_from_ptr(spif_url_get_host(u), (spif_charptr_t) ".test"); }
        else if (m == 1) { vh_op("  mutate url: set_path"); spif_url_set_path(u, spif_str_new_from_ptr((spif_charptr_t) "/other")); }
        else if (m == 2) { vh_op("  mutate url: set_port+unparse"); spif_url_set_port(u, spif_str_new_from_ptr((spif_charptr_t) "99")); spif_url_unparse(u); }
        else if (m == 3 && spif_url_get_query(u)) { vh_op("  mutate url: query in place"); spif_str_upcase(spif_url_get_query(u)); }
        else { vh_op("  mutate url: set_user"); spif_url_set_user(u, spif_str_new_from_ptr((spif_charptr_t) "root")); }
        break; }
    case K_REGEXP: {
        spif_regexp_t r = (spif_regexp_t) o;
        if (m < 3) { vh_op("  mutate regexp: set_flags"); spif_regexp_set_flags(r, (spif_charptr_t) (m == 0 ? "i" : m == 1 ? "" : "s")); }
        else { vh_op("  mutate regexp: pattern text + compile"); spif_str_append_from_ptr(SPIF_STR(r), (spif_charptr_t) "|xyz"); spif_regexp_compile(r); }
        break; }
    default:
        if (IS_LIST(k)) {
            spif_list_t l = (spif_list_t) o;
            long n = (long) SPIF_LIST_COUNT(l);
            if (m == 0) { vh_op("  mutate list: append"); SPIF_LIST_APPEND(l, mk_label()); }
            else if (m == 1) { vh_op("  mutate list: prepend"); SPIF_LIST_PREPEND(l, mk_label()); }
            else if (m == 2 && n > 0) { long i = vh_range(0, n - 1); vh_op("  mutate list: remove_at(%ld)", i); spif_obj_t r = SPIF_LIST_REMOVE_AT(l, (spif_listidx_t) i); if (r) SPIF_OBJ_DEL(r); }
            else if (m == 3 && n > 0) { long i = vh_range(0, n - 1); vh_op("  mutate list: element %ld in place", i); mutate(SPIF_LIST_GET(l, (spif_listidx_t) i), depth + 1); }
            else if (m == 4) { vh_op("  mutate list: reverse"); SPIF_LIST_REVERSE(l); SPIF_LIST_APPEND(l, mk_label()); }
            else { vh_op("  mutate list: insert_at(1)"); SPIF_LIST_INSERT_AT(l, mk_label(), 1); }
        } else if (IS_VEC(k)) {
            spif_vector_t v = (spif_vector_t) o;
            if (m < 3) { vh_op("  mutate vector: insert"); SPIF_VECTOR_INSERT(v, mk_label()); }
            else { spif_obj_t probe = mk_label(); vh_op("  mutate vector: remove(%s) + insert", vh_qs((char *) SPIF_STR_STR((spif_str_t) probe))); spif_obj_t r = SPIF_VECTOR_REMOVE(v, probe); if (r) SPIF_OBJ_DEL(r); SPIF_OBJ_DEL(probe); SPIF_VECTOR_INSERT(v, (spif_obj_t) spif_str_new_from_ptr((spif_charptr_t) "~last")); }
        } else if (IS_MAP(k)) {
            spif_map_t mp = (spif_map_t) o;
            spif_obj_t key = mk_label(), val = (spif_obj_t) spif_str_new_from_ptr((spif_charptr_t) "changed");
            if (m < 3) { vh_op("  mutate map: set(%s)", vh_qs((char *) SPIF_STR_STR((spif_str_t) key))); SPIF_MAP_SET(mp, key, val); }
            else if (m == 3) { vh_op("  mutate map: remove(%s)+set", vh_qs((char *) SPIF_STR_STR((spif_str_t) key))); spif_obj_t r = SPIF_MAP_REMOVE(mp, key); if (r) SPIF_OBJ_DEL(r); spif_obj_t k2 = (spif_obj_t) spif_str_new_from_ptr((spif_charptr_t) "~k"); SPIF_MAP_SET(mp, k2, val); SPIF_OBJ_DEL(k2); }
            else { spif_obj_t got = SPIF_MAP_GET(mp, key); if (got) { vh_op("  mutate map: value in place"); mutate(got, depth + 1); } else { vh_op("  mutate map: set(new)"); SPIF_MAP_SET(mp, key, val); } }
            SPIF_OBJ_DEL(key); SPIF_OBJ_DEL(val);
        }
    }
}

/* ---------------------------------------------------------------- dup scenario */
static void scenario_dup(int k)
{
    char key[80];
    spif_obj_t o = make(k, 0);
    if (!o) { vh_count("factory_returned_null", 1); return; }
    const char *w = rep_check(o, 0);
    if (w) { snprintf(key, sizeof key, "factory:%s:representation", KNAME[k]); vh_fail(key, "object fresh from its constructors violates its representation invariant: %s", w); }
    char *v0 = observe(o);
    vh_op("dup(%s) value=%.150s", KNAME[k], v0);
    spif_obj_t d = SPIF_OBJ_DUP(o);
    vh_evals(1);
    snprintf(key, sizeof key, "dup:%s:null", KNAME[k]);
    VH_CHECK(d != NULL, key, "dup returned NULL for %.300s", v0);
    snprintf(key, sizeof key, "dup:%s:same-object", KNAME[k]);
    VH_CHECK(d != o, key, "dup returned the original object");
    snprintf(key, sizeof key, "dup:%s:class", KNAME[k]);
    VH_CHECK(SPIF_OBJ_CLASS(d) == SPIF_OBJ_CLASS(o), key, "copy has a different class table");
    const char *tn = (const char *) SPIF_OBJ_TYPE(d), *to = (const char *) SPIF_OBJ_TYPE(o);
    snprintf(key, sizeof key, "type:%s", KNAME[k]);
    VH_CHECK(tn && to && !strcmp(tn, to) && !strcmp(tn, KTYPE[k]), key, "type() = %s (copy) / %s (original), class is %s", vh_qs(tn), vh_qs(to), KTYPE[k]);
    char *vd = observe(d);
    snprintf(key, sizeof key, "dup:%s:value", KNAME[k]);
    VH_CHECK(!strcmp(v0, vd), key, "copy differs: original %.400s ; copy %.400s", v0, vd);
    if ((w = rep_check(d, 0))) { snprintf(key, sizeof key, "dup:%s:representation", KNAME[k]); vh_fail(key, "copy violates its representation invariant: %s (value %.200s)", w, v0); }
    {   /* original must still observe the same after being copied */
        char *v1 = observe(o);
        snprintf(key, sizeof key, "dup:%s:original-changed", KNAME[k]);
        VH_CHECK(!strcmp(v0, v1), key, "taking a copy changed the original: %.300s -> %.300s", v0, v1);
        free(v1);
    }
    vh_cov(vh_mix(vh_hash_str(v0, 11), (uint64_t) k));
    /* independence: mutate copy -> original unchanged; mutate original -> copy unchanged */
    int order = (int) vh_below(2);
    for (int round = 0; round < 2; round++) {
        spif_obj_t mut = (round ^ order) ? o : d, keep = (round ^ order) ? d : o;
        char *before = observe(keep);
        vh_op(" mutate the %s", mut == o ? "original" : "copy");
        mutate(mut, 0);
        char *after = observe(keep);
        snprintf(key, sizeof key, "dup:%s:not-independent", KNAME[k]);
        VH_CHECK(!strcmp(before, after), key, "mutating the %s changed the %s: %.300s -> %.300s", mut == o ? "original" : "copy", keep == o ? "original" : "copy", before, after);
        if ((w = rep_check(keep, 0))) { snprintf(key, sizeof key, "dup:%s:representation-after-mutation", KNAME[k]); vh_fail(key, "%s", w); }
        free(before); free(after);
        vh_evals(1);
    }
    /* empty or delete one; the other must be intact and survive a further mutation */
    {
        int which = (int) vh_below(2), how = (int) vh_below(2);
        spif_obj_t gone = which ? o : d, keep = which ? d : o;
        char *before = observe(keep);
        vh_op(" %s the %s", how ? "del" : "done", gone == o ? "original" : "copy");
        if (how) SPIF_OBJ_DEL(gone); else SPIF_OBJ_DONE(gone);
        char *after = observe(keep);
        snprintf(key, sizeof key, "dup:%s:not-independent-of-%s", KNAME[k], how ? "del" : "done");
        VH_CHECK(!strcmp(before, after), key, "%s of the %s changed the other: %.300s -> %.300s", how ? "del" : "done", gone == o ? "original" : "copy", before, after);
        mutate(keep, 0);
        char *again = observe(keep);
        if ((w = rep_check(keep, 0))) { snprintf(key, sizeof key, "dup:%s:representation-after-other-%s", KNAME[k], how ? "del" : "done"); vh_fail(key, "%s", w); }
        free(before); free(after); free(again);
        if (!how) {
            /* done() leaves the object reusable: observing and deleting it must be safe */
            char *e = observe(gone); free(e);
            SPIF_OBJ_DEL(gone);
        }
        SPIF_OBJ_DEL(keep);
        vh_evals(1);
    }
    free(v0); free(vd);
    vh_count(KNAME[k], 1);
}

/* ---------------------------------------------------------------- comp scenario */
static int cmp3(spif_obj_t a, spif_obj_t b, int k)
{
    /* NULL self cannot go through the object's own class table: use the class's comp slot directly */
    spif_class_t c = kclass(k);
    return (int) ((spif_cmp_t (*)(spif_obj_t, spif_obj_t)) c->comp)(a, b);
}
static const char *cn(int c) { return c == SPIF_CMP_LESS ? "LESS" : c == SPIF_CMP_EQUAL ? "EQUAL" : c == SPIF_CMP_GREATER ? "GREATER" : "?"; }

/* objects placed at chosen distances inside one address-space reservation, so that address differences of 2^31 and
 * more occur deterministically (an order that truncates a 64-bit difference to int is inconsistent there) */
#include <sys/mman.h>
static char *far_base;
static const size_t FAR_OFF[] = { 0, 0x80000000UL, 0x100000040UL, 0x180000080UL, 0x2400000c0UL, 0x2c0000100UL, 0x3000001c0UL };
static spif_obj_t make_far(int k, int i)
{
    if (!far_base) {
        far_base = mmap(NULL, 0x340000000UL, PROT_NONE, MAP_PRIVATE | MAP_ANONYMOUS | MAP_NORESERVE, -1, 0);
        if (far_base == MAP_FAILED) { far_base = NULL; return NULL; }
        for (int j = 0; j < 7; j++) mprotect(far_base + (FAR_OFF[j] & ~0xfffUL), 8192, PROT_READ | PROT_WRITE);
    }
    spif_obj_t o = (spif_obj_t) (far_base + FAR_OFF[i % 7]);
    memset(o, 0, 256);
    spif_class_t c = kclass(k);
    ((spif_bool_t (*)(spif_obj_t)) c->init)(o);
    return o;
}

static void scenario_comp(int k)
{
    char key[80];
    enum { N = 7 };
    spif_obj_t v[N];
    char *ov[N];
    int far = IS_CONT(k) && vh_coin(50);
    no_nest = 1;
    v[0] = NULL;
    for (int i = 1; i < N; i++) {
        if (far) { v[i] = make_far(k, i); if (!v[i]) { far = 0; v[i] = make(k, 0); } }
        else if (i >= 2 && vh_coin(30)) { v[i] = SPIF_OBJ_DUP(v[1 + vh_below((uint64_t) i - 1)]); if (!v[i]) v[i] = make(k, 0); vh_op("v[%d] = dup of an earlier one", i); }   /* equal value, different address */
        else if (i >= 2 && vh_coin(35)) {      /* a near relative: copy of an earlier one with one mutation (shared prefix, different tail or length) */
            v[i] = SPIF_OBJ_DUP(v[1 + vh_below((uint64_t) i - 1)]);
            if (!v[i]) v[i] = make(k, 0); else { vh_op("v[%d] = dup of an earlier one, then mutated", i); mutate(v[i], 0); }
            vh_count("comp_near_relatives", 1);
        }
        else v[i] = make(k, 0);
        if (!v[i]) { vh_count("factory_returned_null", 1); v[i] = make(k, 0); }
    }
    no_nest = 0;
    for (int i = 0; i < N; i++) ov[i] = observe(v[i]);
    int c[N][N];
    for (int i = 0; i < N; i++) for (int j = 0; j < N; j++) {
        if (!v[i] && !v[j]) { c[i][j] = SPIF_CMP_EQUAL; continue; }
        vh_op("comp(%s, v[%d]=%.60s, v[%d]=%.60s)", KNAME[k], i, ov[i], j, ov[j]);
        c[i][j] = cmp3(v[i], v[j], k);
        vh_evals(1);
        snprintf(key, sizeof key, "comp:%s:range", KNAME[k]);
        VH_CHECK(c[i][j] == SPIF_CMP_LESS || c[i][j] == SPIF_CMP_EQUAL || c[i][j] == SPIF_CMP_GREATER, key, "comp returned %d", c[i][j]);
    }
    for (int i = 0; i < N; i++) {
        snprintf(key, sizeof key, "comp:%s:reflexive", KNAME[k]);
        VH_CHECK(c[i][i] == SPIF_CMP_EQUAL, key, "comp(a,a) = %s for a = %.300s", cn(c[i][i]), ov[i]);
        if (i > 0) {
            snprintf(key, sizeof key, "comp:%s:null-order", KNAME[k]);
            VH_CHECK(c[0][i] == SPIF_CMP_LESS && c[i][0] == SPIF_CMP_GREATER, key, "comp(NULL,a)=%s comp(a,NULL)=%s for a = %.300s", cn(c[0][i]), cn(c[i][0]), ov[i]);
        }
        for (int j = 0; j < N; j++) {
            snprintf(key, sizeof key, "comp:%s:antisymmetric", KNAME[k]);
            VH_CHECK(c[i][j] == -c[j][i], key, "comp(a,b)=%s but comp(b,a)=%s ; a = %.250s ; b = %.250s", cn(c[i][j]), cn(c[j][i]), ov[i], ov[j]);
            /* the same value at a different address compares equal for value-ordered classes (dup'd objects) */
            for (int l = 0; l < N; l++) {
                if (c[i][j] <= 0 && c[j][l] <= 0) {
                    snprintf(key, sizeof key, "comp:%s:transitive", KNAME[k]);
                    VH_CHECK(c[i][l] <= 0, key, "a<=b (%s), b<=c (%s) but comp(a,c)=%s ; a = %.200s ; b = %.200s ; c = %.200s", cn(c[i][j]), cn(c[j][l]), cn(c[i][l]), ov[i], ov[j], ov[l]);
                }
            }
        }
    }
    /* comp(a,b) == EQUAL only for operands whose compared content is equal: text for str/ustr, bytes for mbuff, and for the
     * array-backed containers (whose order is element-wise) same length and pairwise EQUAL elements / matching placeholders */
    for (int i = 1; i < N; i++) for (int j = 1; j < N; j++) {
        if (i == j || c[i][j] != SPIF_CMP_EQUAL || far) continue;
        int same = 1;
        if (k == K_STR || k == K_USTR || k == K_MBUFF) same = !strcmp(ov[i], ov[j]);
        else if (IS_CONT(k) && IMPL(k) == 0) {
            spif_array_t a = (spif_array_t) v[i], b = (spif_array_t) v[j];
            if (a->len != b->len) same = 0;
            for (long e = 0; same && e < a->len; e++) {
                if (!a->items[e] || !b->items[e]) same = (!a->items[e] && !b->items[e]);
                else same = (SPIF_OBJ_COMP(a->items[e], b->items[e]) == SPIF_CMP_EQUAL);
            }
        } else continue;
        snprintf(key, sizeof key, "comp:%s:equal-but-different", KNAME[k]);
        VH_CHECK(same, key, "comp(a,b) = EQUAL for operands that differ: a = %.300s ; b = %.300s", ov[i], ov[j]);
        vh_count("comp_equal_pairs_checked", 1);
    }
    /* equal-prefix buffers of different length are not equal */
    if (k == K_STR || k == K_USTR || k == K_MBUFF) {
        const char *w = rword();
        size_t n = strlen(w);
        if (n >= 2) {
            spif_obj_t a, b;
            if (k == K_STR) { a = (spif_obj_t) spif_str_new_from_ptr((spif_charptr_t) w); b = (spif_obj_t) spif_str_new_from_buff((spif_charptr_t) w, (spif_stridx_t) n); /* n-1 chars */ }
            else if (k == K_USTR) { a = (spif_obj_t) spif_ustr_new_from_ptr((spif_charptr_t) w); b = (spif_obj_t) spif_ustr_new_from_buff((spif_charptr_t) w, (spif_ustridx_t) n); }
            else { a = (spif_obj_t) spif_mbuff_new_from_ptr((spif_byteptr_t) w, (spif_memidx_t) n); b = (spif_obj_t) spif_mbuff_new_from_ptr((spif_byteptr_t) w, (spif_memidx_t) n - 1); }
            char *oa = observe(a), *ob = observe(b);
            if (strcmp(oa, ob)) {
                vh_op("prefix pair: %.80s vs %.80s", oa, ob);
                int x = cmp3(a, b, k), y = cmp3(b, a, k);
                snprintf(key, sizeof key, "comp:%s:prefix-equal", KNAME[k]);
                VH_CHECK(x != SPIF_CMP_EQUAL && y != SPIF_CMP_EQUAL && x == -y, key, "strict prefix compares %s/%s: %.200s vs %.200s", cn(x), cn(y), oa, ob);
                vh_count("prefix_pairs", 1);
                vh_evals(2);
            }
            free(oa); free(ob);
            SPIF_OBJ_DEL(a); SPIF_OBJ_DEL(b);
        }
    }
    uint64_t h = (uint64_t) k;
    for (int i = 0; i < N; i++) { h = vh_hash_str(ov[i], h); free(ov[i]); }
    vh_cov(vh_mix(h, 99));
    for (int i = 1; i < N; i++) {
        if (far) { spif_class_t cl = kclass(k); ((spif_bool_t (*)(spif_obj_t)) cl->done)(v[i]); }
        else SPIF_OBJ_DEL(v[i]);
    }
    vh_count(far ? "comp_far_address_sets" : "comp_sets", 1);
    {   char nm[64]; snprintf(nm, sizeof nm, "comp_%s", KNAME[k]); vh_count(nm, 1); }
}

int main(int argc, char **argv)
{
    vh_init(argc, argv, "C05");
    libast_set_program_name("c05"); libast_set_program_version("0");
    while (vh_next_case()) {
        if (VH_CASE_TRY()) {
            int k = (int) (vh_case_idx % K_NCLASS);
            if (getenv("C05_CLASS")) k = atoi(getenv("C05_CLASS")) % K_NCLASS;     /* debugging aid: force one class */
            int what = (int) ((vh_case_idx / K_NCLASS) % 3);
            no_nest = 0;
            if (what < 2) scenario_dup(k); else scenario_comp(k);
            if ((vh_case_idx % 997) == 0) vh_sample("case %ld: class %s, %s scenario", vh_case_idx, KNAME[k], what < 2 ? "dup/independence" : "comparison laws");
        }
        vh_case_done();
    }
    return vh_finish();
}
