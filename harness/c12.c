/* C12: spiftool_split, the tok class and the word utilities implement one quoting grammar consistently.
 * DESIGN.md §4 C12; grammar text = the C12 property statement.
 *
 * Case index -> input (deterministic):
 *   [0, E)   every string of length <= L over {a, ' ', '"', '\'', '\\', ':'}   (L = 6 quick, 8 thorough)
 *   >= E     random strings up to 2 kB over a wider alphabet (tabs, newlines, high-bit bytes)
 * Every case drives: split + tok under the three delimiter sets {default whitespace, ":", ": "} against a reference
 * tokenizer, split-vs-tok, join/split round trip on the plain tokens, and num_words / get_word / get_pword against
 * the two word grammars.  Every input (and delimiter string) is an exact-size heap block.
 *
 * Option --no-empty-tok (set by checks/c12.py when its probe shows that spif_str_trim() of an empty string is still
 * unsafe in this tree -- a str.c defect owned by C01): tok is not driven on inputs whose token list contains an
 * empty token.
 */
#define _GNU_SOURCE
#include <config.h>
#include <libast.h>
#include "vh.h"

static const char ALPHA[6] = { 'a', ' ', '"', '\'', '\\', ':' };
#define NALPHA 6
static int no_empty_tok;

static int r_isspace(unsigned char c) { return c == ' ' || (c >= '\t' && c <= '\r'); }
static int is_q(char c) { return c == '"' || c == '\''; }

/* ------------------------------------------------------------------ token lists */
typedef struct { char **v; size_t n, cap; } toks_t;
static void toks_add(toks_t *t, const char *s, size_t n)
{
    if (t->n == t->cap) { t->cap = t->cap ? t->cap * 2 : 8; t->v = realloc(t->v, t->cap * sizeof *t->v); }
    char *p = malloc(n + 1); memcpy(p, s, n); p[n] = 0;
    t->v[t->n++] = p;
}
static void toks_free(toks_t *t) { for (size_t i = 0; i < t->n; i++) free(t->v[i]); free(t->v); t->v = NULL; t->n = t->cap = 0; }

typedef struct { int empty_tokens, esc_delim, esc_quote, foreign_quote, open_at_end, trailing_backslash; } feat_t;

/* Reference tokenizer, written from the property statement:
 *   tokens are separated by runs of delimiters (whitespace when delims == NULL);
 *   ' and " group (delimiters inside are ordinary) and are removed; the other quote character inside a group is ordinary;
 *   a backslash followed by a delimiter, or -- inside a group -- by the group's closing quote, is dropped and makes that
 *   character ordinary; any other backslash (also one at the very end) is an ordinary character;
 *   a token that consists only of an empty group is an empty token. */
static int ref_is_delim(const char *delims, char c) { return c && (delims ? strchr(delims, c) != NULL : r_isspace((unsigned char) c)); }
static void ref_split(const char *delims, const char *s, toks_t *out, feat_t *f)
{
    size_t n = strlen(s), i = 0;
    char *buf = malloc(n + 1);
    memset(f, 0, sizeof *f);
    while (s[i] && ref_is_delim(delims, s[i])) i++;
    while (s[i]) {
        size_t k = 0; char quote = 0;
        while (s[i] && (quote || !ref_is_delim(delims, s[i]))) {
            char c = s[i];
            if (is_q(c)) {
                if (!quote) quote = c;
                else if (quote == c) quote = 0;
                else { buf[k++] = c; f->foreign_quote++; }
                i++;
            } else {
                if (c == '\\' && s[i + 1] && ref_is_delim(delims, s[i + 1])) { i++; f->esc_delim++; }
                else if (c == '\\' && quote && s[i + 1] == quote) { i++; f->esc_quote++; }
                else if (c == '\\' && !s[i + 1]) f->trailing_backslash++;
                buf[k++] = s[i++];
            }
        }
        if (quote) f->open_at_end++;
        if (k == 0) f->empty_tokens++;
        toks_add(out, buf, k);
        while (s[i] && ref_is_delim(delims, s[i])) i++;
    }
    free(buf);
}

static void trim_copy(const char *s, char *out)
{
    size_t a = 0, b = strlen(s);
    while (a < b && r_isspace((unsigned char) s[a])) a++;
    while (b > a && r_isspace((unsigned char) s[b - 1])) b--;
    memcpy(out, s + a, b - a); out[b - a] = 0;
}

static const char *show_list(char **v, size_t n)
{
    static char bufs[4][700]; static int k;
    char *b = bufs[k++ % 4]; size_t o = 0;
    o += (size_t) snprintf(b + o, 700 - o, "[");
    for (size_t i = 0; i < n && o < 600; i++) o += (size_t) snprintf(b + o, 700 - o, "%s%s", i ? ", " : "", v[i] ? vh_q(v[i], (long) (strlen(v[i]) > 40 ? 40 : strlen(v[i]))) : "NULL");
    snprintf(b + o, 700 - o, o >= 600 ? ", ...](%zu)" : "](%zu)", n);
    return b;
}

/* ------------------------------------------------------------------ split / tok / join against the reference */
/* the last one is the empty set: nothing separates, the whole text is one token (quotes and backslashes still apply) */
static const char *DSETS[4] = { NULL, ":", ": ", "" };
static const char *DNAME[4] = { "default", "\":\"", "\": \"", "\"\" (empty set)" };

static void check_split_tok_join(const char *s0, int d, int small)
{
    const char *dl0 = DSETS[d];
    char *s = vh_heapstr(s0), *dl = dl0 ? vh_heapstr(dl0) : NULL;
    toks_t ref = { 0 }; feat_t f;
    ref_split(dl0, s0, &ref, &f);

    /* ---- spiftool_split */
    vh_op("split(%s, %s)", dl0 ? vh_qs(dl0) : "NULL", vh_qs(s0));
    char **sl = (char **) spiftool_split((spif_charptr_t) dl, (spif_charptr_t) s);
    vh_evals(1);
    VH_CHECK(strcmp(s, s0) == 0, "split:input-changed", "split modified its input");
    size_t ns = 0;
    if (sl) while (sl[ns]) { ns++; if (ns > strlen(s0) + 1) vh_fail("split:unterminated-list", "split(%s, %s): no NULL sentinel within %zu entries", DNAME[d], vh_qs(s0), ns); }
    if (ref.n == 0) VH_CHECK(sl == NULL || ns == 0, "split:tokens", "split(%s, %s) = %s, reference: no tokens", DNAME[d], vh_qs(s0), show_list(sl, ns));
    else {
        int same = sl && ns == ref.n;
        for (size_t i = 0; same && i < ns; i++) same = strcmp(sl[i], ref.v[i]) == 0;
        if (!same) vh_fail("split:tokens", "split(%s, %s) = %s, reference %s", DNAME[d], vh_qs(s0), sl ? show_list(sl, ns) : "NULL", show_list(ref.v, ref.n));
        if (vh_have_asan()) {
            VH_CHECK(vh_alloc_size(sl) >= (ns + 1) * sizeof(char *), "split:list-block-size", "split list of %zu tokens lives in a block of %zu bytes", ns, vh_alloc_size(sl));
            for (size_t i = 0; i < ns; i++)
                VH_CHECK(vh_alloc_size(sl[i]) >= strlen(sl[i]) + 1, "split:token-block-size", "token %s lives in a block of %zu bytes", vh_qs(sl[i]), vh_alloc_size(sl[i]));
        }
    }
    vh_count("split_calls", 1);

    /* ---- tok */
    int drive_tok = !(no_empty_tok && f.empty_tokens);
    size_t nt = 0; char **tl = NULL;
    if (drive_tok) {
        vh_op("tok(src=%s, sep=%s) eval", vh_qs(s0), dl0 ? vh_qs(dl0) : "NULL");
        spif_tok_t t = spif_tok_new_from_ptr((spif_charptr_t) s);
        VH_CHECK(!SPIF_TOK_ISNULL(t), "tok:new", "spif_tok_new_from_ptr(%s) returned NULL", vh_qs(s0));
        if (dl) spif_tok_set_sep(t, spif_str_new_from_ptr((spif_charptr_t) dl));
        if (vh_coin(20)) {           /* a copy of a configured tokenizer is the same tokenizer */
            spif_tok_t c = spif_tok_dup(t);
            VH_CHECK(!SPIF_TOK_ISNULL(c), "tok:dup", "spif_tok_dup returned NULL");
            spif_tok_del(t); t = c;
            vh_count("tok_evals_on_a_copy", 1);
        }
        spif_bool_t ok = spif_tok_eval(t);
        vh_evals(1);
        VH_CHECK(ok, "tok:eval-refused", "spif_tok_eval refused src=%s", vh_qs(s0));
        VH_CHECK(strcmp(s, s0) == 0, "tok:input-changed", "tok modified the caller's string");
        spif_list_t lst = SPIF_TOK_LIST(t);
        VH_CHECK(!SPIF_LIST_ISNULL(lst), "tok:no-list", "spif_tok_eval(%s) left no token list", vh_qs(s0));
        long cnt = (long) SPIF_LIST_COUNT(lst);
        tl = calloc((size_t) (cnt > 0 ? cnt : 0) + 1, sizeof *tl);
        spif_iterator_t it = SPIF_LIST_ITERATOR(lst);
        while (SPIF_ITERATOR_HAS_NEXT(it)) {
            spif_str_t ts = (spif_str_t) SPIF_ITERATOR_NEXT(it);
            VH_CHECK((long) nt < cnt, "tok:list-count", "token list iterates over more than its count %ld", cnt);
            VH_CHECK(!SPIF_STR_ISNULL(ts), "tok:null-token", "token list of src=%s holds a NULL entry at %zu", vh_qs(s0), nt);
            const char *tx = (const char *) SPIF_STR_STR(ts);
            tl[nt++] = strdup(tx ? tx : "");
        }
        SPIF_ITERATOR_DEL(it);
        VH_CHECK((long) nt == cnt, "tok:list-count", "token list count %ld but iteration yields %zu", cnt, nt);
        /* tok == reference modulo trimming of each token */
        int same = nt == ref.n;
        char *ta = malloc(strlen(s0) + 2), *tb = malloc(strlen(s0) + 2);
        size_t bad = 0;
        for (size_t i = 0; same && i < nt; i++) {
            VH_CHECK(strlen(tl[i]) <= strlen(s0), "tok:token-too-long", "token longer than the source");
            trim_copy(tl[i], ta); trim_copy(ref.v[i], tb);
            if (strcmp(ta, tb) != 0) { same = 0; bad = i; }
        }
        if (!same) vh_fail("tok:tokens", "tok(src=%s, sep=%s) = %s, reference (before trimming) %s", vh_qs(s0), DNAME[d], show_list(tl, nt), show_list(ref.v, ref.n));
        /* split vs tok token for token */
        VH_CHECK(nt == ns, "split-vs-tok:count", "split gives %zu tokens, tok %zu for %s / %s", ns, nt, vh_qs(s0), DNAME[d]);
        for (size_t i = 0; i < nt; i++) {
            trim_copy(tl[i], ta); trim_copy(sl[i], tb);
            VH_CHECK(strcmp(ta, tb) == 0, "split-vs-tok:token", "token %zu of %s / %s: split %s, tok %s", i, vh_qs(s0), DNAME[d], vh_qs(sl[i]), vh_qs(tl[i]));
        }
        free(ta); free(tb);
        if (!small && vh_coin(30)) {
            /* evaluating again must give the same list */
            vh_op("tok eval again");
            spif_tok_eval(t);
            vh_evals(1);
            VH_CHECK((size_t) SPIF_LIST_COUNT(SPIF_TOK_LIST(t)) == nt, "tok:re-eval", "second spif_tok_eval gives %ld tokens, first %zu", (long) SPIF_LIST_COUNT(SPIF_TOK_LIST(t)), nt);
            vh_count("tok_re_evals", 1);
        }
        spif_tok_del(t);
        vh_count("tok_evals", 1);
        if (f.empty_tokens) vh_count("tok_empty_token_inputs", 1);
    } else vh_count("tok_skipped_empty_token", 1);

    /* ---- join(plain tokens) then split */
    {
        size_t np = 0;
        char **pl = calloc(ref.n + 1, sizeof *pl);
        for (size_t i = 0; i < ref.n; i++) {
            const char *t = ref.v[i]; int plain = *t != 0;
            for (const char *c = t; *c; c++) if (is_q(*c) || *c == '\\' || ref_is_delim(dl0, *c)) plain = 0;
            if (plain) pl[np++] = vh_heapstr(t);
        }
        if (np && !(dl0 && !*dl0)) {
            const char *seps[3]; int nsep = 0;
            if (!dl0) { seps[nsep++] = " "; seps[nsep++] = "\t"; seps[nsep++] = " \n "; }
            else if (d == 1) { seps[nsep++] = ":"; seps[nsep++] = "::"; }
            else { seps[nsep++] = ":"; seps[nsep++] = " "; seps[nsep++] = ": "; }
            const char *sep0 = seps[small ? (np + strlen(s0)) % (size_t) nsep : vh_below((uint64_t) nsep)];
            char *sep = vh_heapstr(sep0);
            vh_op("join(%s, %s)", vh_qs(sep0), show_list(pl, np));
            char *j = (char *) spiftool_join((spif_charptr_t) sep, (spif_charptr_t *) pl);
            vh_evals(1);
            VH_CHECK(j != NULL, "join:null", "join(%s, %s) returned NULL", vh_qs(sep0), show_list(pl, np));
            size_t want = 0; for (size_t i = 0; i < np; i++) want += strlen(pl[i]) + (i ? strlen(sep0) : 0);
            char *wj = malloc(want + 1); wj[0] = 0;
            for (size_t i = 0; i < np; i++) { if (i) strcat(wj, sep0); strcat(wj, pl[i]); }
            if (vh_have_asan()) VH_CHECK(vh_alloc_size(j) >= want + 1, "join:block-size", "join result needs %zu bytes, block has %zu", want + 1, vh_alloc_size(j));
            VH_CHECK(strcmp(j, wj) == 0, "join:text", "join(%s, %s) = %s, expected %s", vh_qs(sep0), show_list(pl, np), vh_qs(j), vh_qs(wj));
            char *jj = vh_heapstr(j);
            vh_op("split(%s, joined %s)", dl0 ? vh_qs(dl0) : "NULL", vh_qs(jj));
            char **s2 = (char **) spiftool_split((spif_charptr_t) dl, (spif_charptr_t) jj);
            vh_evals(1);
            size_t n2 = 0; if (s2) while (s2[n2]) n2++;
            int same = n2 == np;
            for (size_t i = 0; same && i < np; i++) same = strcmp(s2[i], pl[i]) == 0;
            if (!same) vh_fail("join-split:roundtrip", "split(%s, join(%s, %s)) = %s", DNAME[d], vh_qs(sep0), show_list(pl, np), s2 ? show_list(s2, n2) : "NULL");
            for (size_t i = 0; i < n2; i++) free(s2[i]);
            free(s2); free(jj); free(wj); free(j); free(sep);
            vh_count("join_roundtrips", 1);
        }
        for (size_t i = 0; i < np; i++) free(pl[i]);
        free(pl);
    }

    if (f.empty_tokens) vh_count("inputs_with_empty_token", 1);
    if (f.esc_delim) vh_count("inputs_with_escaped_delimiter", 1);
    if (f.esc_quote) vh_count("inputs_with_escaped_closing_quote", 1);
    if (f.foreign_quote) vh_count("inputs_with_foreign_quote_in_group", 1);
    if (f.open_at_end) vh_count("inputs_with_unclosed_group", 1);
    if (f.trailing_backslash) vh_count(dl0 ? "inputs_ending_in_backslash_explicit_delims" : "inputs_ending_in_backslash_default_delims", 1);
    if (!small) {
        size_t L = strlen(s0);
        vh_cov(vh_mix(vh_mix(20 + (uint64_t) d, (uint64_t) (ref.n > 6 ? 6 : ref.n)),
                      (uint64_t) ((f.empty_tokens != 0) | (f.esc_delim != 0) << 1 | (f.esc_quote != 0) << 2 | (f.foreign_quote != 0) << 3 | (f.open_at_end != 0) << 4 |
                                  (f.trailing_backslash != 0) << 5 | (L > 100) << 6 | (L > 1000) << 7)));
    }
    if (!small && vh_coin(2) && strlen(s0) < 60) vh_sample("split(%s, %s) = tok = %s", DNAME[d], vh_qs(s0), show_list(ref.v, ref.n));
    if (small && strlen(s0) == 6 && f.esc_quote && f.foreign_quote) vh_sample("split(%s, %s) = %s", DNAME[d], vh_qs(s0), show_list(ref.v, ref.n));

    for (size_t i = 0; i < ns; i++) free(sl[i]);
    free(sl);
    for (size_t i = 0; i < nt; i++) free(tl[i]);
    free(tl);
    toks_free(&ref);
    free(s); free(dl);
}

/* ------------------------------------------------------------------ word utilities */
/* Word grammar W1 (num_words / get_word): words are separated by whitespace; a word that opens with ' or " runs to the
 * matching quote (or the end) and the next word starts right after it.  esc = 1: a backslash directly followed by a quote
 * character forms a pair that never closes a word (and the word text may or may not keep the backslash: the statement is
 * silent, weak); esc = 0: backslashes are ordinary.  Outputs raw words (text between the boundaries). */
typedef struct { size_t b, e; } span_t;
static size_t ref_words(const char *s, int esc, span_t *out, int *weak)
{
    size_t i = 0, n = 0;
    for (;;) {
        while (s[i] && r_isspace((unsigned char) s[i])) i++;
        if (!s[i]) break;
        char q = 0;
        if (is_q(s[i])) q = s[i++];
        size_t b = i;
        while (s[i] && (q ? s[i] != q : !r_isspace((unsigned char) s[i]))) {
            if (s[i] == '\\' && is_q(s[i + 1])) { if (weak) *weak = 1; if (esc) i++; }
            i++;
        }
        out[n].b = b; out[n].e = i; n++;
        if (q && s[i] == q) i++;
    }
    return n;
}
static void unescape(const char *s, size_t b, size_t e, char *out)
{
    size_t k = 0;
    for (size_t i = b; i < e; i++) { if (s[i] == '\\' && i + 1 < e && is_q(s[i + 1])) i++; out[k++] = s[i]; }
    out[k] = 0;
}

static void check_words(const char *s0, int small)
{
    size_t L = strlen(s0);
    char *s = vh_heapstr(s0);
    span_t *w0 = malloc((L + 1) * sizeof *w0), *w1 = malloc((L + 1) * sizeof *w1), *pw = malloc((L + 1) * sizeof *pw);
    int weak = 0;
    size_t n0 = ref_words(s0, 0, w0, &weak), n1 = ref_words(s0, 1, w1, NULL);
    /* W2: plain whitespace-separated words */
    size_t np = 0;
    for (size_t i = 0; s0[i];) {
        while (s0[i] && r_isspace((unsigned char) s0[i])) i++;
        if (!s0[i]) break;
        pw[np].b = i; while (s0[i] && !r_isspace((unsigned char) s0[i])) i++; pw[np].e = i; np++;
    }
    vh_op("num_words(%s)", vh_qs(s0));
    unsigned long nw = spiftool_num_words((spif_charptr_t) s);
    vh_evals(1);
    VH_CHECK(nw == n1 || nw == n0, "num_words:count", "num_words(%s) = %lu, word grammar gives %zu%s", vh_qs(s0), nw, n1,
             n0 != n1 ? " (or, with backslashes as ordinary characters, a different count)" : "");
    /* collect every answer first (indices 0 and num_words+1 only have to be safe) */
    char **g = calloc(nw + 2, sizeof *g), **pp = calloc(nw + 2, sizeof *pp);
    for (unsigned long i = 0; i <= nw + 1; i++) {
        vh_op("get_word(%lu, %s)", i, vh_qs(s0));
        g[i] = (char *) spiftool_get_word(i, (spif_charptr_t) s);
        vh_op("get_pword(%lu, %s)", i, vh_qs(s0));
        pp[i] = (char *) spiftool_get_pword(i, (spif_charptr_t) s);
        vh_evals(2);
        if (pp[i]) VH_CHECK(pp[i] >= s && pp[i] <= s + L, "get_pword:outside", "get_pword(%lu, %s) points outside its argument (offset %ld)", i, vh_qs(s0), (long) (pp[i] - s));
        if (g[i] && vh_have_asan()) VH_CHECK(vh_alloc_size(g[i]) >= strlen(g[i]) + 1, "get_word:block-size", "word %s lives in a block of %zu bytes", vh_qs(g[i]), vh_alloc_size(g[i]));
    }
    for (unsigned long i = 1; i <= nw; i++)
        VH_CHECK(g[i] != NULL, "get_word:missing", "num_words(%s) = %lu but get_word(%lu) returned NULL: the two scanners disagree on word boundaries", vh_qs(s0), nw, i);
    /* get_word must deliver the words of ONE boundary rule whose count is what num_words reported; outside the weak
     * region (no backslash directly before a quote) the two rules coincide */
    char *raw = malloc(L + 1), *une = malloc(L + 1);
    size_t n = 0;
    {
        int passed = 0; unsigned long bad_i = 0; char badwant[200] = "";
        for (int rule = 1; rule >= 0 && !passed; rule--) {
            span_t *w = rule ? w1 : w0; n = rule ? n1 : n0;
            if (n != nw) continue;
            int ok = 1;
            for (unsigned long i = 1; i <= nw && ok; i++) {
                memcpy(raw, s0 + w[i - 1].b, w[i - 1].e - w[i - 1].b); raw[w[i - 1].e - w[i - 1].b] = 0;
                unescape(s0, w[i - 1].b, w[i - 1].e, une);
                if (strcmp(g[i], raw) != 0 && strcmp(g[i], une) != 0) { ok = 0; if (!bad_i) { bad_i = i; snprintf(badwant, sizeof badwant, "%s", vh_qs(raw)); } }
            }
            passed = ok;
        }
        if (!passed) vh_fail("get_word:text", "get_word(%lu, %s) = %s, the word grammar (num_words = %lu) gives %s", bad_i, vh_qs(s0), vh_qs(g[bad_i]), nw, badwant);
    }
    VH_CHECK(g[nw + 1] == NULL || g[nw + 1][0] == 0, "get_word:extra", "num_words(%s) = %lu but get_word(%lu) = %s: the two scanners disagree on word boundaries",
             vh_qs(s0), nw, nw + 1, vh_qs(g[nw + 1]));
    for (unsigned long i = 1; i <= nw; i++) {
        char *p = pp[i];
        if (i <= np) {
            size_t b = pw[i - 1].b;
            int okp = p && ((size_t) (p - s) == b || (is_q(s0[b]) && (size_t) (p - s) == b + 1 && s0[b + 1]));
            int lone = !p && is_q(s0[b]) && !s0[b + 1];          /* a lone quote at the very end: nothing follows the quote */
            if (lone) vh_count("pword_lone_quote_at_end", 1);
            VH_CHECK(okp || lone, "get_pword:position", "get_pword(%lu, %s) = %s%ld, the %lu-th whitespace-separated word starts at offset %zu",
                     i, vh_qs(s0), p ? "offset " : "NULL ", p ? (long) (p - s) : 0L, i, b);
            vh_count("pword_checked", 1);
        } else {
            VH_CHECK(p == NULL, "get_pword:beyond", "get_pword(%lu, %s) = offset %ld although there are only %zu whitespace-separated words", i, vh_qs(s0), (long) (p - s), np);
            vh_count("pword_index_beyond_plain_words", 1);
        }
    }
    for (unsigned long i = 0; i <= nw + 1; i++) free(g[i]);
    free(g); free(pp);
    VH_CHECK(strcmp(s, s0) == 0, "words:input-changed", "a word utility modified its input");
    vh_count("word_inputs", 1);
    if (weak) vh_count("word_inputs_backslash_quote", 1);
    if (n0 != n1) vh_count("word_inputs_rule_sensitive", 1);
    if (L && s0[L - 1] == '\\') vh_count("word_inputs_ending_in_backslash", 1);
    if (!small) vh_cov(vh_mix(vh_mix(30, (uint64_t) (n > 6 ? 6 : n)), (uint64_t) (weak | (n0 != n1) << 1 | (np != n) << 2 | (L > 100) << 3)));
    free(raw); free(une); free(w0); free(w1); free(pw); free(s);
}

/* ------------------------------------------------------------------ cases */
static size_t small_count(int L) { size_t n = 0, p = 1; for (int k = 0; k <= L; k++) { n += p; p *= NALPHA; } return n; }
static void small_decode(long k, char *out)
{
    long len = 0, pw = 1;
    while (k >= pw) { k -= pw; pw *= NALPHA; len++; }
    for (long i = 0; i < len; i++) { out[i] = ALPHA[k % NALPHA]; k /= NALPHA; }
    out[len] = 0;
}

static char *gen_random(void)
{
    static const char ws[] = " \t\n\r\v\f";
    static const char *frag[] = { "\\", "\\\\", "\\ ", "\\:", "\\\"", "\\'", "\"\"", "''", "\"", "'", ":", "::", " ", "  ", "\t", "\n", "a", "bc", "word", "\xe9", "\xff", "x:y", "'a b'", "\"c:d\"", "'\"", "\"'" };
    size_t len = vh_coin(60) ? (size_t) vh_range(0, 40) : vh_coin(70) ? (size_t) vh_range(41, 300) : (size_t) vh_range(301, 2048);
    char *s = malloc(len + 8); size_t n = 0;
    int mode = (int) vh_below(3);
    while (n < len) {
        if (mode == 0 || vh_coin(50)) {
            const char *f = frag[vh_below(sizeof frag / sizeof *frag)];
            size_t fl = strlen(f); if (n + fl > len) break;
            memcpy(s + n, f, fl); n += fl;
        } else if (mode == 1) s[n++] = (char) (vh_coin(20) ? ws[vh_below(6)] : vh_range(1, 255));
        else s[n++] = (char) (vh_coin(25) ? ws[vh_below(6)] : vh_coin(10) ? ':' : vh_range('a', 'z'));
    }
    if (vh_coin(15) && n > 0) s[n - 1] = '\\';
    s[n] = 0;
    return s;
}

/* thorough tier only: more tokens than a 16-bit counter can hold (split only; the other functions are quadratic here) */
static void many_tokens_case(void)
{
    size_t want = 66000, n = 0;
    char *s0 = malloc(2 * want + 1);
    for (size_t i = 0; i < want; i++) { s0[n++] = (char) ('a' + i % 26); s0[n++] = ' '; }
    s0[--n] = 0;
    char *s = vh_heapstr(s0);
    vh_op("split(NULL, %zu one-letter tokens separated by blanks)", want);
    char **sl = (char **) spiftool_split(NULL, (spif_charptr_t) s);
    vh_evals(1);
    VH_CHECK(sl != NULL, "split:many-tokens", "split of %zu tokens returned NULL", want);
    size_t blk = vh_alloc_size(sl) / sizeof(char *), ns = 0;
    if (vh_have_asan()) { while (ns < blk && sl[ns]) ns++; VH_CHECK(ns < blk, "split:unterminated-list", "no NULL sentinel inside the %zu-entry list block", blk); }
    else while (sl[ns]) ns++;
    VH_CHECK(ns == want, "split:many-tokens", "split of %zu blank-separated tokens returned a list of %zu", want, ns);
    for (size_t i = 0; i < ns; i++)
        VH_CHECK(sl[i][0] == (char) ('a' + i % 26) && sl[i][1] == 0, "split:many-tokens", "token %zu of %zu is %s", i, want, vh_qs(sl[i]));
    for (size_t i = 0; i < ns; i++) free(sl[i]);
    free(sl); free(s); free(s0);
    vh_count("many_tokens_cases", 1);
    vh_cov(vh_mix(40, want));
}

int main(int argc, char **argv)
{
    vh_init(argc, argv, "C12");
    int probe = 0;
    for (int i = 1; i < argc; i++) { if (!strcmp(argv[i], "--no-empty-tok")) no_empty_tok = 1; if (!strcmp(argv[i], "--probe-trim")) probe = 1; }
    if (probe) {
        /* does tok survive an empty token in this tree?  (spif_str_trim of an empty string, str.c) */
        char *s = vh_heapstr("\"\"");
        spif_tok_t t = spif_tok_new_from_ptr((spif_charptr_t) s);
        spif_tok_eval(t);
        spif_tok_del(t);
        free(s);
        puts("PROBE-OK");
        return 0;
    }
    int L = strcmp(vh_tier, "thorough") == 0 ? 8 : 6;
    long E = (long) small_count(L);
    while (vh_next_case()) {
        if (VH_CASE_TRY()) {
            long idx = vh_case_idx;
            char small[16], *s;
            int is_small = idx < E;
            if (idx == E && L == 8) { int keep = vh_case_cpu_budget; vh_case_cpu_budget = 0; vh_guard_end(); many_tokens_case(); vh_case_cpu_budget = keep; vh_case_done(); continue; }   /* 66000 tokens: quadratic, tens of seconds by design */
            if (is_small) { small_decode(idx, small); s = small; }
            else s = gen_random();
            /* CPU-time backstop for the whole case (a few hundred scans of a string of at most 2 kB): a scanner that stops advancing is reported, not waited for */
            if (VH_GUARD_TRY(5)) {
                for (int d = 0; d < 4; d++) check_split_tok_join(s, d, is_small);
                check_words(s, is_small);
                vh_guard_end();
            } else vh_fail("non-termination", "split/tok/word utilities used more than 5 s of CPU time on %s", vh_qs(s));
            if (is_small) { vh_cov(vh_hash_str(s, 12)); vh_count("grid_strings", 1); }
            else { vh_count("random_strings", 1); if (strlen(s) > 300) vh_count("random_strings_over_300", 1); free(s); }
        }
        vh_case_done();
    }
    return vh_finish();
}
