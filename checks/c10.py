"""C10: config value expansion is a pure function of (line, environment, variable store)."""
import vf
import c0x_common as cx


def build(flavor='asan-pat'):
    return cx.build('c10', flavor)


def rebuild_for_replay(rec):
    exe = rec.get('exe') or ''
    return build('asan-zero' if '-asan-zero-' in exe else 'asan-pat')


# (label, flavor, env override, stack scribble byte)
RUNS = [
    ('pat-fill190', 'asan-pat', None, '0x5a'),
    ('pat-fill85', 'asan-pat', cx.ASAN_FILL_85, '0xc3'),
    ('zero-fill190', 'asan-zero', None, '0x00'),
    ('zero-fill85', 'asan-zero', cx.ASAN_FILL_85, '0xff'),
]


def run(chk):
    per = chk.pick(1600, 31250)          # cases per shard: 16 shards -> 2.6e4 / 5.0e5 cases, each executed 4 times (quick sized to stay under 60 s)
    exes = {f: build(f) for f in ('asan-pat', 'asan-zero')}
    results = []
    for label, flavor, env, scr in RUNS:
        r = chk.run(label, exes[flavor], per, env=env, args=['--scr', scr])
        results.append((label, r))
    if not chk.quick():
        # memcheck: a branch on an uninitialised byte (which neither fill pattern may expose) is an error there
        chk.run('memcheck', cx.build('c10', 'plain'), 625, wrapper=cx.MEMCHECK, timeout=6000, args=['--scr', '0x11'])
        chk.assumptions.append('thorough: 1.0e4 further cases under valgrind memcheck (plain -O0 build)')
    # purity: the per-case digest of all expansion results must not depend on the auto-variable fill
    # (pattern vs zero), the heap fill byte (0xbe vs 0x55) or the stack scribble byte
    base_label, base = results[0]
    compared = 0
    mism = []
    for label, r in results[1:]:
        for idx, d in base.digests.items():
            d2 = r.digests.get(idx)
            if d2 is None:
                continue
            compared += 1
            if d2 != d:
                mism.append((idx, label, d, d2))
    if mism:
        mism.sort()
        idx, label, d, d2 = mism[0]
        chk.add_violation('purity:digest',
                          'case %d: expansion results differ between run %s (digest %s) and run %s (digest %s); %d mismatching (case, run) pairs in all; '
                          'replay: %s --seed %s --nshards %d --only %d --verbose --out DIR (and the same with the other flavor / ASAN_OPTIONS malloc_fill_byte)'
                          % (idx, base_label, d, label, d2, len(mism), exes['asan-pat'], chk.seed, vf.NCPU, idx))
    chk.cov['purity_digest_comparisons'] = compared
    chk.cov['purity_runs'] = [l for l, _ in results]
    if compared < len(base.digests) * 3 * 0.9:
        chk.inconclusive.append('only %d of %d digest comparisons possible (cases lost to crashes?)' % (compared, len(base.digests) * 3))
    chk.rule = ('case = hermetic environment (wrapped getenv) + 0..40 registered custom built-ins + history of 1..6 value strings over ordinary chars, '
                'backslash escapes, ~, $NAME/${NAME}/$(NAME) set/unset/empty/126-char, quotes, %get/%put/%version/%appname/%random/%dirscan/custom calls '
                'nested up to depth 4, weak-region tokens (trailing backslash, unterminated ${, lone %, backquote/%exec with system() wrapped ...), lengths up '
                'to 20479; every history is run 3x per process (text vs 0xA5 after the NUL, exact-size block) and in 4 processes (auto-var-init pattern/zero x '
                'heap fill 0xbe/0x55 x stack scribble); distinct = distinct (construct kind, position class, quote state) and (feature set, length class, '
                'weak, nesting) hashes')
    chk.assumptions += ['strong oracle only on the sub-language of DESIGN A.6; weak regions checked for termination/length/purity/over-read only',
                        'backquote and %exec never spawn: system() is replaced by the spawn monitor, which may simulate the command output file']
    chk.require('strong_lines', 1000)
    chk.require('exact_size_runs', 300)
    chk.require('exact_size_weak_tail_runs', 30)
    chk.require('tail_diff_runs', 1000)
    chk.require('var_set', 100)
    chk.require('var_unset', 100)
    chk.require('get_hits', 50)
    chk.require('nested_calls', 50)
    chk.require('custom_calls', 50)
    chk.require('tilde_home', 50)
    chk.require('store_checks', 500)
    chk.require('no_spawn_checked', 500)
    chk.require('builtin_table_grown', 100)
    chk.require('long_inputs', 20)
    chk.min_cases = per * 4 * 8
