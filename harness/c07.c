/* C07: mbuff objects are faithful byte-sequence values under any history.
 * DESIGN.md §4 C07 (scheme of §4 C01), Appendix A.1.  Random histories over a pool of <= 6 objects,
 * a byte model, state checks after every operation, a query battery on the touched object.
 * Files: c07_model.h (model, generators, call routes), c07_battery.h (checks, queries). */
#define _GNU_SOURCE
#include <config.h>
#include <libast.h>
#include <stdarg.h>
#include <stdint.h>
#include <unistd.h>
#include <fcntl.h>
#include <sys/mman.h>
#include "vh.h"
#include "c07_model.h"
#include "c07_battery.h"

#define RT(r) ((r) ? "class" : "direct")
#define MAXLEN 40000

static void after(const char *op, slot_t *t)
{
    check_all(op, t);
    battery(t, 1);
    vh_count(op, 1);
}

static int free_slot(void) { for (int i = 0; i < NSLOT; i++) if (!S[i].live) return i; return -1; }
static int nlive(void) { int k = 0; for (int i = 0; i < NSLOT; i++) k += S[i].live; return k; }
static slot_t *pick_live(void)
{
    int k = nlive(); if (!k) return NULL;
    int j = (int) vh_below((uint64_t) k);
    for (int i = 0; i < NSLOT; i++) if (S[i].live && j-- == 0) return &S[i];
    return NULL;
}
static void install(int i, spif_mbuff_t o, uint8_t *m, long n) { S[i].o = o; S[i].live = 1; S[i].m = NULL; set_model(&S[i], m, n); }

/* ---------------- input channels for the stream/descriptor constructors ---------------- */
enum { CH_FD_PIPE, CH_FD_FILE, CH_FP_PIPE, CH_FP_FILE, CH_N };
static const char *CHNAME[] = { "fd-pipe", "fd-regular-file", "fp-pipe", "fp-regular-file" };
typedef struct { int fd; FILE *fp; } chan_t;
static void chan_open(chan_t *c, int kind, const uint8_t *d, long n)
{
    c->fd = -1; c->fp = NULL;
    if (kind == CH_FD_PIPE || kind == CH_FP_PIPE) {
        int pp[2];
        if (pipe(pp)) abort();
        if (n > 65000) abort();                              /* stays below the pipe capacity: everything is written before the read */
        if (n && write(pp[1], d, (size_t) n) != n) abort();
        close(pp[1]);
        c->fd = pp[0];
        if (kind == CH_FP_PIPE) { c->fp = fdopen(pp[0], "r"); if (!c->fp) abort(); }
    } else {
        if (kind == CH_FP_FILE && vh_coin(30)) {
            c->fp = tmpfile(); if (!c->fp) abort();
            if (n && fwrite(d, 1, (size_t) n, c->fp) != (size_t) n) abort();
            fflush(c->fp); rewind(c->fp);
            return;
        }
        c->fd = memfd_create("c07", 0);
        if (c->fd < 0) abort();
        if (n && write(c->fd, d, (size_t) n) != n) abort();
        if (lseek(c->fd, 0, SEEK_SET) != 0) abort();
        if (kind == CH_FP_FILE) { c->fp = fdopen(c->fd, "r+"); if (!c->fp) abort(); }
    }
}
static void chan_close(chan_t *c) { if (c->fp) fclose(c->fp); else if (c->fd >= 0) close(c->fd); }

static long pick_file_len(void) { return vh_coin(75) ? FILE_LENS[vh_below(NFILE_LENS)] : pick_len(); }

/* ---------------- constructors ---------------- */
enum { C_NEW, C_PTR, C_BUFF, C_FD_PIPE, C_FD_FILE, C_FP_PIPE, C_FP_FILE, C_DUP, C_SUB, C_N };

static void op_construct(int kind, long forced_len)
{
    int i = free_slot(), rt = vh_coin(50);
    if (i < 0) return;
    long n = forced_len >= 0 ? forced_len : pick_len();
    spif_mbuff_t o = NULL;
    uint8_t *d;
    char opn[40];
    switch (kind) {
    case C_NEW:
        vh_op("new [%s] -> slot %d", RT(rt), i);
        o = X_new(rt);
        VH_CHECK(o != NULL, "new:null", "new returned NULL");
        install(i, o, mk(0), 0); after("new", &S[i]);
        cov3(1, rt, 0);
        break;
    case C_PTR:
        d = gen_bytes(n);
        vh_op("new_from_ptr(%s, %ld) [%s] -> slot %d", vh_q(d, n > 16 ? 16 : n), n, RT(rt), i);
        o = X_new_from_ptr(rt, d, n);
        VH_CHECK(o != NULL, "new_from_ptr:null", "new_from_ptr returned NULL for %ld bytes", n);
        install(i, o, d, n); after("new_from_ptr", &S[i]);
        cov3(2, rt, len_class(n));
        break;
    case C_BUFF: {
        int nullsrc = vh_coin(10);
        long sz;
        switch (vh_below(5)) { case 0: sz = 0; break; case 1: sz = n; break; case 2: sz = n + 1; break; case 3: sz = n > 0 ? n - 1 : 0; break; default: sz = vh_range(0, n + 64); }
        d = gen_bytes(n);
        vh_op("new_from_buff(%s, len %ld, size %ld) [%s] -> slot %d", nullsrc ? "NULL" : vh_q(d, n > 16 ? 16 : n), n, sz, RT(rt), i);
        o = X_new_from_buff(rt, nullsrc ? NULL : d, n, sz);
        VH_CHECK(o != NULL, "new_from_buff:null", "new_from_buff returned NULL (len %ld size %ld)", n, sz);
        if (nullsrc) { free(d); d = mk(0); n = 0; }
        install(i, o, d, n); after("new_from_buff", &S[i]);
        cov3(3, rt, len_class(n) * 8 + (nullsrc ? 4 : 0) + (sz < n ? 0 : sz == n ? 1 : 2));
        break; }
    case C_FD_PIPE: case C_FD_FILE: case C_FP_PIPE: case C_FP_FILE: {
        int ch = kind - C_FD_PIPE;
        chan_t c;
        if (ch == CH_FD_PIPE && vh_coin(6)) {
            /* a descriptor that cannot be read (the write end of a pipe): every read() fails.  The constructor must give up -- refuse,
             * or construct an empty buffer -- within a bounded number of steps and without touching memory outside its buffer. */
            int pfd[2];
            if (pipe(pfd) == 0) {
                vh_op("new_from_fd(write end of a pipe: unreadable) [%s]", RT(rt));
                if (VH_GUARD_TRY(5)) { o = X_new_from_fd(rt, pfd[1]); vh_guard_end(); }
                else { close(pfd[0]); close(pfd[1]); vh_fail("new_from_fd:unreadable:non-termination", "new_from_fd on a descriptor whose read() always fails used more than 5 s of CPU time"); }
                close(pfd[0]); close(pfd[1]);
                vh_count("unreadable_descriptor", 1);
                if (o) {
                    VH_CHECK(spif_mbuff_get_len(o) == 0, "new_from_fd:unreadable:len", "new_from_fd on an unreadable descriptor built a buffer of length %ld", (long) spif_mbuff_get_len(o));
                    install(i, o, mk(0), 0); after("new_from_fd", &S[i]);
                }
                break;
            }
        }
        if (forced_len < 0) n = pick_file_len();
        d = gen_bytes(n);
        chan_open(&c, ch, d, n);
        snprintf(opn, sizeof opn, "%s", ch < 2 ? "new_from_fd" : "new_from_fp");
        /* a regular file that has been read from before (a header, say): what the descriptor or stream still delivers is what lies ahead of its
         * position, and that is the value */
        if ((ch == CH_FD_FILE || ch == CH_FP_FILE) && n > 0 && forced_len < 0 && vh_coin(20)) {
            long off = vh_coin(15) ? n : vh_range(1, n);
            if (c.fp) { if (fseek(c.fp, off, SEEK_SET)) abort(); } else if (lseek(c.fd, (off_t) off, SEEK_SET) != (off_t) off) abort();
            vh_op("  (positioned %ld bytes into the file first)", off);
            memmove(d, d + off, (size_t) (n - off)); n -= off;
            vh_count("files_positioned_past_their_start", 1);
        }
        vh_op("%s(%s holding %ld bytes) [%s] -> slot %d", opn, CHNAME[ch], n, RT(rt), i);
        o = ch < 2 ? X_new_from_fd(rt, c.fd) : X_new_from_fp(rt, c.fp);
        chan_close(&c);
        vh_count(CHNAME[ch], 1);
        if (n > 4096) vh_count(ch == CH_FD_PIPE || ch == CH_FP_PIPE ? "stream_over_one_chunk" : "file_over_one_chunk", 1);
        if (o == NULL) {
            /* A.1: an empty seekable input may be refused; everything else must construct */
            char key[48]; snprintf(key, sizeof key, "%s:null", opn);
            VH_CHECK(n == 0 && (ch == CH_FD_FILE || ch == CH_FP_FILE), key, "%s on a %s holding %ld bytes returned NULL", opn, CHNAME[ch], n);
            vh_count("empty_file_refused", 1);
            free(d);
            break;
        }
        install(i, o, d, n); after(opn, &S[i]);
        cov3(4 + ch, rt, len_class(n));
        break; }
    case C_DUP: {
        slot_t *s = pick_live();
        if (!s) { op_construct(C_PTR, -1); return; }
        vh_op("dup(slot %d, len %ld, %s) [%s] -> slot %d", (int) (s - S), s->n, s->o->buff ? (s->o->size > s->o->len ? "slack" : "tight") : "NULL-buff", RT(rt), i);
        int sc = state_class(s);
        o = X_dup(rt, s->o);
        VH_CHECK(o != NULL, "dup:null", "dup returned NULL");
        VH_CHECK(o != s->o, "dup:same-object", "dup returned its argument");
        VH_CHECK(s->n == 0 || SPIF_MBUFF_BUFF(o) != SPIF_MBUFF_BUFF(s->o), "dup:shared", "the copy shares the source buffer");
        VH_CHECK(SPIF_OBJ_CLASS(o) == SPIF_OBJ_CLASS(s->o), "dup:class", "the copy has another class pointer");
        d = mk(s->n); memcpy(d, s->m, (size_t) s->n);
        install(i, o, d, s->n); after("dup", &S[i]);
        vh_evals(3);
        cov3(8, rt, sc);
        break; }
    case C_SUB: {
        slot_t *s = pick_live();
        if (!s || s->n == 0) { op_construct(C_PTR, -1); return; }
        long ix = vh_range(-s->n, s->n - 1), st = 0, c = vh_range(-(s->n), s->n + 1), k = m_sub(s->n, ix, c, &st);
        vh_op("subbuff(slot %d len %ld, %ld, %ld) kept [%s] -> slot %d", (int) (s - S), s->n, ix, c, RT(rt), i);
        o = X_subbuff(rt, s->o, ix, c);
        if (k < 0) { VH_CHECK(o == NULL, "subbuff:refused", "subbuff(%ld,%ld) of len %ld must be refused", ix, c, s->n); check_all("subbuff", NULL); break; }
        VH_CHECK(o != NULL, "subbuff:result", "subbuff(%ld,%ld) of len %ld refused, ideal result has %ld bytes", ix, c, s->n, k);
        d = mk(k); memcpy(d, s->m + st, (size_t) k);
        install(i, o, d, k); after("subbuff", &S[i]);
        cov3(9, rt, len_class(k));
        break; }
    }
}

/* ---------------- mutators ---------------- */
static void expect_true(spif_bool_t r, const char *op, int when)
{
    char key[48];
    vh_evals(1);
    if (when && r != TRUE) { snprintf(key, sizeof key, "%s:result", op); vh_fail(key, "%s returned %d on an in-range request", op, (int) r); }
}

static void op_add(slot_t *t, int front, int ptr)
{
    int rt = vh_coin(50);
    const char *opn = front ? (ptr ? "prepend_from_ptr" : "prepend") : (ptr ? "append_from_ptr" : "append");
    uint8_t *x; long xn; slot_t *u = NULL;
    spif_bool_t r;
    const uint8_t *before = SPIF_MBUFF_BUFF(t->o);
    int sc = state_class(t);
    if (ptr) {
        xn = pick_len(); if (t->n + xn > MAXLEN) xn = vh_range(0, 8);
        x = gen_bytes(xn);
        vh_op("%s(slot %d len %ld, %s, %ld) [%s]", opn, (int) (t - S), t->n, vh_q(x, xn > 16 ? 16 : xn), xn, RT(rt));
        r = front ? X_prepend_from_ptr(rt, t->o, x, xn) : X_append_from_ptr(rt, t->o, x, xn);
    } else {
        u = vh_coin(6) ? t : pick_live();
        if (t->n + u->n > MAXLEN) { for (int i = 0; i < NSLOT; i++) if (S[i].live && S[i].n < 64) u = &S[i]; if (t->n + u->n > MAXLEN) return; }
        xn = u->n; x = mk(xn); memcpy(x, u->m, (size_t) xn);
        vh_op("%s(slot %d len %ld, slot %d len %ld%s) [%s]", opn, (int) (t - S), t->n, (int) (u - S), xn, u == t ? " (itself)" : "", RT(rt));
        if (u == t) vh_count("alias_operand", 1);
        r = front ? X_prepend(rt, t->o, u->o) : X_append(rt, t->o, u->o);
    }
    uint8_t *nm = mk(t->n + xn);
    if (front) { memcpy(nm, x, (size_t) xn); memcpy(nm + xn, t->m, (size_t) t->n); }
    else { memcpy(nm, t->m, (size_t) t->n); memcpy(nm + t->n, x, (size_t) xn); }
    if (t->n == 0) vh_count(before ? "add_to_empty_with_buffer" : "add_to_empty_null_buffer", 1);
    set_model(t, nm, t->n + xn);
    free(x);
    expect_true(r, opn, xn > 0);
    if (before && SPIF_MBUFF_BUFF(t->o) != before) vh_count("buffer_moved", 1);
    after(opn, t);
    cov3(20 + front * 2 + ptr, sc * 2 + rt, len_class(xn) * 2 + (u == t));
}

static void op_splice(slot_t *t, int ptr, long idx, long cnt, slot_t *u, long xn_forced)
{
    int rt = vh_coin(50), nullx = 0;
    const char *opn = ptr ? "splice_from_ptr" : "splice";
    long n = t->n, xn, i = idx < 0 ? idx + n : idx;
    uint8_t *x;
    spif_bool_t r;
    int sc = state_class(t);
    long size0 = (long) t->o->size;
    if (ptr) {
        xn = xn_forced >= 0 ? xn_forced : pick_len();
        if (n + xn > MAXLEN) xn = vh_range(0, 8);
        x = gen_bytes(xn);
        nullx = xn_forced < 0 && vh_coin(8);
        vh_op("%s(slot %d len %ld, idx %ld, cnt %ld, %s, %ld) [%s]", opn, (int) (t - S), n, idx, cnt, nullx ? "NULL" : vh_q(x, xn > 16 ? 16 : xn), xn, RT(rt));
        r = X_splice_from_ptr(rt, t->o, idx, cnt, nullx ? NULL : x, xn);
        if (nullx) xn = 0;
    } else {
        nullx = u == NULL;
        if (u && n + u->n > MAXLEN) { nullx = 1; u = NULL; }
        xn = u ? u->n : 0; x = mk(xn); if (u) memcpy(x, u->m, (size_t) xn);
        vh_op("%s(slot %d len %ld, idx %ld, cnt %ld, %s len %ld%s) [%s]", opn, (int) (t - S), n, idx, cnt, u ? "slot" : "NULL", xn, u == t ? " (itself)" : "", RT(rt));
        if (u == t) vh_count("alias_operand", 1);
        r = X_splice(rt, t->o, idx, cnt, u ? u->o : (spif_mbuff_t) NULL);
    }
    char key[48];
    vh_evals(1);
    if (i < 0 || i >= n || cnt > n - i) {                    /* outside the sequence: refused, nothing changes */
        snprintf(key, sizeof key, "%s:refused", opn);
        VH_CHECK(r == FALSE, key, "%s(idx %ld, cnt %ld) on length %ld is outside the sequence but was accepted", opn, idx, cnt, n);
        snprintf(key, sizeof key, "%s:refused-changed", opn);
        VH_CHECK((long) t->o->size == size0, key, "refused %s changed size %ld -> %ld", opn, size0, (long) t->o->size);
        vh_count("refused_splice", 1);
        free(x);
        snprintf(key, sizeof key, "%s:refused-changed", opn);   /* bytes and length are checked under this prefix */
        check_all(key, t);
        battery(t, 0);
        cov3(30 + ptr, sc * 2 + rt, pos_class(n, idx) * 16 + 15);
        return;
    }
    if (cnt >= 0) {                                          /* strong region */
        uint8_t *nm = mk(n - cnt + xn);
        memcpy(nm, t->m, (size_t) i); memcpy(nm + i, x, (size_t) xn); memcpy(nm + i + xn, t->m + i + cnt, (size_t) (n - i - cnt));
        set_model(t, nm, n - cnt + xn);
        free(x);
        expect_true(r, opn, 1);
        vh_count(nullx ? "splice_null_insert" : "splice_ok", 1);
        after(opn, t);
        cov3(30 + ptr, sc * 2 + rt, pos_class(n, idx) * 16 + pos_class(n - i, cnt) + 100 * len_class(xn));
        return;
    }
    /* weak region (negative count): refused without change, or t[0,i) + x + t[j,n) for some j in [i,n] */
    vh_count("splice_negative_count_weak", 1);
    if (r == FALSE) { free(x); check_all(opn, t); return; }
    long len = (long) t->o->len, j = n - (len - i - xn);
    const uint8_t *b = SPIF_MBUFF_BUFF(t->o);
    snprintf(key, sizeof key, "%s:negative-count", opn);
    VH_CHECK(j >= i && j <= n && b && !memcmp(b, t->m, (size_t) i) && !memcmp(b + i, x, (size_t) xn) && !memcmp(b + i + xn, t->m + j, (size_t) (n - j)), key,
             "%s(idx %ld, cnt %ld) on length %ld gave length %ld, not head + insert + some tail of the sequence", opn, idx, cnt, n, len);
    uint8_t *nm = mk(len); memcpy(nm, b, (size_t) len);
    set_model(t, nm, len);
    free(x);
    after(opn, t);
}

static void op_splice_random(slot_t *t, int ptr)
{
    long n = t->n, idx, cnt;
    if (n > 0 && vh_coin(55)) { idx = vh_range(0, n - 1); cnt = vh_range(0, n - idx); if (vh_coin(30)) idx -= n; }
    else { idx = pick_idx(n); cnt = pick_cnt(n, idx); if (cnt < 0 && vh_coin(70)) cnt = -cnt; }
    slot_t *u = vh_coin(8) ? NULL : vh_coin(6) ? t : pick_live();
    op_splice(t, ptr, idx, cnt, u, -1);
}

static void op_trim(slot_t *t)
{
    int rt = vh_coin(50), sc = state_class(t);
    long n = t->n, a = 0, b = n;
    while (a < b && m_isspace(t->m[a])) a++;
    while (b > a && m_isspace(t->m[b - 1])) b--;
    vh_op("trim(slot %d len %ld %s) [%s]", (int) (t - S), n, vh_q(t->m, n > 16 ? 16 : n), RT(rt));
    spif_bool_t r = X_trim(rt, t->o);
    uint8_t *nm = mk(b - a); memcpy(nm, t->m + a, (size_t) (b - a));
    vh_count(n == 0 ? "trim_empty" : b == a ? "trim_all_blank" : (a > 0 || b < n) ? "trim_padded" : "trim_nothing", 1);
    set_model(t, nm, b - a);
    expect_true(r, "trim", n > 0);
    after("trim", t);
    cov3(40, sc * 2 + rt, (a > 0) + 2 * (b < n) + 4 * (b == a));
}
static void op_reverse(slot_t *t)
{
    int rt = vh_coin(50), sc = state_class(t);
    long n = t->n;
    vh_op("reverse(slot %d len %ld) [%s]", (int) (t - S), n, RT(rt));
    spif_bool_t r = X_reverse(rt, t->o);
    for (long i = 0, j = n - 1; i < j; i++, j--) { uint8_t c = t->m[i]; t->m[i] = t->m[j]; t->m[j] = c; }
    expect_true(r, "reverse", n > 0);
    after("reverse", t);
    cov3(41, sc * 2 + rt, n & 1);
}
static void op_clear(slot_t *t)
{
    int rt = vh_coin(50), sc = state_class(t), c = vh_coin(25) ? 0 : (int) vh_below(256);
    vh_op("clear(slot %d len %ld, 0x%02x) [%s]", (int) (t - S), t->n, c, RT(rt));
    spif_bool_t r = X_clear(rt, t->o, c);
    memset(t->m, c, (size_t) t->n);
    expect_true(r, "clear", t->n > 0);
    after("clear", t);
    cov3(42, sc * 2 + rt, c == 0);
}
static void op_sprintf(slot_t *t)
{
    static char big[20000], sarg[6000];
    int rt = vh_coin(50), sc = state_class(t), f = (int) vh_below(9), d = (int) vh_range(-100000, 100000), c = vh_coin(15) ? 0 : (int) vh_range(1, 255);
    long sl = vh_coin(8) ? vh_range(4090, 4100) : vh_coin(20) ? 0 : vh_range(1, 40);
    int w;
    spif_bool_t r;
    for (long i = 0; i < sl; i++) sarg[i] = (char) vh_range(1, 255);
    sarg[sl] = 0;
    char *sa = vh_heapstr(sarg);
    vh_op("sprintf(slot %d len %ld, format #%d, s-arg len %ld, d=%d, c=0x%02x) [%s]", (int) (t - S), t->n, f, sl, d, c, RT(rt));
#define SPF(fmt, ...) do { w = snprintf(big, sizeof big, fmt, ##__VA_ARGS__); \
        r = rt ? AS_BOOL(CT(t->o, sprintf)(t->o, (spif_charptr_t) fmt, ##__VA_ARGS__)) : spif_mbuff_sprintf(t->o, (spif_charptr_t) fmt, ##__VA_ARGS__); } while (0)
    switch (f) {
    case 0: SPF("%s", sa); break;
    case 1: SPF("%d", d); break;
    case 2: SPF("%c", c); break;
    case 3: SPF("%%"); break;
    case 4: SPF("x=%d,%s", d, sa); break;
    case 5: SPF("%s%c%d%%", sa, c, d); break;
    case 6: SPF(""); break;
    case 7: SPF("E"); break;
    default: SPF("%c%s%c", c, sa, c); break;
    }
#undef SPF
    free(sa);
    if (w < 0 || w >= (int) sizeof big) abort();
    uint8_t *nm = mk(w); memcpy(nm, big, (size_t) w);
    set_model(t, nm, w);
    expect_true(r, "sprintf", w > 0);                       /* A.1: the result is asserted only for non-empty output */
    vh_count(w == 0 ? "sprintf_empty_output" : "sprintf_output", 1);
    if (memchr(big, 0, (size_t) w)) vh_count("sprintf_embedded_nul", 1);
    after("sprintf", t);
    cov3(43, sc * 2 + rt, f * 4 + (w == 0) + 2 * (w > 4096));
}

/* done, then one of the init forms on the same object */
static void op_done_reinit(slot_t *t)
{
    int rt = vh_coin(50), sc = state_class(t), form = (int) vh_below(8);
    spif_mbuff_t o = t->o;
    const uint8_t *b = SPIF_MBUFF_BUFF(o);
    size_t blk = b ? vh_alloc_size(b) : 0, h0 = vh_heap_bytes();
    vh_op("done(slot %d len %ld size %ld buff %s) [%s]", (int) (t - S), t->n, (long) o->size, b ? "set" : "NULL", RT(rt));
    spif_bool_t r = X_done(rt, o);
    size_t h1 = vh_heap_bytes();
    expect_true(r, "done", 1);
    set_model(t, mk(0), 0);
    check_all("done", t);
    vh_evals(1);
    if (vh_have_asan() && b) {
        VH_CHECK(h0 - h1 == blk, "done:leak", "done released %zu heap bytes, the buffer block (len %ld size %ld) holds %zu", h0 - h1, t->n, (long) o->size, blk);
        vh_count("done_release_checked", 1);
    }
    vh_count("done", 1);
    long n = form >= 4 ? pick_file_len() : pick_len();
    uint8_t *d = gen_bytes(n);
    const char *opn;
    switch (form) {
    case 0:
        opn = "init"; vh_op("init(slot %d) [%s]", (int) (t - S), RT(rt));
        r = X_init(rt, o); free(d); d = mk(0); n = 0; break;
    case 1:
        opn = "init_from_ptr"; vh_op("init_from_ptr(slot %d, %s, %ld) [%s]", (int) (t - S), vh_q(d, n > 16 ? 16 : n), n, RT(rt));
        r = X_init_from_ptr(rt, o, d, n); break;
    case 2: case 3: {
        long sz = form == 2 ? n + vh_range(0, 40) : vh_range(0, n);
        opn = "init_from_buff"; vh_op("init_from_buff(slot %d, %s, len %ld, size %ld) [%s]", (int) (t - S), vh_q(d, n > 16 ? 16 : n), n, sz, RT(rt));
        r = X_init_from_buff(rt, o, d, n, sz); break; }
    default: {
        int ch = form - 4;
        chan_t c;
        chan_open(&c, ch, d, n);
        opn = ch < 2 ? "init_from_fd" : "init_from_fp";
        vh_op("%s(slot %d, %s holding %ld bytes) [%s]", opn, (int) (t - S), CHNAME[ch], n, RT(rt));
        r = ch < 2 ? X_init_from_fd(rt, o, c.fd) : X_init_from_fp(rt, o, c.fp);
        chan_close(&c);
        vh_count(CHNAME[ch], 1);
        if (n > 4096) vh_count(ch == CH_FD_PIPE || ch == CH_FP_PIPE ? "stream_over_one_chunk" : "file_over_one_chunk", 1);
        if (r != TRUE && n == 0 && (ch == CH_FD_FILE || ch == CH_FP_FILE)) {
            /* weak (A.1): an empty regular file may be refused; put the object into the empty state ourselves */
            vh_count("empty_file_refused", 1);
            free(d);
            spif_mbuff_init(o);
            set_model(t, mk(0), 0);
            check_all("init", t);
            return;
        }
        break; }
    }
    set_model(t, d, n);
    expect_true(r, opn, 1);
    after(opn, t);
    cov3(50 + form, sc * 2 + rt, len_class(n));
}

static void op_del(slot_t *t)
{
    int rt = vh_coin(50);
    spif_mbuff_t o = t->o;
    const uint8_t *b = SPIF_MBUFF_BUFF(o);
    size_t want = vh_alloc_size(o) + (b ? vh_alloc_size(b) : 0), h0 = vh_heap_bytes();
    vh_op("del(slot %d len %ld size %ld buff %s) [%s]", (int) (t - S), t->n, (long) o->size, b ? "set" : "NULL", RT(rt));
    cov3(60, state_class(t), rt);
    spif_bool_t r = X_del(rt, o);
    size_t h1 = vh_heap_bytes();
    long n = t->n;
    t->live = 0; t->o = NULL; set_model(t, NULL, 0);
    expect_true(r, "del", 1);
    vh_evals(1);
    if (vh_have_asan()) {
        VH_CHECK(h0 - h1 == want, "del:leak", "del released %zu heap bytes; object + buffer (len %ld) hold %zu", h0 - h1, n, want);
        vh_count("del_release_checked", 1);
    }
    check_all("del", NULL);
    vh_count("del", 1);
}

/* ---------------- NULL object: every method must fail soft (one case in 64; baseline: reverse aborts) ---------------- */
static void null_self_probe(void)
{
    spif_mbuff_t z = (spif_mbuff_t) NULL;
    uint8_t *x = vh_heapdup("abc", 3);
    vh_op("NULL-object probe: done dup append* prepend* clear find* index rindex splice* subbuff* trim sprintf cmp* ncmp* reverse");
    spif_mbuff_done(z); (void) spif_mbuff_dup(z);
    spif_mbuff_append(z, z); spif_mbuff_append_from_ptr(z, x, 3); spif_mbuff_prepend(z, z); spif_mbuff_prepend_from_ptr(z, x, 3);
    spif_mbuff_clear(z, 'x'); spif_mbuff_find(z, z); spif_mbuff_find_from_ptr(z, x, 3); spif_mbuff_index(z, 'a'); spif_mbuff_rindex(z, 'a');
    spif_mbuff_splice(z, 0, 0, z); spif_mbuff_splice_from_ptr(z, 0, 0, x, 3); (void) spif_mbuff_subbuff(z, 0, 1); (void) spif_mbuff_subbuff_to_ptr(z, 0, 1);
    spif_mbuff_trim(z); spif_mbuff_sprintf(z, (spif_charptr_t) "%d", 1);
    VH_CHECK(spif_mbuff_cmp(z, z) == SPIF_CMP_EQUAL, "cmp:null-null", "cmp(NULL, NULL) is not EQUAL");
    VH_CHECK(spif_mbuff_ncmp(z, z, 3) == SPIF_CMP_EQUAL, "ncmp:null-null", "ncmp(NULL, NULL) is not EQUAL");
    vh_op("NULL-object probe: reverse(NULL)");
    VH_CHECK(spif_mbuff_reverse(z) == FALSE, "reverse:null-object", "reverse(NULL) did not fail");
    free(x);
    vh_count("null_object_probe", 1);
    vh_evals(20);
}

/* ---------------- exhaustive single-step table (cases 32..35: base lengths 0, 1, 2, 5) ---------------- */
static void del_all(void);
static void table_case(int L)
{
    static const uint8_t base[5] = { ' ', 0x00, 'c', 0xff, '\n' };
    static const long olens[3] = { 0, 1, 3 };
    long steps = 0;
    for (int op = 0; op < 3; op++)
        for (long idx = -L - 2; idx <= L + 2; idx++)
            for (long cnt = -L - 2; cnt <= L + 2; cnt++)
                for (int ol = 0; ol < (op == 2 ? 1 : 3); ol++) {
                    uint8_t *d = vh_heapdup(base, (size_t) L);
                    spif_mbuff_t o = (L == 0 && ((idx + cnt) & 1)) ? spif_mbuff_new() : spif_mbuff_new_from_ptr(d, L);
                    VH_CHECK(o != NULL, "new_from_ptr:null", "constructor returned NULL");
                    install(0, o, d, L);
                    if (op == 0) {
                        uint8_t *e = gen_bytes(olens[ol]);
                        spif_mbuff_t u = spif_mbuff_new_from_ptr(e, olens[ol]);
                        VH_CHECK(u != NULL, "new_from_ptr:null", "constructor returned NULL");
                        install(1, u, e, olens[ol]);
                        op_splice(&S[0], 0, idx, cnt, (ol == 0 && (cnt & 1)) ? NULL : &S[1], -1);
                    } else if (op == 1) op_splice(&S[0], 1, idx, cnt, NULL, olens[ol]);
                    else q_sub(&S[0], idx, cnt), q_sub(&S[0], idx, cnt), q_sub(&S[0], idx, cnt), check_obj(&S[0], "query", 1);
                    del_all();
                    steps++;
                }
    vh_count("table_steps", steps);
    vh_count("table_cases", 1);
}

static void del_all(void)
{
    for (int i = 0; i < NSLOT; i++) if (S[i].live) { spif_mbuff_del(S[i].o); S[i].live = 0; S[i].o = NULL; set_model(&S[i], NULL, 0); }
}
static void abandon(void)
{
    for (int i = 0; i < NSLOT; i++) { S[i].live = 0; S[i].o = NULL; set_model(&S[i], NULL, 0); }
}

static void random_op(void)
{
    slot_t *t = pick_live();
    int r = (int) vh_below(100);
    if (!t || (r < 14 && free_slot() >= 0)) {
        static const int kinds[] = { C_NEW, C_PTR, C_PTR, C_BUFF, C_BUFF, C_FD_PIPE, C_FD_FILE, C_FP_PIPE, C_FP_FILE, C_DUP, C_DUP, C_SUB };
        op_construct(kinds[vh_below(sizeof kinds / sizeof kinds[0])], -1);
        return;
    }
    if (r < 24) op_add(t, 0, 0);
    else if (r < 34) op_add(t, 0, 1);
    else if (r < 42) op_add(t, 1, 0);
    else if (r < 50) op_add(t, 1, 1);
    else if (r < 59) op_splice_random(t, 0);
    else if (r < 68) op_splice_random(t, 1);
    else if (r < 75) op_trim(t);
    else if (r < 80) op_reverse(t);
    else if (r < 84) op_clear(t);
    else if (r < 89) op_sprintf(t);
    else if (r < 95) op_done_reinit(t);
    else if (nlive() > 1 || vh_coin(30)) op_del(t);
    else battery(t, 1);
}

int main(int argc, char **argv)
{
    static char outbuf[1 << 16];
    vh_init(argc, argv, "C07");
    setvbuf(stdout, outbuf, _IOLBF, sizeof outbuf);        /* no heap traffic from reporting: the heap balance is measured per case */
    vh_cov(1);                                             /* allocate the coverage table outside any measured window */
    while (vh_next_case()) {
        size_t heap0 = 0;
        static char samplebuf[400];
        samplebuf[0] = 0;
        nreported = 0;
        /* cases 0..31 (two per shard, run first so that an abort loses no counters): regions in which the unrepaired
         * cmp_with_ptr aborts the process; cases 32..35: the exhaustive single-step table */
        probe_case = vh_case_idx < 32;
        if (VH_CASE_TRY()) {
            long idx = vh_case_idx;
            heap0 = vh_heap_bytes();
            if (idx >= 32 && idx < 36) {
                static const int LL[4] = { 0, 1, 2, 5 };
                table_case(LL[idx - 32]);
            } else {
                int nops = (int) vh_range(1, 60), done_ops = 0;
                if (idx % 64 == 40) null_self_probe();
                /* the first object comes from each constructor in turn; file constructors walk the stated length list */
                int k0 = (int) (idx % C_N);
                if (k0 == C_DUP || k0 == C_SUB) { op_construct(C_PTR, -1); op_construct(k0, -1); }
                else if (k0 >= C_FD_PIPE && k0 <= C_FP_FILE) op_construct(k0, FILE_LENS[(idx / C_N) % NFILE_LENS]);
                else if (k0 == C_PTR && (idx / C_N) % 3 == 0) op_construct(C_PTR, 0);
                else op_construct(k0, -1);
                /* then each add form in turn as the first operation on a still empty buffer */
                if (nlive() && S[0].live && S[0].n == 0) {
                    int f = (int) ((idx / C_N) % 6);
                    vh_count("first_op_on_empty", 1);
                    if (f < 4) op_add(&S[0], f >> 1, f & 1);
                    else if (f == 4) op_sprintf(&S[0]);
                    else op_splice(&S[0], 1, 0, 0, NULL, 3);
                }
                for (; done_ops < nops; done_ops++) random_op();
                if (vh_coin(3)) {
                    slot_t *t = pick_live();
                    if (t) snprintf(samplebuf, sizeof samplebuf, "case %ld: %d operations, %d live objects at the end; one holds %ld bytes %s (size %ld)", idx, nops, nlive(), t->n, vh_q(t->m, t->n > 12 ? 12 : t->n), (long) t->o->size);
                }
                vh_count("histories", 1);
                vh_count("operations", nops);
            }
            /* ownership: once every object is deleted the heap is back where the case started */
            vh_op("delete all %d live objects", nlive());
            del_all();
            if (vh_have_asan()) {
                size_t heap1 = vh_heap_bytes();
                vh_evals(1);
                VH_CHECK(heap1 == heap0, "leak", "%ld heap bytes still allocated after every object of the case was deleted", (long) heap1 - (long) heap0);
                vh_count("heap_balance_checked", 1);
            }
            if (samplebuf[0]) vh_sample("%s", samplebuf);
        } else {
            abandon();
        }
        vh_case_done();
    }
    return vh_finish();
}
