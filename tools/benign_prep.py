#!/usr/bin/env python3
"""tools/benign_prep.py <PROP> [N]: scratch worktree /tmp/benign-<PROP> + prompt /tmp/benignprompt-<PROP>.txt"""
import sys, json, subprocess
pid = sys.argv[1]; n = sys.argv[2] if len(sys.argv) > 2 else '4'
props = {json.loads(l)['id']: json.loads(l) for l in open('/verif/properties.jsonl')}
D = '/tmp/benign-%s' % pid
subprocess.run('git -C /repo worktree remove --force %s 2>/dev/null; rm -rf %s; git -C /repo worktree add -q --detach %s HEAD && rsync -a --exclude .git /repo/ %s/' % (D, D, D, D), shell=True, check=True)
p = props[pid]
t = open('/verif/tools/benign_prompt.tmpl').read()
t = (t.replace('{WT}', D).replace('{ID}', pid).replace('{TITLE}', p['title']).replace('{STATEMENT}', p['statement'])
      .replace('{QUANT}', p['quantifier']['text']).replace('{FILES}', ', '.join(p['anchors']['files'])).replace('{N}', n))
open('/tmp/benignprompt-%s.txt' % pid, 'w').write(t)
print(D, '/tmp/benignprompt-%s.txt' % pid)
