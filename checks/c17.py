"""C17: spiftool_version_compare -- safety, determinism (stack contents, prior calls, three builds), reflexivity,
antisymmetry on all strings; reference order (DESIGN A.7) on well-formed versions."""
import shutil
import vf

FLAVORS = ('asan', 'asan-pat', 'asan-zero')


def build(flavor='asan'):
    return vf.build_harness('c17', flavor, ['c17.c'])


def rebuild_for_replay(rec):
    exe = rec.get('exe') or ''
    for f in sorted(FLAVORS, key=len, reverse=True):
        if ('-%s-' % f) in exe:
            return build(f)
    return build()


def run(chk):
    L = chk.pick(3, 4)
    E = sum(6 ** k for k in range(L + 1))
    grid = E * E
    n = vf.NCPU
    per = (grid + n - 1) // n + chk.pick(14600, 162500)
    res = {}
    for f in FLAVORS:
        res[f] = chk.run(f, build(f), per)
    if not chk.quick() and shutil.which('valgrind'):
        # thorough tier: the same harness, uninstrumented, under valgrind memcheck -- any branch on an uninitialised byte
        # (stale scratch buffers) is an error.  Smaller grid (strings <= 2) and 1/50 of the random cases.
        Lm = 2
        Em = sum(6 ** k for k in range(Lm + 1))
        mc = chk.run('memcheck', build('plain'), (Em * Em + n - 1) // n + 600, args=['--L', str(Lm)],
                     wrapper=['valgrind', '-q', '--error-exitcode=99', '--exit-on-first-error=yes', '--track-origins=yes'], timeout=3600)
        chk.cov['memcheck_pairs'] = mc.cases
        chk.assumptions.append('memcheck run: plain -O0 build under valgrind, all pairs of strings <= 2 plus sampled random pairs; a valgrind error appears as key C17:exit:99:*')
    chk.rule = ('case = one ordered pair (a, b): every pair of strings of length <= %d over {a,b,1,2,.,-} (%d pairs, enumerated completely) plus '
                'random pairs of well-formed versions n(.n)*[word[n]], of strings with runs of 120..140 / 300..5000 letters, digits or punctuation, '
                'of numeric extremes and of arbitrary bytes; each direction is evaluated 3 times after different stack fills and prior calls, plus '
                '(a,a) and (b,b); the same cases run on the asan, asan-pat and asan-zero builds and their per-case digests are compared; '
                'distinct = distinct small pairs, and (population, length classes, answer, comparison depth, tail rule) classes for random pairs' % (L, grid))
    base = res['asan']
    ok_grid = all(r.counts.get('grid_pairs') == grid and not r.violations for r in res.values())
    chk.exhaustive = bool(ok_grid)
    chk.cov['exhaustive_over'] = 'all %d ordered pairs of strings of length <= %d over {a,b,1,2,.,-} (per build flavor); random populations are sampled' % (grid, L)
    # differential determinism across builds: same case index => same digest of all answers
    compared = 0
    mism = []
    for f in FLAVORS[1:]:
        d0, d1 = base.digests, res[f].digests
        for idx in d0.keys() & d1.keys():
            compared += 1
            if d0[idx] != d1[idx]:
                mism.append((idx, f))
    chk.cov['digests_compared_across_builds'] = compared
    if mism:
        mism.sort()
        idx, f = mism[0]
        exe = build(f)
        chk.add_violation('version_compare:build-determinism',
                          '%d case(s) answer differently in the asan and %s builds (answers depend on uninitialised locals); first case index %d; '
                          'replay both: <exe> --seed %s --nshards %d --only %d --tier %s --verbose --out /tmp/x with exe = %s and %s'
                          % (len(mism), f, idx, chk.seed, n, idx, chk.tier, build('asan'), exe),
                          replay={'case': idx, 'flavors': ['asan', f]})
    if compared < grid:
        chk.inconclusive.append('only %d per-case digests could be compared across builds (< %d)' % (compared, grid))
    chk.assumptions += ['C locale', 'well-formed population: numeric components of at most 18 digits, suffix words from a fixed list that does not '
                        'start with snap/pre/alpha/beta unless it is one of them; pairs where runs of different classes meet are weak (A.7 is silent)',
                        'observable counts are summed over the three build flavors']
    k = len(FLAVORS)
    chk.require('grid_pairs', grid * k)
    chk.require('wf_strong_pairs', 10000 * k)
    chk.require('wf_tail_rule', 1000 * k)
    chk.require('pairs_with_run_ge_128', 5000 * k)
    chk.require('pairs_with_run_ge_300', 1000 * k)
    chk.require('both_runs_ge_128_digits', 300 * k)
    chk.require('both_runs_ge_128_letters', 300 * k)
    chk.require('both_runs_ge_128_punct', 300 * k)
    chk.require('mixed_class_pairs', 5000 * k)
    chk.require('numeric_extremes', 1000 * k)
    chk.require('arbitrary', 1000 * k)
    chk.min_cases = grid * k
    chk.coverage(build('cov'), 300)       # thorough tier: gcov line coverage of the anchored sources under this workload
