#!/usr/bin/env python3
"""C16: build the table of guarded (entry point, pointer parameter) pairs from a libast tree.

  gen_c16.py --freeze [SRC]   parse SRC (default /repo) and write gen/c16_guards.tsv  (done once, on the pinned tree)
  gen_c16.py --emit           write harness/c16_cases.inc from gen/c16_guards.tsv
  gen_c16.py --diff [SRC]     compare the entry points of SRC with the frozen table (prints new / removed as JSON)

The frozen table, not the current source, is the oracle: deleting a guard cannot delete its obligation."""
import re, sys, os, json

ROOT = os.path.dirname(os.path.dirname(os.path.abspath(__file__)))
FILES = ['obj.c', 'str.c', 'ustr.c', 'mbuff.c', 'objpair.c', 'tok.c', 'url.c', 'regexp.c', 'socket.c',
         'array.c', 'linked_list.c', 'dlinked_list.c', 'strings.c', 'conf.c', 'msgs.c']
TSV = os.path.join(ROOT, 'gen', 'c16_guards.tsv')
INC = os.path.join(ROOT, 'harness', 'c16_cases.inc')
PROBE_TSV = os.path.join(ROOT, 'gen', 'c16_probe.tsv')
PROBE_INC = os.path.join(ROOT, 'harness', 'c16_probe_cases.inc')
TRANS_TSV = os.path.join(ROOT, 'gen', 'c16_transitive.tsv')
EXPL_TSV = os.path.join(ROOT, 'gen', 'c16_explicit.tsv')
EXTRA_TSV = os.path.join(ROOT, 'gen', 'c16_guards_extra.tsv')
LIT_TSV = os.path.join(ROOT, 'gen', 'c16_literals.tsv')
LEGAL_TSV = os.path.join(ROOT, 'gen', 'c16_legalnull.tsv')
# exported entry points outside the files the property is anchored in (the quantifier says "every exported entry point")
FILES_EXTRA = ['mem.c', 'options.c', 'file.c', 'debug.c', 'builtin_hashes.c']


def strip_comments(s):
    s = re.sub(r'/\*.*?\*/', lambda m: re.sub(r'[^\n]', ' ', m.group(0)), s, flags=re.S)
    return s


FUNC_RE = re.compile(r'^((?:static\s+)?(?:const\s+)?[A-Za-z_][\w ]*?[\w\*]\s*\**)\s*\n(\w+)\(([^;{}]*?)\)\s*\n\{', re.M)


def split_params(p):
    p = ' '.join(p.split())
    if p in ('', 'void'):
        return []
    out = []
    for part in p.split(','):
        part = part.strip()
        if part == '...':
            out.append(('...', '...'))
            continue
        part = re.sub(r'\bregister\b', '', part).strip()
        m = re.match(r'(.*?)(\w+)(\[\])?$', part)
        ty, name = m.group(1).strip(), m.group(2)
        if m.group(3):
            ty += ' *'
        out.append((ty, name))
    return out


def body_of(src, start):
    depth = 0
    i = start
    while i < len(src):
        c = src[i]
        if c == '{':
            depth += 1
        elif c == '}':
            depth -= 1
            if depth == 0:
                return src[start + 1:i]
        i += 1
    return src[start + 1:]


def statements(body):
    """Top-level statements at the start of a function body (split on ';' at depth 0, stop at first '{')."""
    out, cur, depth = [], '', 0
    for ch in body:
        if ch in '([':
            depth += 1
        elif ch in ')]':
            depth -= 1
        if ch == '{' and depth == 0:
            if '=' in cur:          # brace initializer of a local: part of the declaration
                depth += 1
                cur += ch
                continue
            break
        if ch == '}' and depth > 0 and '=' in cur and cur.count('{') > cur.count('}'):
            depth -= 1
            cur += ch
            continue
        if ch == ';' and depth == 0:
            out.append(' '.join(cur.split()))
            cur = ''
        else:
            cur += ch
    return out


GUARD_RE = re.compile(r'^(ASSERT_RVAL|REQUIRE_RVAL|ASSERT|REQUIRE|SPIF_OBJ_COMP_CHECK_NULL|SPIF_COMP_CHECK_NULL)\s*\((.*)\)$')
DECL_RE = re.compile(r'^(?:register |const |static |unsigned |struct )*[A-Za-z_]\w*(?:\s*\*+\s*|\s+)\**\w+(?:\[[^\]]*\])?(?:\s*=\s*.*)?(?:,.*)?$')


def split_top(s, sep=','):
    out, cur, d = [], '', 0
    for ch in s:
        if ch in '([':
            d += 1
        elif ch in ')]':
            d -= 1
        if ch == sep and d == 0:
            out.append(cur.strip())
            cur = ''
        else:
            cur += ch
    out.append(cur.strip())
    return out


def guarded_param(cond, names):
    """Return the parameter name the condition requires to be non-NULL, or None."""
    c = cond.strip()
    while c.startswith('(') and c.endswith(')'):
        # strip one balanced outer pair
        d = 0
        ok = True
        for i, ch in enumerate(c):
            if ch == '(':
                d += 1
            elif ch == ')':
                d -= 1
                if d == 0 and i != len(c) - 1:
                    ok = False
                    break
        if not ok:
            break
        c = c[1:-1].strip()
    m = re.match(r'^!\s*SPIF_\w+_ISNULL\s*\(\s*(\w+)\s*\)$', c)
    if m and m.group(1) in names:
        return m.group(1)
    m = re.match(r'^(\w+)\s*!=\s*(?:SPIF_NULL_TYPE(?:_C|_PTR)?\s*\([^)]*\)|NULL|\(\s*[\w \*]+\)\s*NULL)$', c)
    if m and m.group(1) in names:
        return m.group(1)
    m = re.match(r'^(?:SPIF_NULL_TYPE(?:_C|_PTR)?\s*\([^)]*\)|NULL)\s*!=\s*(\w+)$', c)
    if m and m.group(1) in names:
        return m.group(1)
    m = re.match(r'^(\w+)$', c)
    if m and m.group(1) in names:
        return m.group(1)
    return None


def is_pointer_type(ty):
    t = ty.strip()
    if '*' in t:
        return True
    if re.match(r'^(const )?spif_(\w+)_t$', t):
        base = re.match(r'^(const )?spif_(\w+)_t$', t).group(2)
        scalars = {'bool', 'char', 'uchar', 'byte', 'short', 'int', 'long', 'uint8', 'uint16', 'uint32', 'uint64', 'int8', 'int16', 'int32', 'int64',
                   'stridx', 'memidx', 'listidx', 'cmp', 'sockfd', 'sockfamily', 'socktype', 'sockproto', 'ushort', 'uint', 'ulong',
                   'float', 'double', 'ustridx', 'sockaddr_len', 'size', 'fd', 'pthread', 'pthread_attr', 'pthread_mutex', 'pthread_cond'}
        return base not in scalars
    if t in ('ctx_handler_t', 'spifconf_func_ptr_t', 'spifopt_abstract_handler_t', 'spifopt_helphandler_t'):      # function pointer typedefs
        return True
    return False


def strip_config_conditionals(src, path):
    """Blank out `#if !(HAVE_X)` ... `#endif` (X defined in config.h) and `#if HAVE_X` ... `#endif` (X undefined) regions."""
    cfg = os.path.join(os.path.dirname(os.path.dirname(path)), 'config.h')
    if not os.path.exists(cfg):
        cfg = os.path.join(ROOT, 'gen', 'fallback', 'config.h')
    defined = set(re.findall(r'^#define\s+(\w+)\s+1', open(cfg).read(), flags=re.M))
    out, skip, depth = [], None, 0
    for line in src.split('\n'):
        st = line.strip()
        if skip is not None:
            if re.match(r'#\s*if', st):
                depth += 1
            elif re.match(r'#\s*endif', st):
                if depth == 0:
                    skip = None
                    out.append('')
                    continue
                depth -= 1
            out.append('')
            continue
        m = re.match(r'#\s*if\s*!\s*\(\s*(HAVE_\w+)\s*\)\s*$', st)
        if m and m.group(1) in defined:
            skip, depth = m.group(1), 0
            out.append('')
            continue
        m = re.match(r'#\s*if\s+(HAVE_\w+)\s*$', st)
        if m and m.group(1) not in defined:
            skip, depth = m.group(1), 0
            out.append('')
            continue
        out.append(line)
    return '\n'.join(out)


def parse_file(path):
    raw = open(path, encoding='latin-1').read()
    src = strip_config_conditionals(strip_comments(raw), path)
    funcs = []
    for m in FUNC_RE.finditer(src):
        rtype = ' '.join(m.group(1).split())
        static = rtype.startswith('static')
        rtype = re.sub(r'^static\s+', '', rtype)
        name = m.group(2)
        params = split_params(m.group(3))
        body = body_of(src, m.end() - 1)
        guards = []
        names = [n for _, n in params]
        for st in statements(body):
            if not st:
                continue
            g = GUARD_RE.match(st)
            if g:
                macro, args = g.group(1), split_top(g.group(2))
                if macro in ('SPIF_OBJ_COMP_CHECK_NULL', 'SPIF_COMP_CHECK_NULL'):
                    if len(args) == 2 and args[0] in names and args[1] in names:
                        guards.append((macro, args[0], 'CMP', args[1]))
                    continue
                cond = args[0]
                val = args[1] if len(args) > 1 else ''
                p = guarded_param(cond, names)
                if p:
                    guards.append((macro, p, val, ''))
                continue
            if DECL_RE.match(st) and not re.match(r'^(return|if|for|while|switch|do)\b', st) and '(' not in st.split('=')[0]:
                continue       # a local declaration; guards may follow
            if re.match(r'^(USE_VAR|D_\w+|UNUSED)\s*\(', st):
                continue
            break
        delegate = None
        sts = [x for x in statements(body) if x]
        if len(sts) == 1:
            dm = re.match(r'^return\s*\(?\s*(?:\([\w \*]+\)\s*)?(\w+)\s*\(([^()]*)\)\s*\)?$', sts[0])
            if dm:
                delegate = (dm.group(1), [x.strip() for x in dm.group(2).split(',')])
        ctor = None
        cm = re.search(r'self\s*=\s*SPIF_ALLOC\(\w+\)\s*;\s*if\s*\(\s*!\s*(\w+)\s*\(\s*self\s*((?:,[^()]*)?)\)\s*\)\s*\{\s*SPIF_DEALLOC\(self\)', body)
        if cm:
            ctor = (cm.group(1), [x.strip() for x in cm.group(2).split(',')[1:]] if cm.group(2) else [])
        funcs.append({'name': name, 'static': static, 'rtype': rtype, 'params': params, 'guards': guards, 'delegate': delegate, 'ctor': ctor})
    # class tables
    tables = []
    for m in re.finditer(r'static\s+(?:SPIF_CONST_TYPE\((\w+)\)|spif_const_(\w+)_t)\s+(\w+)\s*=\s*\{(.*?)\n\};', src, flags=re.S):
        var = m.group(3)
        entries = re.findall(r'SPIF_DECL_CLASSNAME\(\w+\)|\(spif_func_t\)\s*(\w+)', m.group(4))
        # first entry is the classname (empty group)
        flat = []
        for e in re.finditer(r'(SPIF_DECL_CLASSNAME\(\w+\))|\(spif_func_t\)\s*(\w+)', m.group(4)):
            flat.append(e.group(2) or '')
        # public pointer(s) to this table
        pubs = re.findall(r'^\s*(?:SPIF_TYPE\(\w+\)|spif_\w+_t)\s+(SPIF_\w*CLASS_VAR\(\w+\))\s*=\s*(?:\([^)]*\)\s*)?&' + var + r'\s*;', src, flags=re.M)
        tables.append({'var': var, 'slots': flat, 'pub': pubs})
    return funcs, tables


def valclass(val, rtype):
    v = val.strip()
    if v == 'CMP':
        return 'CMP'
    if v == '(NULLBAL)':
        return 'NULLBAL'
    if v == '':
        return 'VOID'
    if re.search(r'\bNAN\b', v):
        return 'NAN'
    if v == 'FALSE':
        return 'FALSE'
    if 'SPIF_NULLSTR_TYPE' in v:
        return 'NULLSTR'
    if re.search(r'NULL|SPIF_NULL(STR)?_TYPE', v):
        return 'NULL'
    if re.search(r'-\s*1\)?$', v):
        return 'MINUS1'
    if re.match(r'^(\(\s*[\w ]+\)\s*)?0$', v):
        return 'ZERO'
    return 'OTHER'


def freeze(srcroot, files=None, tsv=None):
    files = files or FILES
    tsv = tsv or TSV
    rows = []
    listed_unguarded = []
    for f in files:
        funcs, tables = parse_file(os.path.join(srcroot, 'src', f))
        fmap = {x['name']: x for x in funcs}
        slot_of = {}
        for t in tables:
            if not t['pub']:
                continue
            for i, fn in enumerate(t['slots']):
                if fn:
                    slot_of.setdefault(fn, []).append((t['pub'][-1], i))
        # thin wrappers `return callee(p1, p2, ...)` inherit the callee's guards on the forwarded parameters
        for fn in funcs:
            if fn['guards'] or not fn.get('delegate'):
                continue
            callee, cargs = fn['delegate']
            cf = fmap.get(callee)
            if not cf or not cf['guards']:
                continue
            cnames = [n for _, n in cf['params']]
            names = [n for _, n in fn['params']]
            for macro, p, val, other in cf['guards']:
                try:
                    a = cargs[cnames.index(p)]
                    if a not in names:
                        continue
                    o = ''
                    if other:
                        o = cargs[cnames.index(other)]
                        if o not in names:
                            continue
                    fn['guards'].append((macro, a, val, o))
                except (ValueError, IndexError):
                    continue
        # constructors `self = SPIF_ALLOC(t); if (!init(self, a, ...)) { SPIF_DEALLOC(self); self = NULL; }` inherit the guards of
        # their init function on the forwarded parameters: they must return NULL and leave the heap balanced (the object is
        # allocated and released again, so "no allocation" is relaxed to "nothing left allocated")
        for fn in funcs:
            if fn['guards'] or not fn.get('ctor'):
                continue
            callee, cargs = fn['ctor']
            cf = fmap.get(callee)
            if not cf or not cf['guards']:
                continue
            cnames = [n for _, n in cf['params']]
            names = [n for _, n in fn['params']]
            for macro, p, val, other in cf['guards']:
                if other or p == cnames[0]:
                    continue
                try:
                    a = cargs[cnames.index(p) - 1]
                except (ValueError, IndexError):
                    continue
                if a in names and valclass(val, cf['rtype']) == 'FALSE':
                    fn['guards'].append((macro, a, '(NULLBAL)', ''))
        for fn in funcs:
            routes = []
            if not fn['static']:
                routes.append(('direct', '', -1))
            for pub, idx in slot_of.get(fn['name'], []):
                if fn['static'] or True:
                    routes.append(('table', pub, idx))
            if not routes:
                continue     # static helper not reachable through any class table
            ptr_params = [i for i, (ty, n) in enumerate(fn['params']) if is_pointer_type(ty)]
            if not fn['guards']:
                if ptr_params:
                    listed_unguarded.append('%s:%s' % (f, fn['name']))
                continue
            names = [n for _, n in fn['params']]
            seen = set()
            for macro, p, val, other in fn['guards']:
                pi = names.index(p)
                if macro.endswith('CHECK_NULL'):
                    oi = names.index(other)
                    combos = [('CMPL', pi, oi), ('CMPG', oi, pi), ('CMPE', pi, oi)]
                else:
                    if not is_pointer_type(fn['params'][pi][0]):
                        continue
                    combos = [(valclass(val, fn['rtype']), pi, -1)]
                for vc, a, b in combos:
                    if (vc, a) in seen:
                        continue
                    seen.add((vc, a))
                    if vc == 'OTHER':
                        continue   # failure value is itself a call with effects (e.g. spif_str_init(self)): outside the statement's value set
                    for kind, pub, idx in routes:
                        if kind == 'direct' and any(r[0] == 'table' for r in routes) and fn['static']:
                            continue
                        rows.append([f, fn['name'], kind, pub, str(idx), fn['rtype'],
                                     '; '.join('%s|%s' % (ty, n) for ty, n in fn['params']), str(a), str(b), macro, vc, val])
    os.makedirs(os.path.dirname(tsv), exist_ok=True)
    with open(tsv, 'w') as out:
        out.write('# file\tfunction\troute\tclass_table\tslot\trtype\tparams\tnull_param\tother_null_param\tguard\tvalue_class\tvalue_expr\n')
        for r in rows:
            out.write('\t'.join(r) + '\n')
        for u in sorted(listed_unguarded):
            out.write('#UNGUARDED\t%s\n' % u)
    print('rows', len(rows), 'unguarded-with-pointer-params', len(listed_unguarded))


def probe_rows(srcroot):
    """Every (entry point, route, pointer parameter) that has NO row in the static table: candidates for guards that sit one
    or more calls further down (spif_x_contains -> spif_x_find's REQUIRE, spif_tok_new_from_fp -> spif_str_new_from_fp's
    ASSERT).  Whether such a position is in fact guarded is not decided from the text but by running the call on the tree
    the table is frozen from (checks/c16_probe.py); only positions that demonstrably fail soft there become obligations."""
    have = {(r['func'], r['route'], r['table'], r['slot'], r['np']) for r in load_rows(TSV)}
    have |= {(r['func'], r['route'], r['table'], r['slot'], r['onp']) for r in load_rows(TSV) if r['onp'] >= 0}
    rows = []
    for f in FILES:
        funcs, tables = parse_file(os.path.join(srcroot, 'src', f))
        slot_of = {}
        for t in tables:
            if not t['pub']:
                continue
            for i, fn in enumerate(t['slots']):
                if fn:
                    slot_of.setdefault(fn, []).append((t['pub'][-1], i))
        for fn in funcs:
            routes = []
            if not fn['static']:
                routes.append(('direct', '', -1))
            for pub, idx in slot_of.get(fn['name'], []):
                routes.append(('table', pub, idx))
            for kind, pub, idx in routes:
                if kind == 'direct' and any(r[0] == 'table' for r in routes) and fn['static']:
                    continue
                for pi, (ty, n) in enumerate(fn['params']):
                    if not is_pointer_type(ty) or (fn['name'], kind, pub, idx, pi) in have:
                        continue
                    rows.append([f, fn['name'], kind, pub, str(idx), fn['rtype'],
                                 '; '.join('%s|%s' % (t2, n2) for t2, n2 in fn['params']), str(pi), '-1', 'PROBE', 'PROBE', ''])
    with open(PROBE_TSV, 'w') as out:
        out.write('# candidates for transitive guards (generated by gen_c16.py --probe-rows; input of checks/c16_probe.py)\n')
        for r in rows:
            out.write('\t'.join(r) + '\n')
    print('probe rows', len(rows))


def literals(srcroot):
    """String literals a function compares one of its arguments with (str*cmp / BEG_STRCASECMP): values that steer the function onto another
    path.  Frozen into gen/c16_literals.tsv; --emit gives the guarded rows of such a function companions whose string arguments are these."""
    out = []
    for f in FILES + FILES_EXTRA:
        raw = open(os.path.join(srcroot, 'src', f), encoding='latin-1').read()
        src = strip_config_conditionals(strip_comments(raw), os.path.join(srcroot, 'src', f))
        for m in FUNC_RE.finditer(src):
            name = m.group(2)
            body = body_of(src, m.end() - 1)
            lits = []
            for c in re.finditer(r'\b(?:strcmp|strcasecmp|strncmp|strncasecmp|BEG_STRCASECMP)\s*\(', body):
                depth, k = 1, c.end()
                while k < len(body) and depth:
                    depth += body[k] == '('
                    depth -= body[k] == ')'
                    k += 1
                for q in re.findall(r'"((?:[^"\\]|\\.)*)"', body[c.end():k]):
                    if q and q not in lits and len(q) < 40:
                        lits.append(q)
            if lits:
                out.append((f, name, lits[:3]))
    with open(LIT_TSV, 'w') as o:
        o.write('# file\tfunction\tliterals the function compares an argument with (tools/gen_c16.py --literals)\n')
        for f, n, l in out:
            o.write('%s\t%s\t%s\n' % (f, n, '\t'.join(l)))
    print('functions with literals', len(out))


def load_rows(path=None):
    rows = []
    paths = [path] if path else [TSV] + [x for x in (EXTRA_TSV, TRANS_TSV, EXPL_TSV) if os.path.exists(x)]
    for l in (x for pth in paths for x in open(pth)):
        if l.startswith('#') or not l.strip():
            continue
        a = l.rstrip('\n').split('\t')
        rows.append(dict(file=a[0], func=a[1], route=a[2], table=a[3], slot=int(a[4]), rtype=a[5],
                         params=[tuple(x.split('|')) for x in a[6].split('; ')] if a[6] else [], np=int(a[7]), onp=int(a[8]),
                         guard=a[9], vc=a[10], val=a[11]))
    return rows


# sample-argument factories by parameter type (C expressions; factories live in harness/c16.c)
def sample(ty, name, fn):
    t = ty.replace('const ', '').strip()
    t = ' '.join(t.split())
    simple = {
        'spif_str_t': 'mk_str(variant)', 'spif_ustr_t': 'mk_ustr(variant)', 'spif_mbuff_t': 'mk_mbuff(variant)', 'spif_obj_t': 'mk_obj(variant)',
        'spif_charptr_t': 'mk_cstr_v(variant)', 'spif_byteptr_t': '(spif_byteptr_t) mk_cstr()', 'char *': 'mk_cstr_v(variant)', 'spif_ptr_t': '(spif_ptr_t) mk_cstr()',
        'spif_objpair_t': 'mk_pair(variant)', 'spif_tok_t': 'mk_tok(variant)', 'spif_url_t': 'mk_url(variant)', 'spif_regexp_t': 'mk_regexp(variant)',
        'spif_socket_t': 'mk_socket()', 'spif_array_t': 'mk_array_v(K, variant)', 'spif_linked_list_t': 'mk_llist_v(K, variant)', 'spif_dlinked_list_t': 'mk_dlist_v(K, variant)',
        'spif_list_t': 'mk_list()', 'spif_vector_t': 'mk_vector()', 'spif_map_t': 'mk_map()',
        'spif_array_iterator_t': 'mk_array_iter()', 'spif_linked_list_iterator_t': 'mk_llist_iter()', 'spif_dlinked_list_iterator_t': 'mk_dlist_iter()',
        'spif_iterator_t': 'mk_iter()', 'spif_class_t': 'SPIF_CLASS_VAR(str)', 'spif_classname_t': '(spif_classname_t) mk_cstr()',
        'spif_fileptr_t': 'mk_fp()', 'FILE *': 'mk_fp()', 'spif_obj_t *': 'mk_objarray()', 'spif_charptr_t *': 'mk_strv()', 'char **': 'mk_strv()',
        'spif_linked_list_item_t': 'mk_llitem()', 'spif_dlinked_list_item_t': 'mk_dlitem()',
        'spif_ipsockaddr_t': 'mk_ipaddr()', 'spif_unixsockaddr_t': 'mk_unaddr()', 'spif_sockaddr_t': '(spif_sockaddr_t) mk_ipaddr()',
        'spif_func_t': '(spif_func_t) 0', 'spifconf_var_t *': '(spifconf_var_t *) 0', 'ctx_handler_t': 'c16_ctx_handler',
        'spifconf_func_ptr_t': 'c16_builtin', 'va_list': None,
        'void *': '(void *) mk_cstr()', 'spifmem_memrec_t *': 'mk_memrec()',
    }
    if t in simple:
        return simple[t]
    if t in ('spif_fd_t', 'spif_sockfd_t') or (t == 'int' and name == 'fd'):
        return 'mk_fd()'
    if re.match(r'^(unsigned |signed )?(char|short|int|long|long long|size_t)$', t) or re.match(r'^spif_(bool|char|uchar|stridx|ustridx|memidx|listidx|int\d*|uint\d*|long|ulong|short|ushort|cmp|sockport)_t$', t) or t in ('size_t', 'unsigned', 'spif_uint8_t'):
        if name in ('c',):
            return "(%s) 'a'" % t
        if name == 'base':
            return '(%s) 10' % t
        return '(%s) C16_SCALAR(variant)' % t
    if t in ('double', 'float'):
        return '(%s) 1.0' % t
    return None


PRIVATE_TYPES = re.compile(r'^spif_(array|linked_list|dlinked_list)_iterator_t$')


def emit(probe=False):
    rows = load_rows(PROBE_TSV) if probe else load_rows()
    for r in rows:      # iterator structs are private to their .c files: pass them as opaque pointers
        r['params'] = [('void *' if PRIVATE_TYPES.match(ty) else ty, nm) + (('priv:' + ty,) if PRIVATE_TYPES.match(ty) else ()) for ty, nm in r['params']]
        if PRIVATE_TYPES.match(r['rtype']):
            r['rtype'] = 'void *'
    if not probe:
        # companions: the same NULL argument, with (a) every other pointer parameter for which NULL is a legal value NULL as well,
        # (b) the string arguments set to a literal the function compares an argument with.  A guard refuses before any of that matters.
        legal = {}
        if os.path.exists(LEGAL_TSV):
            for l in open(LEGAL_TSV):
                if l.startswith('#') or not l.strip():
                    continue
                a = l.rstrip('\n').split('\t')
                legal.setdefault((a[1], a[2], a[3], int(a[4])), set()).add(int(a[7]))
        lits = {}
        if os.path.exists(LIT_TSV):
            for l in open(LIT_TSV):
                if l.startswith('#') or not l.strip():
                    continue
                a = l.rstrip('\n').split('\t')
                lits[a[1]] = a[2:]
        extra = []
        for r in rows:
            if r['guard'] == 'EXPLICIT_ALLNULL':
                continue
            also = sorted(p for p in legal.get((r['func'], r['route'], r['table'], r['slot']), ()) if p != r['np'] and p != r['onp'])
            if also:
                extra.append(dict(r, also_null=also))
            strpos = [i for i, pp in enumerate(r['params']) if i != r['np'] and i != r['onp'] and pp[0].replace('const ', '').strip() in ('spif_charptr_t', 'char *', 'spif_classname_t')]
            if strpos:
                for lit in lits.get(r['func'], []):
                    extra.append(dict(r, literal=lit, strpos=strpos))
        rows = rows + extra
    out = []
    out.append('/* generated by tools/gen_c16.py --emit from gen/c16_guards.tsv -- do not edit */')
    skipped = []
    n = 0
    table = []
    tabsyms = {}
    for r in rows:
        params = r['params']
        args = []
        ok = True
        varargs = False
        decls = []
        for i, pp in enumerate(params):
            ty, nm = pp[0], pp[1]
            orig = pp[2][5:] if len(pp) > 2 else ty
            if ty == '...':
                varargs = True
                continue
            if i == r['np'] or i == r['onp'] and r['vc'] == 'CMPE' or (r['guard'] == 'EXPLICIT_ALLNULL' and is_pointer_type(ty)) or i in r.get('also_null', ()):
                args.append('(%s) 0' % ty)
                decls.append(None)
                continue
            # which positions are NULL: CMPL -> np NULL, other valid; CMPG -> np(=other) NULL...; handled through np only
            s = sample(orig, nm, r['func'])
            if 'literal' in r and i in r['strpos']:
                s = '(%s) vh_heapstr("%s")' % (ty, r['literal'])
            if s is None:
                ok = False
                break
            kind_k = {'array.c': 'K', }.get(r['file'], 'K')
            args.append(s)
            decls.append(ty)
        if not ok:
            skipped.append('%s(%s): no sample for a parameter type' % (r['func'], r['np']))
            continue
        # container flavour for mk_array(K): list/vector/map by function or table name
        K = 'KL'
        tn = (r['table'] + ' ' + r['func']).lower()
        if 'map' in tn or r['func'].endswith(('_set', '_has_key', '_has_value', '_get_keys', '_get_values', '_get_pairs')):
            K = 'KM'
        elif 'vector' in tn:
            K = 'KV'
        args = [a.replace('(K)', '(%s)' % K).replace('(K,', '(%s,' % K) for a in args]
        ptypes = ', '.join(pp[0] for pp in params if pp[0] != '...') + (', ...' if varargs else '')
        if not ptypes:
            ptypes = 'void'
        rtype = r['rtype']
        if r['route'] == 'direct':
            callee = r['func']
        else:
            tm = re.match(r'SPIF_(\w*)CLASS_VAR\((\w+)\)', r['table'])
            sym = 'spif_%s_%sclass' % (tm.group(2), tm.group(1).lower())
            if sym not in tabsyms:
                tabsyms[sym] = 'c16_tab_%d' % len(tabsyms)
            callee = '((%s (*)(%s)) (((void **) (%s))[%d]))' % (rtype, ptypes, tabsyms[sym], r['slot'])
        body = []
        body.append('static void c16_case_%d(struct c16_res *res, int variant)\n{' % n)
        has_scalar = any('C16_SCALAR' in a or 'variant)' in a for a in args)
        for i, a in enumerate(args):
            body.append('    %s a%d = %s;' % (params[i][0] if params[i][0] != '...' else 'int', i, a))
        body.append('    c16_snap_begin(res);')
        for i, a in enumerate(args):
            if decls[i] is not None and is_pointer_type(decls[i]):
                body.append('    c16_snap_arg(res, (const void *) a%d, "%s");' % (i, decls[i]))
        call = '%s(%s)' % (callee, ', '.join('a%d' % i for i in range(len(args))))
        vc = r['vc']
        if rtype == 'void' or vc == 'VOID':
            body.append('    c16_call_begin(res);\n    %s;\n    c16_call_end(res);' % call)
            body.append('    res->value_ok = 1;')
        else:
            body.append('    c16_call_begin(res);\n    %s r = %s;\n    c16_call_end(res);' % (rtype, call))
            if vc == 'NAN':
                body.append('    res->value_ok = isnan((double) r);')
            elif vc in ('FALSE', 'ZERO'):
                body.append('    res->value_ok = (r == (%s) 0);' % rtype)
            elif vc in ('NULL', 'NULLBAL'):
                body.append('    res->value_ok = (r == (%s) 0);' % rtype)
                if vc == 'NULLBAL':
                    body.append('    res->balanced_only = 1;')
            elif vc == 'NULLSTR':
                body.append('    res->value_ok = (r != 0 && !strcmp((const char *) r, (const char *) (%s)));' % r['val'])
            elif vc == 'MINUS1':
                body.append('    res->value_ok = (r == (%s) -1);' % rtype)
            elif vc == 'CMPL':
                body.append('    res->value_ok = (r == SPIF_CMP_LESS);')
            elif vc == 'CMPG':
                body.append('    res->value_ok = (r == SPIF_CMP_GREATER);')
            elif vc == 'CMPE':
                body.append('    res->value_ok = (r == SPIF_CMP_EQUAL);')
            elif vc == 'PROBE':
                body.append('    res->value_ok = 1;')
            body.append('    snprintf(res->got, sizeof res->got, "%lld", (long long) (intptr_t) r);' if vc != 'NAN' else '    snprintf(res->got, sizeof res->got, "%g", (double) r);')
        body.append('    c16_snap_check(res);\n}')
        out.append('\n'.join(body))
        desc = '%s %s(param %d %s = NULL%s) via %s expects %s' % (r['file'], r['func'], r['np'], params[r['np']][1],
                                                                     ' and param %d NULL' % r['onp'] if vc == 'CMPE' else ' and every other pointer parameter NULL' if r['guard'] == 'EXPLICIT_ALLNULL' else (' and the NULL-tolerant parameter(s) %s NULL as well' % ','.join(str(x) for x in r['also_null'])) if r.get('also_null') else (' with string argument(s) \\"%s\\"' % r['literal'].replace('\\', '\\\\')) if 'literal' in r else '',
                                                                     r['route'] if r['route'] == 'direct' else '%s[%d]' % (r['table'], r['slot']), vc)
        table.append('    { c16_case_%d, "%s", "%s", "%s", %d },' % (n, r['func'], desc.replace('"', "'"), vc, 1 if has_scalar else 0))
        n += 1
    out.insert(1, '\n'.join('extern void *%s __asm__("%s");' % (v, k) for k, v in tabsyms.items()))
    out.append('static struct c16_case C16_CASES[] = {\n' + '\n'.join(table) + '\n};')
    out.append('#define C16_NCASES %d' % n)
    out.append('static const char *C16_SKIPPED[] = {%s 0};' % ''.join('"%s", ' % s for s in skipped))
    open(PROBE_INC if probe else INC, 'w').write('\n\n'.join(out) + '\n')
    print('emitted', n, 'cases; skipped', len(skipped))
    for s in skipped:
        print('  skipped:', s)


def diff(srcroot):
    rows = load_rows()
    frozen = {(r['file'], r['func']) for r in rows}
    cur = set()
    guarded_now = set()
    for f in FILES:
        try:
            funcs, tables = parse_file(os.path.join(srcroot, 'src', f))
        except OSError:
            continue
        for fn in funcs:
            cur.add((f, fn['name']))
            if fn['guards']:
                guarded_now.add((f, fn['name']))
    print(json.dumps({'removed': sorted('%s:%s' % x for x in frozen - cur),
                      'unclassified_new_guarded': sorted('%s:%s' % x for x in guarded_now - frozen)}))


if __name__ == '__main__':
    a = sys.argv[1:]
    if a and a[0] == '--freeze':
        freeze(a[1] if len(a) > 1 else '/repo')
    elif a and a[0] == '--freeze-extra':
        freeze(a[1] if len(a) > 1 else '/repo', FILES_EXTRA, EXTRA_TSV)
    elif a and a[0] == '--literals':
        literals(a[1] if len(a) > 1 else '/repo')
    elif a and a[0] == '--emit':
        emit()
    elif a and a[0] == '--probe-rows':
        probe_rows(a[1] if len(a) > 1 else '/repo')
        emit(probe=True)
    elif a and a[0] == '--diff':
        diff(a[1] if len(a) > 1 else os.environ.get('LIBAST_SRC', '/repo'))
    else:
        print(__doc__)
