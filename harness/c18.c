/* C18: built-in hashes equal their published definitions, read exactly the key,
 * and do not depend on placement.  DESIGN.md §4 C18. */
#define _GNU_SOURCE
#include <config.h>
#include <libast.h>
#include <sys/mman.h>
#include <signal.h>
#include "vh.h"

#define INITC 0xf721b64dU

#define MIX(a,b,c) do { \
  a -= b; a -= c; a ^= (c >> 13); \
  b -= c; b -= a; b ^= (a << 8);  \
  c -= a; c -= b; c ^= (b >> 13); \
  a -= b; a -= c; a ^= (c >> 12); \
  b -= c; b -= a; b ^= (a << 16); \
  c -= a; c -= b; c ^= (b >> 5);  \
  a -= b; a -= c; a ^= (c >> 3);  \
  b -= c; b -= a; b ^= (a << 10); \
  c -= a; c -= b; c ^= (b >> 15); } while (0)

static uint32_t rd32le(const uint8_t *k) { return (uint32_t) k[0] | ((uint32_t) k[1] << 8) | ((uint32_t) k[2] << 16) | ((uint32_t) k[3] << 24); }

/* lookup2 hash(), byte-wise, as published (Dr. Dobb's 1997 / lookup2.c) with libast's init constant */
static uint32_t ref_jenkins(const uint8_t *k, uint32_t length, uint32_t initval)
{
    uint32_t a = INITC, b = INITC, c = initval, len = length;
    while (len >= 12) {
        a += rd32le(k); b += rd32le(k + 4); c += rd32le(k + 8);
        MIX(a, b, c);
        k += 12; len -= 12;
    }
    c += length;
    /* tail: bytes 0..3 -> a, 4..7 -> b, 8..10 -> c shifted up by one byte (low byte of c holds the length) */
    for (uint32_t i = 0; i < len; i++) {
        if (i < 4) a += (uint32_t) k[i] << (8 * i);
        else if (i < 8) b += (uint32_t) k[i] << (8 * (i - 4));
        else c += (uint32_t) k[i] << (8 * (i - 8 + 1));
    }
    MIX(a, b, c);
    return c;
}
/* lookup2 hash2(): key is an array of 32-bit words */
static uint32_t ref_jenkins32(const uint8_t *kb, uint32_t length, uint32_t initval)
{
    uint32_t a = INITC, b = INITC, c = initval, len = length, w[3];
    while (len >= 3) {
        memcpy(w, kb, 12);
        a += w[0]; b += w[1]; c += w[2];
        MIX(a, b, c);
        kb += 12; len -= 3;
    }
    c += length;
    if (len >= 2) { memcpy(w, kb + 4, 4); b += w[0]; }
    if (len >= 1) { memcpy(w, kb, 4); a += w[0]; }
    MIX(a, b, c);
    return c;
}
static uint32_t ref_rotating(const uint8_t *k, uint32_t len, uint32_t seed)
{
    uint32_t h = seed ? seed : INITC;
    for (uint32_t i = 0; i < len; i++) h = ((h << 4) | (h >> 28)) ^ k[i];   /* rotate-left 4, xor */
    return h ^ (h >> 10) ^ (h >> 20);
}
static uint32_t ref_oaat(const uint8_t *k, uint32_t len, uint32_t seed)
{
    uint32_t h = seed ? seed : INITC;
    for (uint32_t i = 0; i < len; i++) { h += k[i]; h += h << 10; h ^= h >> 6; }
    h += h << 3; h ^= h >> 11; h += h << 15;
    return h;
}
static uint32_t ref_fnv1a(const uint8_t *k, uint32_t len, uint32_t seed)
{
    uint32_t h = seed ? seed : 2166136261U;
    for (uint32_t i = 0; i < len; i++) { h ^= k[i]; h *= 16777619U; }
    return h;
}

typedef uint32_t (*fn_t)(spif_uint8_t *, spif_uint32_t, spif_uint32_t);
typedef uint32_t (*ref_t)(const uint8_t *, uint32_t, uint32_t);
static struct { const char *name; fn_t f; ref_t r; int words; } H[] = {
    {"jenkins", (fn_t) spifhash_jenkins, ref_jenkins, 0},
    {"jenkinsLE", (fn_t) spifhash_jenkinsLE, ref_jenkins, 0},
    {"jenkins32", (fn_t) spifhash_jenkins32, ref_jenkins32, 1},
    {"rotating", (fn_t) spifhash_rotating, ref_rotating, 0},
    {"one_at_a_time", (fn_t) spifhash_one_at_a_time, ref_oaat, 0},
    {"fnv", (fn_t) spifhash_fnv, ref_fnv1a, 0},
};
#define NH 6

static const int LENS[] = { 0,1,2,3,4,5,6,7,8,9,10,11,12,13,14,15,16,17,18,19,20,21,22,23,24,25,26,27,28,29,30,31,32,
    33,34,35,36,37,38,39,40,41,42,43,44,45,46,47,48,49,50,51,52,53,54,55,56,57,58,59,60,61,62,63,64,
    95,96,97,127,128,129,1000,4099 };
#define NLENS ((int)(sizeof LENS / sizeof LENS[0]))
#define NSEEDS 4
#define NCONT 4

static uint8_t *guard_base;   /* [PROT_NONE page][2 pages rw][PROT_NONE page] */
static long pagesz;

int main(int argc, char **argv)
{
    vh_init(argc, argv, "C18");
    pagesz = sysconf(_SC_PAGESIZE);
    guard_base = mmap(NULL, (size_t) pagesz * 4, PROT_READ | PROT_WRITE, MAP_PRIVATE | MAP_ANONYMOUS, -1, 0);
    if (guard_base == MAP_FAILED) return 3;
    mprotect(guard_base, (size_t) pagesz, PROT_NONE);
    mprotect(guard_base + 3 * pagesz, (size_t) pagesz, PROT_NONE);

    while (vh_next_case()) {
        if (VH_CASE_TRY()) {
            long idx = vh_case_idx;
            long grid = (long) NLENS * NSEEDS * NCONT;
            int random_case = idx >= grid;
            int L, sc, cc;
            if (!random_case) { L = LENS[idx % NLENS]; sc = (int) (idx / NLENS % NSEEDS); cc = (int) (idx / NLENS / NSEEDS % NCONT); }
            else { L = (int) (vh_coin(70) ? vh_range(0, 80) : vh_range(81, 6000)); sc = 3; cc = 3; }
            uint32_t seed = sc == 0 ? 0 : sc == 1 ? 1 : sc == 2 ? 0xffffffffU : (uint32_t) vh_next();
            uint8_t *content = malloc((size_t) L + 4);
            for (int i = 0; i < L + 4; i++)
                content[i] = cc == 0 ? 0 : cc == 1 ? 0xff : cc == 2 ? (uint8_t) (i + 1) : (uint8_t) vh_next();
            vh_op("len=%d seedclass=%d seed=0x%x content=%d", L, sc, seed, cc);
            for (int h = 0; h < NH; h++) {
                uint32_t n = H[h].words ? (uint32_t) L / 4 : (uint32_t) L;      /* length argument */
                size_t nbytes = H[h].words ? (size_t) n * 4 : n;
                uint32_t want = H[h].r(content, n, seed);
                for (int al = 0; al < 8; al++) {
                    /* layout 1: key ends at the end of an exact-size heap block (right red zone) */
                    uint8_t *blk = malloc(al + nbytes ? al + nbytes : 1);
                    memset(blk, 0x5a, al);
                    memcpy(blk + al, content, nbytes);
                    uint32_t got = H[h].f(blk + al, n, seed);
                    vh_evals(1);
                    if (got != want)
                        vh_fail(H[h].name, "value: %s(len=%u, seed=0x%x, align=%d, content=%d) = 0x%08x, reference 0x%08x", H[h].name, n, seed, al, cc, got, want);
                    free(blk);
                    /* layout 1b (align 0 only): key starts at block start (left red zone) */
                    /* layout 3: surrounded by bytes that change between two evaluations */
                    uint8_t *sur = malloc(32 + al + nbytes + 32);
                    memset(sur, 0x00, 32 + al + nbytes + 32);
                    memcpy(sur + 32 + al, content, nbytes);
                    uint32_t g1 = H[h].f(sur + 32 + al, n, seed);
                    memset(sur, 0xff, 32 + al);
                    memset(sur + 32 + al + nbytes, 0xff, 32);
                    uint32_t g2 = H[h].f(sur + 32 + al, n, seed);
                    vh_evals(2);
                    if (g1 != want || g2 != want)
                        vh_fail(H[h].name, "placement: %s(len=%u, seed=0x%x, align=%d) gives 0x%08x / 0x%08x with different surrounding bytes, reference 0x%08x", H[h].name, n, seed, al, g1, g2, want);
                    /* layout 4: the same address, length and seed with different contents in consecutive calls -- the value is a
                     * function of the bytes, not of where they are or of what was hashed there before */
                    if (nbytes > 0) {
                        uint8_t *k4 = sur + 32 + al;
                        size_t at = (size_t) ((unsigned) (h * 7 + al * 3 + L) % nbytes);
                        uint8_t old = k4[at];
                        k4[at] = (uint8_t) (old ^ 0x5b);
                        uint8_t *c2 = malloc(nbytes); memcpy(c2, k4, nbytes);
                        uint32_t want2 = H[h].r(c2, n, seed), g4 = H[h].f(k4, n, seed);
                        k4[at] = old;
                        uint32_t g5 = H[h].f(k4, n, seed);
                        free(c2);
                        vh_evals(2);
                        vh_count("same_address_changed_content_evals", 2);
                        if (g4 != want2 || g5 != want)
                            vh_fail(H[h].name, "history: %s(len=%u, seed=0x%x, align=%d) at one address: after changing byte %zu the value is 0x%08x (reference 0x%08x), after changing it back 0x%08x (reference 0x%08x)",
                                    H[h].name, n, seed, al, at, g4, want2, g5, want);
                    }
                    free(sur);
                    vh_cov(vh_mix(vh_mix((uint64_t) h * 8 + al, (uint64_t) L), (uint64_t) sc * 4 + cc));
                }
                /* layout 2: guard pages. key begins right after a PROT_NONE page, and (second placement) ends right before one */
                if (nbytes <= (size_t) pagesz) {
                    uint8_t *k1 = guard_base + pagesz;
                    memcpy(k1, content, nbytes);
                    uint32_t g = H[h].f(k1, n, seed);
                    uint8_t *k2 = guard_base + 3 * pagesz - nbytes;
                    memmove(k2, content, nbytes);
                    uint32_t g2 = H[h].f(k2, n, seed);
                    vh_evals(2);
                    vh_count("guard_page_evals", 2);
                    if (g != want || g2 != want)
                        vh_fail(H[h].name, "guard-page placement: %s(len=%u) = 0x%08x / 0x%08x, reference 0x%08x", H[h].name, n, g, g2, want);
                }
                vh_count(H[h].name, 1);
            }
            /* byte-wise == word-wise Jenkins on this little-endian host */
            {
                uint32_t x = spifhash_jenkins(content, (uint32_t) L, seed), y = spifhash_jenkinsLE(content, (uint32_t) L, seed);
                if (x != y) vh_fail("jenkins-vs-LE", "jenkins 0x%08x != jenkinsLE 0x%08x (len=%d seed=0x%x)", x, y, L, seed);
                vh_count("jenkins_eq_LE", 1);
            }
            if (L == 13 || (random_case && vh_coin(5)))
                vh_sample("len=%d seed=0x%x content=%s -> jenkins=0x%08x fnv=0x%08x", L, seed, vh_q(content, L > 16 ? 16 : L),
                          spifhash_jenkins(content, (uint32_t) L, seed), spifhash_fnv(content, (uint32_t) L, seed));
            vh_count(random_case ? "random_cases" : "grid_cases", 1);
            free(content);
        }
        vh_case_done();
    }
    return vh_finish();
}
