/* C15: macro call sites under different __FILE__ names (lengths 0,1,19,20,21,22,300) -- generated once, see c15.c.
 * c15_site.h is included once per site with SITE, SITE_FILE and SITE_LINE defined. */
#ifndef C15_SITES_H
#define C15_SITES_H
#define C15_NSITES 7
#define C15_SITE0_FILE ""
#define C15_SITE0_LINE 1
#define C15_SITE1_FILE "f"
#define C15_SITE1_LINE 7
#define C15_SITE2_FILE "fn019_abcdefghijklm"
#define C15_SITE2_LINE 65535
#define C15_SITE3_FILE "fn020_abcdefghijklmn"
#define C15_SITE3_LINE 123456
#define C15_SITE4_FILE "fn021_abcdefghijklmno"
#define C15_SITE4_LINE 2147483000
#define C15_SITE5_FILE "fn022_abcdefghijklmnop"
#define C15_SITE5_LINE 42
#define C15_SITE6_FILE "fn300_abcdefghijklmnopqrstuvwxyz0123456789abcdefghijklmnopqrstuvwxyz0123456789abcdefghijklmnopqrstuvwxyz0123456789abcdefghijklmnopqrstuvwxyz0123456789abcdefghijklmnopqrstuvwxyz0123456789abcdefghijklmnopqrstuvwxyz0123456789abcdefghijklmnopqrstuvwxyz0123456789abcdefghijklmnopqrstuvwxyz0123456789abcdef"
#define C15_SITE6_LINE 999
#endif
