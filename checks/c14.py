"""C14: URL objects decompose and recompose every well-formed URL exactly (DESIGN.md §4 C14)."""
import vf

WRAPS = ['getprotobyname', 'getservbyname']


def build(flavor='asan'):
    return vf.build_harness('c14', flavor, ['c14.c'], wraps=WRAPS)


def rebuild_for_replay(rec):
    exe = rec.get('exe') or ''
    return build('asan-pat' if '-asan-pat-' in exe else 'asan')


def run(chk):
    # cases PER SHARD; 2/3 of the cases are component tuples (each parsed under all 5 lookup outcomes), 1/3 byte strings
    per = chk.pick(8000, 600000)
    chk.run('asan', build('asan'), per)
    # same workload with every never-assigned local holding a non-canonical pattern: a lookup result that was
    # never obtained cannot be dereferenced without faulting
    chk.run('asan-pat', build('asan-pat'), per)
    chk.rule = ('tuple case = (presence of proto/user/passwd/host/port/path/query, "//" spelled or not, protocol word class '
                '{unknown, service name, IP protocol name}) over alphabets that keep the documented shape unambiguous; each tuple is '
                'parsed under the 5 forced lookup outcomes {protocol found, tcp service, udp service, neither, service without protocol} '
                '(getprotobyname/getservbyname interposed at link time), accessors compared with the tuple, unparse compared with an '
                'independent canonical printer, the produced text parsed again; byte-string case = arbitrary bytes <= 200 (uniform, '
                'structure-heavy, mutated URLs): sanitizers + object sanity only; all of it on two builds (asan, asan + pattern-initialised '
                'locals); distinct = distinct (shape, forced-"//", outcome, protocol word class) / (components present, outcome, byte '
                'distribution) combinations')
    chk.assumptions += ['lookups are answered by the harness, never by the host databases',
                        'empty-but-present components (e.g. "user:@host", "host?") and the host:port / user:passwd@ spellings without '
                        'protocol and without "//" (which read as "proto:") are outside the generated population',
                        'port filled for a URL without host (bare path with a service protocol word): only round-trip stability is asserted']
    nt = per * vf.NCPU * 2 // 3
    chk.require('tuple_cases', nt)
    chk.require('random_cases', per * vf.NCPU // 4)
    for o in ('fill_outcome_protocol_found', 'fill_outcome_tcp', 'fill_outcome_udp', 'fill_outcome_neither',
              'fill_outcome_service_without_protocol'):
        chk.require(o, nt // 8)
    chk.require('protocol_word_is_protocol_name', 200)
    chk.require('unparse_strong', nt)
    chk.require('reparse_strong', nt)
    chk.require('bare_path_tuples', 500)
    chk.require('passwd_with_colon', 200)
    chk.require('path_with_at_or_colon', 500)
    chk.require('query_with_at_colon_slash', 500)
    chk.min_cases = per * vf.NCPU * 2
    chk.coverage(build('cov'), 300)       # thorough tier: gcov line coverage of the anchored sources under this workload
