/* C19: local sockets carry bytes intact under short I/O and never leak descriptors.  DESIGN.md §4 C19.
 *
 * Everything runs in one process: listener, client and accepted peer are spif_socket objects on UNIX-domain
 * stream sockets bound below the run's scratch directory (reached as /proc/self/cwd/... so that sun_path stays
 * short whatever the scratch directory is called).
 *
 * Link-time interposition (-Wl,--wrap) of read write accept close socket dup connect bind listen select
 * getprotobyname getservbyname gives
 *   - the fault schedules: the first k read calls of a transfer answer from {complete, short, EINTR}, the first
 *     k write calls from {complete, short, EINTR, EAGAIN} (only on descriptors the library itself opened);
 *   - the descriptor ledger: every descriptor libast obtains from socket/accept/dup and every close of it;
 *   - guards that turn "would block forever" (there is no second process) into an immediate, flagged error;
 *   - capture of the bytes that really crossed the read/write boundary during one send/recv call.
 *
 * Case kinds by index:  idx < 3400  the complete grid {write schedules, k<=3} x {read schedules, k<=3};
 *                        then alternately sampled transfers (k<=6) and lifecycle histories (random orders of
 *                        open/accept/send/recv/close/dup/del/done/set_nbio... with injected failures).
 */
#define _GNU_SOURCE
#include <config.h>
#include <libast.h>
#include <sys/socket.h>
#include <sys/un.h>
#include <sys/stat.h>
#include <sys/ioctl.h>
#include <sys/select.h>
#include <netdb.h>
#include <poll.h>
#include <fcntl.h>
#include <dirent.h>
#include <signal.h>
#include <errno.h>
#include <unistd.h>
#include <stdarg.h>
#include "vh.h"

ssize_t __real_read(int, void *, size_t);
ssize_t __real_write(int, const void *, size_t);
int __real_accept(int, struct sockaddr *, socklen_t *);
int __real_close(int);
int __real_socket(int, int, int);
int __real_dup(int);
int __real_connect(int, const struct sockaddr *, socklen_t);
int __real_bind(int, const struct sockaddr *, socklen_t);
int __real_listen(int, int);
int __real_select(int, fd_set *, fd_set *, fd_set *, struct timeval *);

#define TRACE(...) do { if (vh_verbose) { fprintf(stderr, "      sys: " __VA_ARGS__); fputc('\n', stderr); } } while (0)

/* ------------------------------------------------------------------ descriptor ledger */
#define MAXFD 4096
enum { ORG_NONE, ORG_SOCKET, ORG_ACCEPT, ORG_DUP };
static const char *ORGNAME[] = { "?", "socket()", "accept()", "dup()" };
static struct fdrec { int open; int origin; long op_open; long op_close; int closed_by_library; } led[MAXFD];
static long n_opened, n_closed;
static long cur_op;                       /* index of the operation being executed (journal index) */
static char cur_op_text[200];
static long calls_in_op;                  /* wrapped calls made during the current operation */
static long io_calls_in_op;               /* read/write calls on library descriptors during the current operation */
static int foreign_close_fd = -1;
static int stale_close_fd = -1;           /* close() of a number the library itself closed earlier and that nobody has reopened */

static int tracked(int fd) { return fd >= 0 && fd < MAXFD && led[fd].open; }
static void ledger_open(int fd, int origin)
{
    if (fd < 0 || fd >= MAXFD) return;
    led[fd].open = 1; led[fd].origin = origin; led[fd].op_open = cur_op; led[fd].op_close = -1; led[fd].closed_by_library = 0;
    n_opened++;
}
static void ledger_close(int fd)
{
    if (!tracked(fd)) return;
    led[fd].open = 0; led[fd].op_close = cur_op; led[fd].closed_by_library = 1;
    n_closed++;
}
static int ledger_open_count(void) { int n = 0; for (int i = 0; i < MAXFD; i++) n += led[i].open; return n; }

/* ------------------------------------------------------------------ fault schedules and injections */
enum { F_COMPLETE = 0, F_SHORT, F_EINTR, F_EAGAIN };
static const char FCH[] = "CSIA";
#define MAXSCHED 8
static int wsched[MAXSCHED], wn, wpos, wapplied;
static int rsched[MAXSCHED], rn, rpos, rapplied;
static int rand_fault_pct;                /* lifecycle: random faults once the schedules are exhausted */
static vh_rng_t fault_rng;
static uint64_t frnd(uint64_t n) { return n ? vh_splitmix(&fault_rng.s) % n : 0; }

static struct {
    int socket_errno, bind_errno, listen_errno, connect_errno, dup_errno;
    int accept_errno, accept_times;
    int write_errno, write_skip;          /* answers a write on a library descriptor, after write_skip other writes */
    int close_eio;                        /* next close of a library descriptor closes it and reports EIO */
    int close_eintr;                      /* the next n closes of a library descriptor are interrupted before anything happened (descriptor stays open): the library's own retry loop is written for this model */
    int consumed;
} inj;

static long n_short_reads, n_short_writes, n_eintr_reads, n_eintr_writes, n_eagain_writes, n_backoffs;
static long guard_read_block, guard_write_block, guard_accept_block, guard_connect_full, guard_read_total;

/* bytes that crossed the boundary during the current send/recv */
#define CAPMAX (1 << 18)
static unsigned char *wcap, *rcap;
static size_t wcapn, rcapn;
static long bytes_written_case;

#define CALL_LIMIT 200000
static void count_call(const char *what)
{
    if (++calls_in_op > CALL_LIMIT) {
        calls_in_op = 0;
        vh_fail("op:livelock", "more than %d %s calls inside one library call (%s): the call does not terminate", CALL_LIMIT, what, cur_op_text);
    }
}

static int is_blocking(int fd) { int fl = fcntl(fd, F_GETFL); return fl >= 0 && !(fl & O_NONBLOCK); }
static int ready(int fd, short ev) { struct pollfd p = { fd, ev, 0 }; return poll(&p, 1, 0) > 0 && p.revents; }

ssize_t __wrap_read(int fd, void *buf, size_t n)
{
    if (!tracked(fd)) return __real_read(fd, buf, n);
    int e0 = errno;
    count_call("read"); io_calls_in_op++;
    int kind = F_COMPLETE, scheduled = 0;
    if (rpos < rn) { kind = rsched[rpos++]; scheduled = 1; }
    else if (rand_fault_pct && (int) frnd(100) < rand_fault_pct) kind = frnd(2) ? F_SHORT : F_EINTR;
    if (kind == F_EINTR) {
        n_eintr_reads++; if (scheduled) rapplied++;
        TRACE("read(%d, %zu) = -1 EINTR [injected]", fd, n);
        errno = EINTR; return -1;
    }
    if (is_blocking(fd) && !ready(fd, POLLIN)) {
        /* nobody else can ever write: the real call would sleep forever */
        guard_read_block++; guard_read_total++;
        TRACE("read(%d, %zu) would block forever -> EAGAIN [guard]", fd, n);
        errno = EAGAIN; return -1;
    }
    size_t want = n;
    if (kind == F_SHORT) {
        int avail = 0;
        ioctl(fd, FIONREAD, &avail);
        size_t m = (size_t) avail < n ? (size_t) avail : n;
        int later = 0;
        for (int i = rpos; i < rn; i++) later += rsched[i] == F_SHORT;
        if (m >= 2) {
            size_t hi = m - 1;
            if (hi > (size_t) 2 * later + 1) hi -= (size_t) 2 * later; else hi = 1;
            unsigned c = (unsigned) frnd(4);
            want = c == 0 ? 1 : c == 1 ? hi : 1 + frnd(hi);
            n_short_reads++; if (scheduled) rapplied++;
        } else kind = F_COMPLETE;                  /* nothing to shorten: item not consumed */
    } else if (scheduled) rapplied++;
    errno = e0;
    ssize_t r = __real_read(fd, buf, want);
    int e1 = errno;
    if (r > 0 && rcap && rcapn + (size_t) r <= CAPMAX) { memcpy(rcap + rcapn, buf, (size_t) r); rcapn += (size_t) r; }
    TRACE("read(%d, %zu%s) = %zd%s%s", fd, n, kind == F_SHORT ? " [short]" : "", r, r < 0 ? " " : "", r < 0 ? strerror(e1) : "");
    errno = r < 0 ? e1 : e0;
    return r;
}

ssize_t __wrap_write(int fd, const void *buf, size_t n)
{
    if (!tracked(fd)) return __real_write(fd, buf, n);
    int e0 = errno;
    count_call("write"); io_calls_in_op++;
    if (inj.write_errno && inj.write_skip-- <= 0) {
        int e = inj.write_errno;
        inj.write_errno = 0; inj.consumed++;
        TRACE("write(%d, %zu) = -1 %s [injected]", fd, n, strerror(e));
        errno = e; return -1;
    }
    int kind = F_COMPLETE, scheduled = 0;
    if (wpos < wn) { kind = wsched[wpos++]; scheduled = 1; }
    else if (rand_fault_pct && (int) frnd(100) < rand_fault_pct) kind = 1 + (int) frnd(3);
    if (kind == F_EINTR || kind == F_EAGAIN) {
        if (kind == F_EINTR) n_eintr_writes++; else n_eagain_writes++;
        if (scheduled) wapplied++;
        TRACE("write(%d, %zu) = -1 %s [injected]", fd, n, kind == F_EINTR ? "EINTR" : "EAGAIN");
        errno = kind == F_EINTR ? EINTR : EAGAIN; return -1;
    }
    size_t want = n;
    if (kind == F_SHORT) {
        int later = 0;
        for (int i = wpos; i < wn && wsched[i] != F_COMPLETE; i++) later += wsched[i] == F_SHORT;
        if (n >= 2 && n - 1 > (size_t) later) {
            size_t hi = n - 1 - (size_t) later;
            unsigned c = (unsigned) frnd(4);
            want = c == 0 ? 1 : c == 1 ? hi : 1 + frnd(hi);
            n_short_writes++; if (scheduled) wapplied++;
        } else kind = F_COMPLETE;
    } else if (scheduled) wapplied++;
    errno = e0;
    /* never sleep: nobody would drain the buffer while we are inside send.  (poll(POLLOUT) is no use as a test:
     * it already says "not writable" at a quarter of the send buffer.) */
    ssize_t r = send(fd, buf, want, MSG_DONTWAIT);
    if (r < 0 && errno == ENOTSOCK) { errno = e0; r = __real_write(fd, buf, want); }
    int e1 = errno;
    if (r < 0 && (e1 == EAGAIN || e1 == EWOULDBLOCK)) {
        guard_write_block++;
        TRACE("write(%d, %zu) would block forever -> ENOBUFS [guard]", fd, n);
        errno = ENOBUFS; return -1;
    }
    if (r > 0) {
        if (wcap && wcapn + (size_t) r <= CAPMAX) { memcpy(wcap + wcapn, buf, (size_t) r); wcapn += (size_t) r; }
        bytes_written_case += r;
    }
    TRACE("write(%d, %zu%s) = %zd%s%s", fd, n, kind == F_SHORT ? " [short]" : "", r, r < 0 ? " " : "", r < 0 ? strerror(e1) : "");
    errno = r < 0 ? e1 : e0;
    return r;
}

/* pending connections per listening path (so that connect never sleeps on a full backlog) */
#define MAXPATHS 16
static struct { char path[112]; int pending; } ptab[MAXPATHS];
static int nptab;
static int path_slot(const char *p)
{
    for (int i = 0; i < nptab; i++) if (!strcmp(ptab[i].path, p)) return i;
    if (nptab < MAXPATHS) { snprintf(ptab[nptab].path, sizeof ptab[nptab].path, "%s", p); ptab[nptab].pending = 0; return nptab++; }
    return -1;
}
static char bound_paths[MAXPATHS * 2][112];
static int nbound;

int __wrap_accept(int fd, struct sockaddr *a, socklen_t *l)
{
    count_call("accept");
    if (inj.accept_errno) {
        int e = inj.accept_errno;
        if (--inj.accept_times <= 0) inj.accept_errno = 0;
        inj.consumed++;
        TRACE("accept(%d) = -1 %s [injected]", fd, strerror(e));
        errno = e; return -1;
    }
    if (tracked(fd)) {
        int lst = 0; socklen_t ol = sizeof lst;
        if (getsockopt(fd, SOL_SOCKET, SO_ACCEPTCONN, &lst, &ol) == 0 && lst && !ready(fd, POLLIN)) {
            guard_accept_block++;
            TRACE("accept(%d) would wait forever -> ECONNABORTED [guard]", fd);
            errno = ECONNABORTED; return -1;
        }
    }
    int r = __real_accept(fd, a, l);
    int e1 = errno;
    if (r >= 0) {
        ledger_open(r, ORG_ACCEPT);
        struct sockaddr_un me; socklen_t ml = sizeof me;
        memset(&me, 0, sizeof me);
        if (getsockname(fd, (struct sockaddr *) &me, &ml) == 0 && ml > sizeof(sa_family_t)) {
            int s = path_slot(me.sun_path);
            if (s >= 0 && ptab[s].pending > 0) ptab[s].pending--;
        }
    }
    TRACE("accept(%d) = %d%s%s", fd, r, r < 0 ? " " : "", r < 0 ? strerror(e1) : "");
    errno = e1;
    return r;
}

int __wrap_close(int fd)
{
    if (!tracked(fd)) {
        /* not a descriptor the library opened.  A *valid* one is somebody else's: refuse and flag. */
        if (fd >= 0 && fcntl(fd, F_GETFD) != -1) {
            foreign_close_fd = fd;
            TRACE("close(%d): descriptor does not belong to the library [flagged, not closed]", fd);
            errno = EBADF; return -1;
        }
        if (fd >= 0 && fd < MAXFD && led[fd].closed_by_library && !led[fd].open) stale_close_fd = fd;
        TRACE("close(%d) = -1 EBADF", fd);
        return __real_close(fd);
    }
    count_call("close");
    if (inj.close_eintr > 0) {
        inj.close_eintr--; inj.consumed++;
        TRACE("close(%d) = -1 EINTR [injected; descriptor still open]", fd);
        errno = EINTR; return -1;
    }
    int r = __real_close(fd);
    int e1 = errno;
    ledger_close(fd);
    if (inj.close_eio) {
        inj.close_eio = 0; inj.consumed++;
        TRACE("close(%d) = -1 EIO [injected; descriptor is closed]", fd);
        errno = EIO; return -1;
    }
    TRACE("close(%d) = %d", fd, r);
    errno = e1;
    return r;
}

int __wrap_socket(int d, int t, int p)
{
    count_call("socket");
    if (inj.socket_errno) { int e = inj.socket_errno; inj.socket_errno = 0; inj.consumed++; TRACE("socket() = -1 %s [injected]", strerror(e)); errno = e; return -1; }
    int r = __real_socket(d, t, p);
    int e1 = errno;
    if (r >= 0) ledger_open(r, ORG_SOCKET);
    TRACE("socket(%d,%d,%d) = %d", d, t, p, r);
    errno = e1;
    return r;
}

int __wrap_dup(int fd)
{
    count_call("dup");
    if (inj.dup_errno) { int e = inj.dup_errno; inj.dup_errno = 0; inj.consumed++; TRACE("dup(%d) = -1 %s [injected]", fd, strerror(e)); errno = e; return -1; }
    int r = __real_dup(fd);
    int e1 = errno;
    if (r >= 0) ledger_open(r, ORG_DUP);
    TRACE("dup(%d) = %d", fd, r);
    errno = e1;
    return r;
}

int __wrap_connect(int fd, const struct sockaddr *a, socklen_t l)
{
    count_call("connect");
    if (inj.connect_errno) { int e = inj.connect_errno; inj.connect_errno = 0; inj.consumed++; TRACE("connect(%d) = -1 %s [injected]", fd, strerror(e)); errno = e; return -1; }
    int slot = -1;
    if (a && a->sa_family == AF_UNIX && l > sizeof(sa_family_t)) {
        char p[112];
        snprintf(p, sizeof p, "%.*s", (int) (l - sizeof(sa_family_t) < 108 ? l - sizeof(sa_family_t) : 108), ((const struct sockaddr_un *) a)->sun_path);
        slot = path_slot(p);
        if (slot >= 0 && ptab[slot].pending >= 4) {
            guard_connect_full++;
            TRACE("connect(%d, %s): backlog kept below its limit -> ECONNREFUSED [guard]", fd, p);
            errno = ECONNREFUSED; return -1;
        }
    }
    int r = __real_connect(fd, a, l);
    int e1 = errno;
    if (r == 0 && slot >= 0) ptab[slot].pending++;
    TRACE("connect(%d) = %d%s%s", fd, r, r < 0 ? " " : "", r < 0 ? strerror(e1) : "");
    errno = e1;
    return r;
}

int __wrap_bind(int fd, const struct sockaddr *a, socklen_t l)
{
    count_call("bind");
    if (inj.bind_errno) { int e = inj.bind_errno; inj.bind_errno = 0; inj.consumed++; TRACE("bind(%d) = -1 %s [injected]", fd, strerror(e)); errno = e; return -1; }
    int r = __real_bind(fd, a, l);
    int e1 = errno;
    if (r == 0 && a && a->sa_family == AF_UNIX && nbound < MAXPATHS * 2)
        snprintf(bound_paths[nbound++], 112, "%.108s", ((const struct sockaddr_un *) a)->sun_path);
    TRACE("bind(%d, %s) = %d%s%s", fd, a && a->sa_family == AF_UNIX ? ((const struct sockaddr_un *) a)->sun_path : "?", r, r < 0 ? " " : "", r < 0 ? strerror(e1) : "");
    errno = e1;
    return r;
}

int __wrap_listen(int fd, int backlog)
{
    count_call("listen");
    if (inj.listen_errno) { int e = inj.listen_errno; inj.listen_errno = 0; inj.consumed++; TRACE("listen(%d) = -1 %s [injected]", fd, strerror(e)); errno = e; return -1; }
    int r = __real_listen(fd, backlog);
    int e1 = errno;
    TRACE("listen(%d, %d) = %d%s%s", fd, backlog, r, r < 0 ? " " : "", r < 0 ? strerror(e1) : "");
    errno = e1;
    return r;
}

int __wrap_select(int nfds, fd_set *r, fd_set *w, fd_set *x, struct timeval *tv)
{
    if (nfds == 0 && !r && !w && !x) {                 /* the sender's back-off sleep: logical time only */
        count_call("select");
        n_backoffs++;
        return 0;
    }
    return __real_select(nfds, r, w, x, tv);
}

/* hermetic: the host's protocol/service databases are never opened */
struct protoent *__wrap_getprotobyname(const char *name) { (void) name; return NULL; }
struct servent *__wrap_getservbyname(const char *name, const char *proto) { (void) name; (void) proto; return NULL; }

/* ------------------------------------------------------------------ census of /proc/self/fd */
#define CENSUS_MAX 512
static int census(int *out)
{
    DIR *d = opendir("/proc/self/fd");
    if (!d) return -1;
    int n = 0, self = dirfd(d);
    struct dirent *e;
    while ((e = readdir(d))) {
        if (e->d_name[0] < '0' || e->d_name[0] > '9') continue;
        int fd = atoi(e->d_name);
        if (fd == self) continue;
        if (n < CENSUS_MAX) out[n++] = fd;
    }
    closedir(d);
    for (int i = 1; i < n; i++) { int v = out[i], j = i; while (j > 0 && out[j - 1] > v) { out[j] = out[j - 1]; j--; } out[j] = v; }
    return n;
}
static const char *census_str(const int *c, int n)
{
    static char b[2][600]; static int k;
    char *s = b[k++ & 1]; size_t o = 0;
    s[0] = 0;
    for (int i = 0; i < n && o < 580; i++) o += (size_t) snprintf(s + o, 600 - o, "%s%d", i ? "," : "", c[i]);
    return s;
}

/* ------------------------------------------------------------------ socket objects of the scenario */
#define MAXOBJ 14
typedef struct { spif_socket_t s; char kind; int id; } slot_t;
static slot_t objs[MAXOBJ];
static int next_id;
static long n_ops;

static void begin_op(const char *fmt, ...) __attribute__((format(printf, 1, 2)));
static void begin_op(const char *fmt, ...)
{
    va_list ap; va_start(ap, fmt); vsnprintf(cur_op_text, sizeof cur_op_text, fmt, ap); va_end(ap);
    vh_op("%s", cur_op_text);
    cur_op = n_ops++;
    calls_in_op = 0; io_calls_in_op = 0;
    foreign_close_fd = -1; stale_close_fd = -1;
    wcapn = rcapn = 0;
}

static const char *objname(int i) { static char b[4][24]; static int k; char *s = b[k++ & 3]; snprintf(s, 24, "%c%d", objs[i].kind, objs[i].id); return s; }

/* after every operation: open = closed + held, one owner per descriptor, nobody refers to a closed one */
static void check_ledger(void)
{
    if (foreign_close_fd >= 0)
        vh_fail("fd:foreign-close", "%s: the library tried to close descriptor %d, which it does not own (open, not obtained through socket/accept/dup)", cur_op_text, foreign_close_fd);
    if (stale_close_fd >= 0)
        vh_fail("fd:closed-twice", "%s: the library called close() on descriptor %d, which it had already closed (the number was free: had anyone reopened it, this would have closed somebody else's descriptor)", cur_op_text, stale_close_fd);
    int held = 0;
    static int owner[MAXFD];
    for (int i = 0; i < MAXOBJ; i++) {
        if (!objs[i].s) continue;
        int fd = objs[i].s->fd;
        if (fd < 0) continue;
        if (!tracked(fd)) {
            if (fd < MAXFD && led[fd].op_close >= 0)
                vh_fail("fd:stale", "after %s: object %s still has fd=%d, which the library closed during op %ld", cur_op_text, objname(i), fd, led[fd].op_close);
            vh_fail("fd:stale", "after %s: object %s has fd=%d, which is not a descriptor the library has open", cur_op_text, objname(i), fd);
        }
        held++;
    }
    for (int i = 0; i < MAXOBJ; i++) if (objs[i].s && objs[i].s->fd >= 0) owner[objs[i].s->fd] = 0;
    for (int i = 0; i < MAXOBJ; i++) {
        if (!objs[i].s || objs[i].s->fd < 0) continue;
        int fd = objs[i].s->fd;
        if (owner[fd]) vh_fail("fd:shared", "after %s: objects %s and %s both own fd=%d", cur_op_text, objname(owner[fd] - 1), objname(i), fd);
        owner[fd] = i + 1;
    }
    for (int i = 0; i < MAXOBJ; i++) if (objs[i].s && objs[i].s->fd >= 0) owner[objs[i].s->fd] = 0;
    int nopen = ledger_open_count();
    vh_evals(2);
    if (nopen != held || n_opened != n_closed + held) {
        /* name one orphan */
        for (int fd = 0; fd < MAXFD; fd++) {
            if (!led[fd].open) continue;
            int has = 0;
            for (int i = 0; i < MAXOBJ; i++) if (objs[i].s && objs[i].s->fd == fd) has = 1;
            if (!has)
                vh_fail("fd:leak", "after %s: fd=%d obtained from %s during op %ld is open but no socket object holds it (opened %ld, closed %ld, held %d)",
                        cur_op_text, fd, ORGNAME[led[fd].origin], led[fd].op_open, n_opened, n_closed, held);
        }
        vh_fail("fd:ledger", "after %s: opened %ld != closed %ld + held %d", cur_op_text, n_opened, n_closed, held);
    }
}

static int free_slot(void) { for (int i = 0; i < MAXOBJ; i++) if (!objs[i].s) return i; return -1; }
static int nlive(void) { int n = 0; for (int i = 0; i < MAXOBJ; i++) n += objs[i].s != NULL; return n; }

static char base_dir[64];
static void make_path(char *out, size_t n, const char *tag) { snprintf(out, n, "%s/k%ld%s", base_dir, vh_case_idx, tag); }

static spif_url_t make_url(const char *path, int with_proto)
{
    char t[200];
    snprintf(t, sizeof t, "%s%s", with_proto ? "unix:" : "", path);
    return spif_url_new_from_ptr((spif_charptr_t) t);
}

static int op_new(char kind, const char *local, const char *remote, int with_proto)
{
    int i = free_slot();
    if (i < 0) return -1;
    begin_op("new %c%d local=%s remote=%s%s", kind, next_id, local ? local : "-", remote ? remote : "-", with_proto ? " (unix: form)" : "");
    spif_url_t lu = local ? make_url(local, with_proto) : NULL, ru = remote ? make_url(remote, with_proto) : NULL;
    spif_socket_t s = spif_socket_new_from_urls(lu, ru);
    if (lu) spif_url_del(lu);
    if (ru) spif_url_del(ru);
    VH_CHECK(s != NULL, "new:refused", "spif_socket_new_from_urls returned NULL");
    objs[i].s = s; objs[i].kind = kind; objs[i].id = next_id++;
    check_ledger();
    return i;
}
static int op_open(int i)
{
    begin_op("open %s (fd=%d)", objname(i), objs[i].s->fd);
    spif_bool_t r = spif_socket_open(objs[i].s);
    TRACE("-> %s, fd=%d flags=0x%x", r ? "TRUE" : "FALSE", objs[i].s->fd, (unsigned) objs[i].s->flags);
    check_ledger();
    vh_count(r ? "open_ok" : "open_failed", 1);
    return r ? 1 : 0;
}
static int op_accept(int i)
{
    int j = free_slot();
    if (j < 0) return -1;
    begin_op("accept on %s (fd=%d)", objname(i), objs[i].s->fd);
    spif_socket_t a = spif_socket_accept(objs[i].s);
    if (a) { objs[j].s = a; objs[j].kind = 'A'; objs[j].id = next_id++; }
    TRACE("-> %s fd=%d", a ? objname(j) : "NULL", a ? a->fd : -1);
    check_ledger();
    vh_count(a ? "accept_ok" : "accept_failed", 1);
    return a ? j : -1;
}
static int op_dup(int i)
{
    int j = free_slot();
    if (j < 0) return -1;
    begin_op("dup %s (fd=%d)", objname(i), objs[i].s->fd);
    spif_socket_t d = spif_socket_dup(objs[i].s);
    if (d) { objs[j].s = d; objs[j].kind = 'D'; objs[j].id = next_id++; }
    check_ledger();
    if (d) vh_count(d->fd >= 0 ? "dup_with_fd" : "dup_without_fd", 1);
    return d ? j : -1;
}
static int op_close(int i)
{
    begin_op("close %s (fd=%d)", objname(i), objs[i].s->fd);
    int had = objs[i].s->fd >= 0;
    spif_bool_t r = spif_socket_close(objs[i].s);
    check_ledger();
    if (had) {
        vh_evals(1);
        VH_CHECK(objs[i].s->fd < 0, "close:fd", "after close of %s the object still has fd=%d", objname(i), objs[i].s->fd);
    }
    vh_count(r ? "close_ok" : "close_failed", 1);
    return r ? 1 : 0;
}
static void op_del(int i)
{
    begin_op("del %s (fd=%d)", objname(i), objs[i].s->fd);
    spif_socket_t s = objs[i].s;
    objs[i].s = NULL;
    spif_socket_del(s);
    check_ledger();
    vh_count("del", 1);
}
static void op_done(int i)
{
    begin_op("done %s (fd=%d)", objname(i), objs[i].s->fd);
    spif_socket_done(objs[i].s);
    check_ledger();
    VH_CHECK(objs[i].s->fd < 0, "done:fd", "after done of %s the object still has fd=%d", objname(i), objs[i].s->fd);
    vh_count("done", 1);
}
static void op_nbio(int i, int set)
{
    begin_op("%s_nbio %s (fd=%d)", set ? "set" : "clear", objname(i), objs[i].s->fd);
    if (set) spif_socket_set_nbio(objs[i].s); else spif_socket_clear_nbio(objs[i].s);
    check_ledger();
}
static void op_check_io(int i)
{
    begin_op("check_io %s (fd=%d)", objname(i), objs[i].s->fd);
    spif_socket_check_io(objs[i].s);
    check_ledger();
}

static unsigned char *gen_payload(size_t n)
{
    unsigned char *p = malloc(n + 1);
    unsigned mode = (unsigned) vh_below(3);
    for (size_t k = 0; k < n; k++) p[k] = mode == 0 ? (unsigned char) vh_range(1, 255) : mode == 1 ? (unsigned char) (1 + (k * 7 + n) % 255) : (unsigned char) ('a' + k % 26);
    p[n] = 0;
    return p;
}

/* send with the local oracle: TRUE => exactly the payload crossed the write boundary, in order;
 * FALSE => what crossed is a prefix of the payload */
static int op_send(int i, const unsigned char *p, size_t n, int must_succeed)
{
    begin_op("send %zu bytes on %s (fd=%d)", n, objname(i), objs[i].s->fd);
    spif_str_t d = spif_str_new_from_buff((spif_charptr_t) p, (spif_stridx_t) n + 1);
    guard_write_block = 0;
    spif_bool_t r = spif_socket_send(objs[i].s, d);
    spif_str_del(d);
    TRACE("-> %s, %zu bytes crossed", r ? "TRUE" : "FALSE", wcapn);
    vh_evals(1);
    if (guard_write_block)
        vh_fail("send:would-block", "send of %zu bytes on %s kept writing until the socket buffer was full (%zu bytes written by this call)", n, objname(i), wcapn);
    if (!io_calls_in_op) vh_count("send_without_write_calls", 1);      /* I/O not done through write(): nothing to compare locally */
    else if (r) {
        if (wcapn != n || memcmp(wcap, p, n)) {
            size_t k = 0; while (k < n && k < wcapn && wcap[k] == p[k]) k++;
            vh_fail("send:bytes", "send of %zu bytes on %s returned TRUE but %zu bytes were written (first difference at offset %zu)", n, objname(i), wcapn, k);
        }
    } else {
        VH_CHECK(!must_succeed, "send:refused", "send of %zu bytes on connected %s returned FALSE (%zu bytes written)", n, objname(i), wcapn);
        if (wcapn > n || memcmp(wcap, p, wcapn))
            vh_fail("send:bytes", "failed send of %zu bytes on %s wrote %zu bytes that are not a prefix of the payload", n, objname(i), wcapn);
    }
    check_ledger();
    vh_count(r ? "send_ok" : "send_failed", 1);
    return r ? 1 : 0;
}

/* recv with the local oracle: the string returned is exactly what the read calls delivered */
static spif_str_t op_recv(int i)
{
    begin_op("recv on %s (fd=%d)", objname(i), objs[i].s->fd);
    guard_read_block = 0;
    spif_str_t r = spif_socket_recv(objs[i].s);
    TRACE("-> %s, %zu bytes crossed", r ? "string" : "NULL", rcapn);
    vh_evals(1);
    if (r && !io_calls_in_op) vh_count("recv_without_read_calls", 1);  /* I/O not done through read(): nothing to compare locally */
    else if (!r) {
        VH_CHECK(rcapn == 0, "recv:lost", "recv on %s returned NULL although %zu bytes were read from the descriptor", objname(i), rcapn);
    } else {
        const unsigned char *t = (const unsigned char *) SPIF_STR_STR(r);
        size_t len = (size_t) spif_str_get_len(r);
        if (rcapn == 0 && !t) { /* nothing read: an empty object without buffer is acceptable */ }
        else {
            VH_CHECK(t != NULL, "recv:text", "recv on %s read %zu bytes but the string has no buffer", objname(i), rcapn);
            if (len != rcapn || memcmp(t, rcap, rcapn)) {
                size_t k = 0; while (k < len && k < rcapn && t[k] == rcap[k]) k++;
                vh_fail("recv:text", "recv on %s: %zu bytes were read from the descriptor but the string holds %zu (first difference at offset %zu)", objname(i), rcapn, len, k);
            }
            VH_CHECK(t[len] == 0, "recv:terminator", "recv on %s: string of length %zu is not NUL-terminated", objname(i), len);
            VH_CHECK((size_t) spif_str_get_size(r) > len, "recv:size", "recv on %s: size %ld does not cover %zu bytes + NUL", objname(i), (long) spif_str_get_size(r), len);
            size_t a = vh_alloc_size(t);
            if (a) VH_CHECK(a >= (size_t) spif_str_get_size(r), "recv:size", "recv on %s: size %ld claims more than the %zu bytes allocated", objname(i), (long) spif_str_get_size(r), a);
        }
    }
    check_ledger();
    vh_count(r && rcapn ? "recv_with_data" : "recv_empty", 1);
    return r;
}

/* delete every object, then: ledger empty and the /proc/self/fd census back to the pre-scenario one */
static int census0[CENSUS_MAX], ncensus0;
static void finish_scenario(void)
{
    int order[MAXOBJ], n = 0;
    for (int i = 0; i < MAXOBJ; i++) if (objs[i].s) order[n++] = i;
    for (int i = n - 1; i > 0; i--) { int j = (int) vh_below((uint64_t) i + 1), t = order[i]; order[i] = order[j]; order[j] = t; }
    for (int i = 0; i < n; i++) op_del(order[i]);
    begin_op("end of scenario");
    check_ledger();
    int c1[CENSUS_MAX], n1 = census(c1);
    vh_evals(1);
    if (n1 != ncensus0 || memcmp(c1, census0, sizeof(int) * (size_t) n1))
        vh_fail("fd:census", "open descriptors before the scenario {%s}, after deleting every socket object {%s}", census_str(census0, ncensus0), census_str(c1, n1));
    vh_count("scenarios_with_clean_census", 1);
}

static void reset_case(void)
{
    /* descriptors and files abandoned by a failed case */
    for (int fd = 0; fd < MAXFD; fd++) if (led[fd].open) { __real_close(fd); }
    memset(led, 0, sizeof led);
    for (int i = 0; i < nbound; i++) unlink(bound_paths[i]);
    nbound = 0; nptab = 0;
    memset(objs, 0, sizeof objs);
    memset(&inj, 0, sizeof inj);
    n_opened = n_closed = 0; next_id = 0; n_ops = 0; cur_op = 0;
    wn = wpos = wapplied = rn = rpos = rapplied = 0; rand_fault_pct = 0;
    bytes_written_case = 0;
    guard_read_block = guard_write_block = guard_accept_block = guard_connect_full = guard_read_total = 0;
    fault_rng.s = vh_next();
    ncensus0 = census(census0);
}
static void end_case(void)
{
    for (int i = 0; i < nbound; i++) unlink(bound_paths[i]);
    nbound = 0;
}

/* ------------------------------------------------------------------ transfer cases */
static const int LENS[] = { 1, 2, 4095, 4096, 4097, 8192, 12288, 16385, 20000 };
#define NLENS 9

static int decode_sched(int idx, int base, int *out)
{
    /* 0 -> empty; then all sequences of length 1, 2, 3 in order */
    int k = 0, cnt = 1, first = 1;
    if (idx == 0) return 0;
    for (k = 1; k <= 3; k++) { cnt *= base; if (idx < first + cnt) break; first += cnt; }
    int v = idx - first;
    for (int i = k - 1; i >= 0; i--) { out[i] = v % base; v /= base; }
    return k;
}
static const char *sched_str(const int *s, int n)
{
    static char b[4][MAXSCHED + 2]; static int k;
    char *o = b[k++ & 3];
    for (int i = 0; i < n; i++) o[i] = FCH[s[i]];
    o[n] = 0;
    if (!n) strcpy(o, "-");
    return o;
}

static void transfer_case(int grid)
{
    int ws[MAXSCHED], rs[MAXSCHED], nw, nr;
    if (grid) {
        nw = decode_sched((int) (vh_case_idx % 85), 4, ws);
        nr = decode_sched((int) (vh_case_idx / 85), 3, rs);
    } else {
        nw = (int) vh_range(0, 6); nr = (int) vh_range(0, 6);
        for (int i = 0; i < nw; i++) ws[i] = (int) vh_below(4);
        for (int i = 0; i < nr; i++) rs[i] = (int) vh_below(3);
    }
    /* segments of the write schedule: one send call per segment (a complete write ends a send) */
    int segmin[MAXSCHED + 1], nseg = 0, cur = 0, open_seg = 0;
    for (int i = 0; i < nw; i++) {
        open_seg = 1;
        if (ws[i] == F_SHORT) cur++;
        if (ws[i] == F_COMPLETE) { segmin[nseg++] = cur + 1; cur = 0; open_seg = 0; }
    }
    if (open_seg || nseg == 0) segmin[nseg++] = cur + 1;
    size_t need_w = 0;
    for (int i = 0; i < nseg; i++) need_w += (size_t) segmin[i];
    size_t need_r = 0;
    for (int i = 0; i < nr; i++) need_r += rs[i] == F_COMPLETE ? 4096 : rs[i] == F_SHORT ? 2 : 0;
    if (nr && rs[nr - 1] == F_COMPLETE) need_r -= 4095;
    size_t need = need_w > need_r ? need_w : need_r;
    size_t total;
    if (grid || vh_coin(50)) {
        int li = (int) vh_below(NLENS);
        while (li < NLENS - 1 && (size_t) LENS[li] < need) li++;
        total = (size_t) LENS[li] >= need ? (size_t) LENS[li] : need + vh_below(5000);
    } else {
        total = need + (vh_coin(50) ? vh_below(64) : vh_below(24000));
        if (total < 1) total = 1;
    }
    int with_proto = vh_coin(50);
    int reverse = !grid && vh_coin(15);                 /* accepted peer sends, client receives */
    int mode = (int) vh_below(4);                       /* 0,1: EOF ends the recv (sender closed / deleted); 2: receiver set_nbio; 3: listener NBIO inherited */
    if (reverse && mode == 3) mode = 2;
    int bound_client = vh_coin(20);
    char path[100], cpath[100];
    make_path(path, sizeof path, "L");
    make_path(cpath, sizeof cpath, "C");

    int L = op_new('L', path, NULL, with_proto);
    VH_CHECK(op_open(L), "setup:listener-open", "open of a listener on the unused path %s failed", path);
    VH_CHECK(objs[L].s->fd >= 0, "setup:listener-open", "listener opened but fd=%d", objs[L].s->fd);
    if (mode == 3) op_nbio(L, 1);
    int C = op_new('C', bound_client ? cpath : NULL, path, with_proto);
    VH_CHECK(op_open(C), "setup:client-open", "open of a client towards the listening path %s failed", path);
    int A = op_accept(L);
    VH_CHECK(A >= 0, "setup:accept", "accept on a listener with one pending connection failed");
    VH_CHECK(objs[A].s->fd >= 0 && objs[A].s->fd != objs[L].s->fd, "setup:accept", "accepted object has fd=%d (listener %d)", objs[A].s->fd, objs[L].s->fd);
    if (bound_client) vh_count("accept_from_bound_client", 1);
    int S = reverse ? A : C, R = reverse ? C : A;
    if (mode == 2) op_nbio(R, 1);
    /* a copy of a socket object is the same connection through a descriptor of its own: closing or deleting the original must not disturb it */
    if (!grid && vh_coin(20)) {
        int sender_side = vh_coin(60), orig = sender_side ? S : R;
        int D = op_dup(orig);
        if (D >= 0 && objs[D].s->fd >= 0) {
            if (vh_coin(50)) op_close(orig); else op_del(orig);
            if (sender_side) S = D; else R = D;
            vh_count("transfers_over_a_copy_after_the_original_was_closed", 1);
        }
    }

    /* split the total over the sends */
    size_t seglen[MAXSCHED + 1], left = total - need_w;
    for (int i = 0; i < nseg; i++) {
        size_t extra = i == nseg - 1 ? left : (vh_coin(30) ? left : vh_below(left + 1));
        seglen[i] = (size_t) segmin[i] + extra;
        left -= extra;
    }
    unsigned char *payload = gen_payload(total);
    memcpy(wsched, ws, sizeof(int) * (size_t) nw); wn = nw; wpos = wapplied = 0;
    size_t off = 0;
    for (int i = 0; i < nseg; i++) {
        unsigned char save = payload[off + seglen[i]];
        payload[off + seglen[i]] = 0;
        op_send(S, payload + off, seglen[i], 1);
        payload[off + seglen[i]] = save;
        off += seglen[i];
    }
    int w_consumed = wapplied == nw;
    wn = wpos = 0;
    if (mode == 0) op_close(S);
    else if (mode == 1) op_del(S);
    memcpy(rsched, rs, sizeof(int) * (size_t) nr); rn = nr; rpos = rapplied = 0;
    spif_str_t got = op_recv(R);
    int r_consumed = rapplied == nr;
    rn = rpos = 0;
    vh_evals(1);
    VH_CHECK(!guard_read_block || mode >= 2, "recv:would-block", "recv after the sender %s would have waited forever: end of stream never arrived",
             mode == 0 ? "was closed" : "was deleted");
    VH_CHECK(got != NULL, "transfer:text", "recv returned NULL, %zu bytes were sent", total);
    {
        const unsigned char *t = (const unsigned char *) SPIF_STR_STR(got);
        size_t len = (size_t) spif_str_get_len(got);
        if (!t || len != total || memcmp(t, payload, total)) {
            size_t k = 0; while (t && k < len && k < total && t[k] == payload[k]) k++;
            vh_fail("transfer:text", "sent %zu bytes in %d send(s) [writes %s], received %zu bytes [reads %s]; first difference at offset %zu", total, nseg,
                    sched_str(ws, nw), len, sched_str(rs, nr), k);
        }
    }
    spif_str_del(got);
    /* a second round on the still-open non-blocking connection */
    if (mode >= 2 && vh_coin(40)) {
        size_t n2 = vh_coin(50) ? (size_t) vh_range(1, 40) : (size_t) vh_range(4090, 9000);
        unsigned char *p2 = gen_payload(n2);
        op_send(S, p2, n2, 1);
        spif_str_t g2 = op_recv(R);
        vh_evals(1);
        VH_CHECK(g2 && SPIF_STR_STR(g2) && (size_t) spif_str_get_len(g2) == n2 && !memcmp(SPIF_STR_STR(g2), p2, n2), "transfer:text",
                 "second round: sent %zu bytes, received %ld", n2, g2 ? (long) spif_str_get_len(g2) : -1L);
        spif_str_del(g2);
        free(p2);
        /* nothing pending now */
        spif_str_t g3 = op_recv(R);
        VH_CHECK(!g3 || spif_str_get_len(g3) == 0, "transfer:text", "recv with nothing pending returned %ld bytes", g3 ? (long) spif_str_get_len(g3) : -1L);
        if (g3) spif_str_del(g3);
        vh_count("second_rounds", 1);
    }
    free(payload);
    finish_scenario();

    vh_count(grid ? "grid_transfers" : "sampled_transfers", 1);
    if (w_consumed && r_consumed) {
        vh_count("transfers_with_schedule_fully_consumed", 1);
        if (grid) vh_count("grid_schedules_fully_consumed", 1);
        int lc = total <= 2 ? 0 : total < 4096 ? 1 : total == 4096 ? 2 : total <= 8192 ? 3 : total <= 16384 ? 4 : 5;
        uint64_t h = vh_hash_bytes(ws, sizeof(int) * (size_t) nw, 11);
        h = vh_hash_bytes(rs, sizeof(int) * (size_t) nr, h);
        vh_cov(vh_mix(h, (uint64_t) lc * 16 + (uint64_t) mode * 2 + (uint64_t) reverse));
    } else vh_count("transfers_schedule_not_consumed", 1);
    if (reverse) vh_count("reverse_direction_transfers", 1);
    if (total > 16384) vh_count("payload_beyond_four_chunks", 1);
    if (vh_coin(1)) vh_sample("transfer %zu bytes in %d send(s), writes [%s] reads [%s], %s, %s url: received intact", total, nseg, sched_str(ws, nw), sched_str(rs, nr),
                              mode == 0 ? "sender closed" : mode == 1 ? "sender deleted" : mode == 2 ? "receiver non-blocking" : "listener non-blocking (inherited)",
                              with_proto ? "unix:" : "bare-path");
}

/* ------------------------------------------------------------------ lifecycle histories */
static int pick_any(void)
{
    int n = nlive();
    if (!n) return -1;
    int k = (int) vh_below((uint64_t) n);
    for (int i = 0; i < MAXOBJ; i++) if (objs[i].s && k-- == 0) return i;
    return -1;
}
/* objects that hold a descriptor are the interesting ones; the others are picked a quarter of the time */
static int pick_live(void)
{
    int c[MAXOBJ], n = 0;
    for (int i = 0; i < MAXOBJ; i++) if (objs[i].s && objs[i].s->fd >= 0) c[n++] = i;
    if (n && vh_coin(75)) return c[vh_below((uint64_t) n)];
    return pick_any();
}
static int pick_dead(void)
{
    int c[MAXOBJ], n = 0;
    for (int i = 0; i < MAXOBJ; i++) if (objs[i].s && objs[i].s->fd < 0) c[n++] = i;
    if (n && vh_coin(60)) return c[vh_below((uint64_t) n)];
    return pick_any();
}
static int pick_kind(const char *kinds)
{
    int c[MAXOBJ], n = 0;
    for (int i = 0; i < MAXOBJ; i++) if (objs[i].s && strchr(kinds, objs[i].kind)) c[n++] = i;
    return n ? c[vh_below((uint64_t) n)] : -1;
}
/* prefer objects in a given state (flag set and descriptor present); fall back to kind, then to any */
static int pick_flag(unsigned long flag, const char *kinds)
{
    int c[MAXOBJ], n = 0;
    for (int i = 0; i < MAXOBJ; i++)
        if (objs[i].s && objs[i].s->fd >= 0 && (flag ? SPIF_SOCKET_FLAGS_IS_SET(objs[i].s, flag) != 0 : objs[i].kind == 'A')) c[n++] = i;
    if (n && vh_coin(80)) return c[vh_below((uint64_t) n)];
    int i = vh_coin(70) ? pick_kind(kinds) : -1;
    return i >= 0 ? i : pick_live();
}
static int state_class(int i)
{
    spif_socket_t s = objs[i].s;
    return (s->fd >= 0) | (SPIF_SOCKET_FLAGS_IS_SET(s, SPIF_SOCKET_FLAGS_LISTEN) ? 2 : 0) | (SPIF_SOCKET_FLAGS_IS_SET(s, SPIF_SOCKET_FLAGS_CONNECTED) ? 4 : 0) |
           (SPIF_SOCKET_FLAGS_IS_SET(s, SPIF_SOCKET_FLAGS_NBIO) ? 8 : 0) | (SPIF_SOCKET_FLAGS_IS_SET(s, SPIF_SOCKET_FLAGS_OPEN) ? 16 : 0);
}
static const int WRITE_ERRS[] = { EIO, EPIPE, ECONNRESET, ENOSPC, EFBIG, EFBIG };
static const int ACCEPT_ERRS[] = { EMFILE, ECONNABORTED, EINTR, ENFILE, EAGAIN };

static void lifecycle_case(void)
{
    char paths[3][100], missing[100];
    make_path(paths[0], 100, "a"); make_path(paths[1], 100, "b"); make_path(paths[2], 100, "c");
    snprintf(missing, sizeof missing, "%s/nodir%ld/x", base_dir, vh_case_idx);
    int nops = (int) vh_range(8, 60);
    static const int PCT[] = { 0, 0, 15, 40 };
    rand_fault_pct = PCT[vh_below(4)];
    int inject_pct = vh_coin(50) ? 0 : (int) vh_range(5, 25);
    int client_seq = 0;
    int nbound_listeners = 0;
    for (int step = 0; step < nops; step++) {
        /* operation weights follow the state: accept when a connection is pending, send/recv when something is connected */
        int pending = 0, connected = 0, withfd = 0;
        for (int q = 0; q < nptab; q++) pending += ptab[q].pending;
        for (int q = 0; q < MAXOBJ; q++) if (objs[q].s && objs[q].s->fd >= 0) {
            withfd++;
            if (SPIF_SOCKET_FLAGS_IS_SET(objs[q].s, SPIF_SOCKET_FLAGS_CONNECTED) || objs[q].kind == 'A') connected++;
        }
        int W[11] = { withfd < 2 ? 34 : 14, 6, pending ? 22 : 4, connected ? 18 : 4, connected ? 14 : 3, 6, 6, 6, 3, 2, 1 };
        static const int EDGE[11] = { 14, 24, 40, 58, 72, 80, 87, 93, 96, 98, 100 };   /* upper edges of the branches below */
        int tot = 0, r = 0;
        for (int q = 0; q < 11; q++) tot += W[q];
        {
            int x = (int) vh_below((uint64_t) tot), q = 0;
            while (x >= W[q]) { x -= W[q]; q++; }
            r = (q ? EDGE[q - 1] : 0);
        }
        int i = -1, opc = 0, argc_ = 0, st = 0, outcome = 0;
        memset(&inj, 0, sizeof inj);
        int injecting = inject_pct && vh_coin(inject_pct);
        if (nlive() == 0 || (r < 14 && free_slot() >= 0)) {
            /* create: listener (good path / missing directory) or client (good path / nobody listening), sometimes bound */
            int k = (int) vh_below(10);
            int wp = vh_coin(50);
            int have_listener = 0;
            for (int q = 0; q < MAXOBJ; q++) if (objs[q].s && objs[q].s->fd >= 0 && SPIF_SOCKET_FLAGS_IS_SET(objs[q].s, SPIF_SOCKET_FLAGS_LISTEN)) have_listener = 1;
            if (!have_listener && vh_coin(75)) k = 0;
            opc = 1; argc_ = k;
            if (k < 3) i = op_new('L', paths[(k == 0 && nbound_listeners < 2) ? nbound_listeners : (int) vh_below(2)], NULL, wp);
            else if (k == 3) i = op_new('L', paths[vh_below(2)], NULL, wp);
            else if (k == 4) i = op_new('L', missing, NULL, wp);
            else if (k < 9) {
                char cp[100]; snprintf(cp, sizeof cp, "%s/k%ldc%d", base_dir, vh_case_idx, client_seq++);
                int pi = (int) vh_below(k == 8 ? 3 : 2);
                int li = pick_flag(SPIF_SOCKET_FLAGS_LISTEN, "L");
                if (k < 8 && li >= 0 && objs[li].kind == 'L' && SPIF_SOCKET_FLAGS_IS_SET(objs[li].s, SPIF_SOCKET_FLAGS_LISTEN) && objs[li].s->local_url
                    && spif_url_get_path(objs[li].s->local_url) && !strcmp((char *) SPIF_STR_STR(spif_url_get_path(objs[li].s->local_url)), paths[1 - pi]))
                    pi = 1 - pi;
                i = op_new('C', vh_coin(15) ? cp : NULL, paths[pi], wp);
            } else i = op_new('C', NULL, missing, wp);
            if (i >= 0 && vh_coin(k == 0 ? 92 : 75)) {
                st = state_class(i);
                if (injecting) {
                    int w = (int) vh_below(4);
                    if (w == 0) inj.socket_errno = EMFILE; else if (w == 1) inj.bind_errno = EACCES; else if (w == 2) inj.listen_errno = EADDRINUSE; else inj.connect_errno = ECONNREFUSED;
                }
                outcome = op_open(i);
                if (outcome && objs[i].kind == 'L' && nbound_listeners < 2 && k == 0) nbound_listeners++;
                if (inj.consumed) vh_count("open_with_injected_failure", 1);
            }
        } else if (r < 24) { i = pick_live(); opc = 2; st = state_class(i);
            if (injecting) { int w = (int) vh_below(4); if (w == 0) inj.socket_errno = ENFILE; else if (w == 1) inj.bind_errno = EADDRINUSE; else if (w == 2) inj.listen_errno = EOPNOTSUPP; else inj.connect_errno = ETIMEDOUT; }
            outcome = op_open(i);
            if (inj.consumed) vh_count("open_with_injected_failure", 1);
        } else if (r < 40) { i = pick_flag(SPIF_SOCKET_FLAGS_LISTEN, "LD"); opc = 3; st = state_class(i);
            if (free_slot() < 0) continue;
            if (injecting && vh_coin(25)) { inj.dup_errno = EMFILE; argc_ = 1000 + EMFILE; vh_count("accept_with_dup_failing_inside", 1); }      /* the descriptor table fills up between accept() and the copy of the listener */
            else if (injecting) { inj.accept_errno = ACCEPT_ERRS[vh_below(5)]; inj.accept_times = inj.accept_errno == EAGAIN ? (int) vh_range(1, 3) : 1; argc_ = inj.accept_errno; }
            outcome = op_accept(i) >= 0;
            if (outcome) vh_count("lifecycle_accept_ok", 1);
            if (inj.consumed) vh_count("accept_with_injected_failure", 1);
        } else if (r < 58) { i = vh_coin(75) ? pick_flag(SPIF_SOCKET_FLAGS_CONNECTED, "CAD") : pick_flag(0, "CAD"); opc = 4; st = state_class(i);
            size_t room = bytes_written_case < 90000 ? 90000 - (size_t) bytes_written_case : 0;
            size_t n = vh_coin(60) ? (size_t) vh_range(1, 200) : vh_coin(70) ? (size_t) vh_range(1000, 5000) : (size_t) vh_range(5000, 20000);
            if (n > room) n = room;
            if (n == 0) continue;
            if (injecting) { inj.write_errno = WRITE_ERRS[vh_below(6)]; inj.write_skip = vh_coin(60) ? 0 : (int) vh_range(1, 2); argc_ = inj.write_errno; }
            unsigned char *p = gen_payload(n);
            outcome = op_send(i, p, n, 0);
            if (outcome) vh_count("lifecycle_send_ok", 1);
            free(p);
            if (inj.consumed) vh_count(argc_ == EFBIG ? "send_with_injected_EFBIG" : "send_with_injected_error", 1);
        } else if (r < 72) { i = vh_coin(40) ? pick_flag(SPIF_SOCKET_FLAGS_CONNECTED, "CAD") : pick_flag(0, "CAD"); opc = 5; st = state_class(i);
            spif_str_t g = op_recv(i);
            outcome = g && spif_str_get_len(g) > 0;
            if (outcome) vh_count("lifecycle_recv_with_data", 1);
            if (g) spif_str_del(g);
        } else if (r < 80) { i = pick_live(); opc = 6; st = state_class(i);
            if (injecting) { if (vh_coin(50)) inj.close_eio = 1; else { inj.close_eintr = (int) vh_range(1, 3); vh_count("close_interrupted_before_it_happened", 1); } }
            outcome = op_close(i);
            if (inj.consumed) vh_count("close_with_injected_EIO", 1);
        } else if (r < 87) { i = pick_live(); opc = 7; st = state_class(i);
            if (free_slot() < 0) continue;
            if (injecting) inj.dup_errno = EMFILE;
            outcome = op_dup(i) >= 0;
            if (inj.consumed) vh_count("dup_with_injected_failure", 1);
        } else if (r < 93) { i = pick_dead(); opc = 8; st = state_class(i); op_del(i);
        } else if (r < 96) { i = pick_live(); opc = 9; st = state_class(i); argc_ = vh_coin(70); op_nbio(i, argc_);
        } else if (r < 98) { i = pick_live(); opc = 10; st = state_class(i); op_check_io(i);
        } else { i = pick_live(); opc = 11; st = state_class(i); op_done(i); }
        memset(&inj, 0, sizeof inj);
        vh_cov(vh_mix(vh_mix((uint64_t) opc * 64 + (uint64_t) st, (uint64_t) argc_), (uint64_t) outcome + 2 * (uint64_t) (i >= 0 && objs[i].s ? objs[i].kind : 0)));
    }
    vh_count("guard_read_would_block", guard_read_total);
    vh_count("guard_accept_would_wait", guard_accept_block);
    vh_count("guard_connect_backlog", guard_connect_full);
    rand_fault_pct = 0;
    finish_scenario();
    vh_count("lifecycle_cases", 1);
    if (vh_coin(1)) vh_sample("lifecycle history of %ld operations on %d socket objects: descriptors opened %ld = closed %ld, census restored", n_ops, next_id, n_opened, n_closed);
}

int main(int argc, char **argv)
{
    vh_init(argc, argv, "C19");
    signal(SIGPIPE, SIG_IGN);
    if (chdir(vh_outdir) != 0) { perror("chdir"); return 3; }
    snprintf(base_dir, sizeof base_dir, "/proc/self/cwd/c19.%d", vh_shard);
    mkdir(base_dir, 0700);
    wcap = malloc(CAPMAX); rcap = malloc(CAPMAX);
    while (vh_next_case()) {
        /* in some lifecycle histories descriptor 0 is free (a daemon that closed stdin): socket objects may then own descriptor 0 */
        if (fcntl(0, F_GETFD) < 0) { int fd = open("/dev/null", O_RDONLY); if (fd > 0) { dup2(fd, 0); __real_close(fd); } }
        if (vh_case_idx >= 3400 && vh_case_idx % 2 == 1 && (vh_case_idx / 2) % 4 == 0) { __real_close(0); vh_count("histories_with_descriptor_0_free", 1); }
        if (VH_CASE_TRY()) {
            reset_case();
            if (vh_case_idx < 3400) transfer_case(1);
            else if (vh_case_idx % 2 == 0) transfer_case(0);
            else lifecycle_case();
        }
        end_case();
        vh_case_done();
    }
    vh_count("short_reads_injected", n_short_reads);
    vh_count("short_writes_injected", n_short_writes);
    vh_count("eintr_reads_injected", n_eintr_reads);
    vh_count("eintr_writes_injected", n_eintr_writes);
    vh_count("eagain_writes_injected", n_eagain_writes);
    vh_count("sender_backoffs", n_backoffs);
    return vh_finish();
}
