#!/bin/bash
# tools/sweep.sh "<seeds>" PROP...   -- quick tier of each property at each seed; prints one line per run
SEEDS=$1; shift
for p in "$@"; do for s in $SEEDS; do VERIF_SEED=$s /verif/bin/check $p 2>&1 | grep "^C[0-9][0-9] \|^VIOLATION\|^INCONCLUSIVE\|^KNOWN" | tr '\n' ' '; echo; done; done
