/* C10: config value expansion is a pure function of (line, environment, variable store).
 * DESIGN.md §4 C10, Appendix A.6.
 *
 * One case = one hermetic environment + one set of registered custom built-ins + a history of 1..6
 * value strings expanded against one variable store.  The whole history is executed three times
 * from a fresh subsystem:
 *   pass 0  input in a CONFIG_BUFF-sized heap block, bytes after the NUL = other text full of closers
 *   pass 1  same, bytes after the NUL = 0xA5
 *   pass 2  input in an exact-size heap block (strlen+1) whenever the expansion cannot grow
 * Oracles: reference expander (strong sub-language), NUL-termination / length, pass 0 == pass 1 == pass 2,
 * variable-store invariant through the hook, spawn monitor, sanitizers; the per-case digest is
 * compared by checks/c10.py across builds (auto-var-init pattern/zero) and heap fill bytes.
 */
#include "c0x_conf.h"

static int scribble_byte = 0x5a;

/* ---------------------------------------------------------------- per-case arena for env values etc. */
static char *arena[256]; static int narena;
static char *keep(char *p) { if (narena < 256) arena[narena++] = p; return p; }
static void arena_free(void) { for (int i = 0; i < narena; i++) free(arena[i]); narena = 0; }

/* ---------------------------------------------------------------- generator */
static const char *SETNAMES[] = { "A", "FOO", "X_1", "path9", "v" };
static const char *UNSETNAMES[] = { "NOPE", "U", "Q_q", "zz9" };
static char longname_set[130], longname_unset[130];
static const char *KEYS[] = { "k1", "k2", "kk", "zeta", "K1", "Zeta", "k", "zet" };      /* two pairs differ only in letter case, two names are proper prefixes of others: all distinct variables */
#define NKEYS 8
static int n_custom;                 /* registered customs in this case */
static int has_dir_one, has_dir_many, has_dir_empty;

#define LINE_MAX_TOK 14
typedef struct { cx_buf text; int weak_allowed; int exact_hint; } gline;

static void tokcov(int kind, int pos, int q) { vh_cov(vh_mix(0xC10, (uint64_t) kind * 64 + (uint64_t) pos * 8 + (uint64_t) q)); }

static const char *pick_name(int *is_set)
{
    int r = (int) vh_below(100);
    if (r < 50) { *is_set = 1; return SETNAMES[vh_below(5)]; }
    if (r < 85) { *is_set = 0; return UNSETNAMES[vh_below(4)]; }
    if (r < 90) { *is_set = 0; return "EMPTY"; }
    if (r < 95) { *is_set = 1; return longname_set; }
    *is_set = 0; return longname_unset;
}
static void gen_var(cx_buf *b, int only_unset)
{
    int s; const char *n = pick_name(&s);
    if (only_unset) n = vh_coin(80) ? UNSETNAMES[vh_below(4)] : longname_unset;
    int form = (int) vh_below(3);
    if (form == 0) { cx_buf_addc(b, '$'); cx_buf_adds(b, n); }
    else if (form == 1) { cx_buf_adds(b, "${"); cx_buf_adds(b, n); cx_buf_addc(b, '}'); }
    else { cx_buf_adds(b, "$("); cx_buf_adds(b, n); cx_buf_addc(b, ')'); }
}
static void gen_esc(cx_buf *b)
{
    static const char E[] = "nrtbfaveNRTBFAVE\\'\"$%~xz0 ()XZQWmC";      /* incl. letters without a meaning of their own, both cases: they stand for themselves */
    cx_buf_addc(b, '\\'); cx_buf_addc(b, E[vh_below(sizeof E - 1)]);
}
static void gen_word(cx_buf *b)
{
    static const char W[] = "abcdefghijklmnopqrstuvwxyz0123456789_./-";
    int n = (int) vh_range(1, 7);
    for (int i = 0; i < n; i++) cx_buf_addc(b, W[vh_below(sizeof W - 1)]);
}
static void gen_call(cx_buf *b, int depth, int weak_allowed);
static void gen_args(cx_buf *b, int depth, int weak_allowed)
{
    int n = (int) vh_below(4);
    for (int i = 0; i < n; i++) {
        int r = (int) vh_below(100);
        if (i) cx_buf_addc(b, ' ');
        if (r < 45) gen_word(b);
        else if (r < 60) gen_var(b, 0);
        else if (r < 80 && depth < 3) gen_call(b, depth + 1, weak_allowed);
        else if (r < 88) { cx_buf_addc(b, '\\'); cx_buf_addc(b, "ntx$%"[vh_below(5)]); }
        else if (r < 94) { cx_buf_addc(b, '\''); gen_word(b); cx_buf_addc(b, ' '); gen_word(b); cx_buf_addc(b, '\''); }
        else gen_word(b);
    }
}
static void gen_call(cx_buf *b, int depth, int weak_allowed)
{
    int r = (int) vh_below(100);
    if (r < 6) { cx_buf_adds(b, "%get("); cx_buf_adds(b, KEYS[vh_below(NKEYS)]); cx_buf_addc(b, ' '); gen_word(b); cx_buf_addc(b, ')'); vh_count("get_with_default", 1); }
    else if (r < 22) { cx_buf_adds(b, "%get("); cx_buf_adds(b, KEYS[vh_below(NKEYS)]); cx_buf_addc(b, ')'); }
    else if (r < 44) {
        cx_buf_adds(b, "%put("); cx_buf_adds(b, KEYS[vh_below(NKEYS)]); cx_buf_addc(b, ' ');
        int q = (int) vh_below(100);
        if (q < 8) { cx_buf_adds(b, "\"\""); vh_count("put_empty_quoted_value", 1); }
        else if (q < 16) { cx_buf_addc(b, '"'); gen_word(b); cx_buf_addc(b, ' '); gen_word(b); cx_buf_addc(b, '"'); vh_count("put_quoted_value", 1); }
        else if (q < 60) gen_word(b);
        else if (q < 75 && depth < 3) gen_call(b, depth + 1, weak_allowed);
        else if (q < 85) gen_var(b, 0);
        else { gen_word(b); }
        cx_buf_addc(b, ')');
    }
    else if (r < 50) cx_buf_adds(b, "%version()");
    else if (r < 56) cx_buf_adds(b, "%appname()");
    else if (r < 92 && n_custom > 0) {
        int c = (int) vh_below((uint64_t) (n_custom < 7 ? n_custom : 7));
        if (n_custom > 7 && vh_coin(15)) c = (int) vh_below((uint64_t) n_custom);
        cx_buf_addc(b, '%'); cx_buf_adds(b, cx_customs[c].name); cx_buf_addc(b, '(');
        gen_args(b, depth, weak_allowed);
        cx_buf_addc(b, ')');
    }
    else if (depth == 0 && r < 96) {
        /* wild built-ins, top level only, followed by the | sentinel */
        if (vh_coin(50)) { cx_buf_adds(b, "%random("); int n = (int) vh_range(1, 4); for (int i = 0; i < n; i++) { if (i) cx_buf_addc(b, ' '); gen_word(b); } cx_buf_adds(b, ")|"); }
        else {
            int k = (int) vh_below(4);
            cx_buf_adds(b, k == 0 ? "%dirscan(d1)|" : k == 1 ? "%dirscan(dmany)|" : k == 2 ? "%dirscan(dempty)|" : "%dirscan(nosuchdir)|");
            if (k == 0) has_dir_one = 1; else if (k == 1) has_dir_many = 1; else if (k == 2) has_dir_empty = 1;
        }
    }
    else { cx_buf_adds(b, "%get("); cx_buf_adds(b, KEYS[vh_below(NKEYS)]); cx_buf_addc(b, ')'); }
}
static void gen_sq(cx_buf *b)
{
    cx_buf_addc(b, '\'');
    int n = (int) vh_below(5);
    for (int i = 0; i < n; i++) {
        int r = (int) vh_below(100);
        if (r < 40) cx_gen_ord(b, (int) vh_range(1, 6), 1);
        else if (r < 55) cx_buf_addc(b, '~');
        else if (r < 70) gen_var(b, 0);
        else if (r < 80) { cx_buf_addc(b, '\\'); cx_buf_addc(b, "ntx\\$"[vh_below(5)]); }
        else if (r < 90) cx_buf_adds(b, "\\'");
        else cx_buf_addc(b, '"');
    }
    cx_buf_addc(b, '\'');
}
static void gen_dq(cx_buf *b, int weak_allowed)
{
    cx_buf_addc(b, '"');
    int n = (int) vh_below(5);
    for (int i = 0; i < n; i++) {
        int r = (int) vh_below(100);
        if (r < 40) cx_gen_ord(b, (int) vh_range(1, 6), 1);
        else if (r < 50) cx_buf_addc(b, '~');
        else if (r < 70) gen_var(b, 0);
        else if (r < 85) gen_esc(b);
        else gen_call(b, 1, weak_allowed);
    }
    cx_buf_addc(b, '"');
}
static void gen_weak_token(cx_buf *b)
{
    int r = (int) vh_below(22);
    switch (r) {
    /* proper prefixes of built-in names are not built-in calls: in particular they must never reach %exec */
    case 16: cx_buf_adds(b, "%e(true)"); vh_count("builtin_name_prefix_tokens", 1); break;
    case 17: cx_buf_adds(b, "%ex(true)"); vh_count("builtin_name_prefix_tokens", 1); break;
    case 18: cx_buf_adds(b, "%exe(echo hi)"); vh_count("builtin_name_prefix_tokens", 1); break;
    case 19: cx_buf_adds(b, "%g(k1)"); vh_count("builtin_name_prefix_tokens", 1); break;
    case 20: cx_buf_adds(b, "%pu(k1 zz)"); vh_count("builtin_name_prefix_tokens", 1); break;
    case 21: cx_buf_adds(b, "%EX(true)"); vh_count("builtin_name_prefix_tokens", 1); break;
    case 0: cx_buf_adds(b, "% "); break;
    case 1: cx_buf_adds(b, "%nosuch(x)"); break;
    case 2: cx_buf_adds(b, "%GET(k1)"); break;
    case 3: cx_buf_adds(b, "%get(k1"); break;
    case 4: cx_buf_adds(b, "$ "); break;
    case 5: cx_buf_adds(b, "${}"); break;
    case 6: cx_buf_adds(b, "`echo hi`"); break;
    case 7: cx_buf_adds(b, "%exec(echo hi)"); break;
    case 8: cx_buf_adds(b, "\"it's $A\""); break;
    case 9: cx_buf_adds(b, "'%get(k1)'"); break;
    case 10: cx_buf_adds(b, "%get(k1 dflt)"); break;
    case 11: cx_buf_adds(b, "%put(k2 \"a b\")"); break;
    case 12: { cx_buf_adds(b, "${"); for (int i = 0; i < (int) vh_range(127, 131); i++) cx_buf_addc(b, 'N'); cx_buf_addc(b, '}'); } break;
    case 13: { cx_buf_addc(b, '$'); for (int i = 0; i < (int) vh_range(127, 300); i++) cx_buf_addc(b, 'n'); } break;
    case 14: cx_buf_adds(b, "%version )"); break;
    default: cx_buf_adds(b, "%up(a \\) b)"); break;
    }
}
static void gen_weak_tail(cx_buf *b)
{
    switch ((int) vh_below(10)) {
    case 0: cx_buf_addc(b, '\\'); break;
    case 1: cx_buf_adds(b, "${"); cx_buf_adds(b, UNSETNAMES[vh_below(4)]); break;
    case 2: cx_buf_adds(b, "$("); cx_buf_adds(b, UNSETNAMES[vh_below(4)]); break;
    case 3: cx_buf_adds(b, "${"); break;
    case 4: cx_buf_adds(b, "$("); break;
    case 5: cx_buf_addc(b, '%'); break;
    case 6: cx_buf_addc(b, '$'); break;
    case 7: cx_buf_adds(b, "'\\"); break;           /* backslash at the end inside single quotes */
    case 8: cx_buf_adds(b, vh_coin(50) ? "`" : "`cmd"); break;   /* unterminated backquote (system() is wrapped) */
    default: cx_buf_adds(b, "%get("); break;
    }
}

static void gen_line(gline *g, int shape)
{
    cx_buf *b = &g->text;
    cx_buf_reset(b); cx_buf_adds(b, "");
    g->exact_hint = 0;
    /* shape: 0 general, 1 non-growing body (+ optional weak tail) for exact-size placement, 2 long */
    int ntok = shape == 2 ? (int) vh_range(2, 8) : (int) vh_range(1, LINE_MAX_TOK);
    if (vh_coin(5)) ntok = 0;
    long target = 0;
    if (shape == 2) { static const long T[] = { 300, 1000, 5000, 20300, 20470, 20478, 20479 }; target = T[vh_below(7)]; if (target > 20000 && vh_coin(50)) target = vh_range(20440, 20479); }
    for (int t = 0; t < ntok; t++) {
        int pos = t == 0 ? 0 : t == ntok - 1 ? 2 : 1;
        int r = (int) vh_below(100);
        if (shape == 1) {
            if (r < 35) { cx_gen_ord(b, (int) vh_range(1, 10), 1); tokcov(1, pos, 0); }
            else if (r < 55) { gen_esc(b); tokcov(2, pos, 0); }
            else if (r < 80) { gen_var(b, 1); tokcov(3, pos, 0); }
            else if (r < 90) { cx_buf_addc(b, '\''); cx_gen_ord(b, (int) vh_range(0, 5), 1); cx_buf_adds(b, "$A~\\n'"); tokcov(4, pos, 1); }
            else { cx_buf_addc(b, '"'); cx_gen_ord(b, (int) vh_range(0, 5), 1); gen_var(b, 1); cx_buf_addc(b, '"'); tokcov(5, pos, 2); }
            continue;
        }
        if (g->weak_allowed && r < 12) { gen_weak_token(b); tokcov(20, pos, 0); continue; }
        r = (int) vh_below(100);
        if (r < 25) { cx_gen_ord(b, (int) vh_range(1, 12), 1); tokcov(1, pos, 0); }
        else if (r < 35) { gen_esc(b); tokcov(2, pos, 0); }
        else if (r < 43) { cx_buf_addc(b, '~'); tokcov(6, pos, 0); }
        else if (r < 63) { gen_var(b, 0); tokcov(3, pos, 0); }
        else if (r < 71) { gen_sq(b); tokcov(4, pos, 1); }
        else if (r < 79) { gen_dq(b, g->weak_allowed); tokcov(5, pos, 2); }
        else { gen_call(b, 0, g->weak_allowed); tokcov(7, pos, 0); }
    }
    if (shape == 2 && (long) b->n < target) {
        /* pad in the middle and at the end with ordinary text so that constructs sit at both ends of a long line */
        long need = target - (long) b->n;
        cx_buf pad = { 0 };
        cx_gen_ord(&pad, (int) need, 1);
        cx_buf_add(b, pad.b, pad.n);
        cx_buf_free(&pad);
        if (vh_coin(60)) {           /* a construct at the very end of a long line */
            size_t cut = b->n > 40 ? b->n - 40 : 0;
            b->n = cut; b->b[cut] = 0;
            size_t before = b->n;
            int r = (int) vh_below(4);
            if (r == 0) gen_var(b, 0); else if (r == 1) gen_esc(b); else if (r == 2) cx_buf_addc(b, '~'); else gen_call(b, 0, 0);
            while ((long) b->n < target && b->n - before < 40) cx_buf_addc(b, 'p');
        }
    }
    if (shape == 1) g->exact_hint = 1;
    if (g->weak_allowed && vh_coin(shape == 1 ? 70 : 12)) {
        if (b->n >= CONFIG_BUFF - 16) { b->n = CONFIG_BUFF - 17; b->b[b->n] = 0; }
        gen_weak_tail(b); tokcov(21, 2, 0);
    }
    if (b->n >= CONFIG_BUFF) { b->n = CONFIG_BUFF - 1; b->b[b->n] = 0; }
}

/* shape 3: the output offset at which the last construct starts is chosen, within a few bytes of the line-buffer limit.
 * The line begins with references to a set variable whose value is longer than its spelling (so the result outgrows the
 * input, which itself must fit the buffer), continues with ordinary text up to the chosen offset and ends in one construct
 * of each kind that advances the output by one, two or many bytes.  Results at the limit are weak for the value oracle;
 * what is decided here is that nothing is written outside the result buffer and the passes agree. */
static char grow_value[260];
static void gen_boundary_line(gline *g)
{
    cx_buf *b = &g->text;
    cx_buf_reset(b); cx_buf_adds(b, "");
    g->exact_hint = 0;
    long out = 0, growlen = (long) strlen(grow_value);
    int nv = (int) vh_range(1, 3);
    for (int i = 0; i < nv; i++) { cx_buf_adds(b, vh_coin(50) ? "${GROW}" : "$(GROW)"); out += growlen; }
    long target = (long) CONFIG_BUFF - (long) vh_range(-1, 8);       /* 20472 .. 20481 */
    int kind = (int) vh_below(8);
    if (kind == 1) { cx_buf_addc(b, '\''); out++; }
    if (kind == 5) { cx_buf_addc(b, '"'); out++; }
    if (target > out) { cx_buf pad = { 0 }; cx_gen_ord(&pad, (int) (target - out), 1); cx_buf_add(b, pad.b, pad.n); cx_buf_free(&pad); }
    switch (kind) {
    case 0: gen_esc(b); break;                                                     /* escape outside quotes: one byte */
    case 1: cx_buf_addc(b, '\\'); cx_buf_addc(b, "nq'\\x"[vh_below(5)]); if (vh_coin(70)) cx_buf_addc(b, '\''); break;   /* pair kept inside single quotes: two bytes */
    case 2: cx_buf_adds(b, "${GROW}"); break;                                      /* many bytes, cut at the limit */
    case 3: cx_buf_addc(b, '~'); break;
    case 4: cx_buf_adds(b, "zz"); break;
    case 5: cx_buf_addc(b, '\\'); cx_buf_addc(b, "nq\"\\x"[vh_below(5)]); if (vh_coin(70)) cx_buf_addc(b, '"'); break;
    case 6: cx_buf_adds(b, "$(NOPE)"); break;                                      /* unset: nothing */
    default: cx_buf_adds(b, "%nosuch"); break;
    }
    int tail = (int) vh_below(4);
    for (int i = 0; i < tail; i++) cx_buf_addc(b, 't');
    if (b->n >= CONFIG_BUFF) { b->n = CONFIG_BUFF - 1; b->b[b->n] = 0; }
    vh_count("boundary_lines", 1);
    vh_cov(vh_mix(0xB0DA, (uint64_t) kind * 16 + (uint64_t) (CONFIG_BUFF + 1 - target)));
}

static char *gen_value(void)
{
    static const char V[] = "abcXYZ019 /._-$%~'\"\\(){}|`";
    cx_buf b = { 0 };
    int r = (int) vh_below(100);
    int n = r < 70 ? (int) vh_range(1, 12) : r < 90 ? (int) vh_range(13, 80) : r < 97 ? (int) vh_range(200, 3000) : (int) vh_range(19000, 23000);
    for (int i = 0; i < n; i++) {
        char c = V[vh_below(sizeof V - 1)];
        if (c == '`' && !vh_coin(10)) c = 'q';
        cx_buf_addc(&b, c);
    }
    return keep(b.b);
}
static char *gen_simple_value(void)
{
    cx_buf b = { 0 };
    gen_word(&b);
    return keep(b.b);
}

/* ---------------------------------------------------------------- one pass over the history */
#define MAXLINES 6
static gline lines[MAXLINES];
static int nlines;
static char *result[3][MAXLINES];      /* malloc'd copy of the result, NULL if the call returned NULL */
static int result_null[3][MAXLINES];
static int placed_exact[MAXLINES];
static char *expected[MAXLINES]; static size_t expected_n[MAXLINES];
static int line_weak[MAXLINES]; static const char *line_weak_why[MAXLINES];
static int line_refused[MAXLINES];
static cx_model model;
static cx_model line_wild[MAXLINES];   /* only the wild list is used */

static const char FILLER[] = "}) tail'\" \\n $A ${FOO} %version() `x` ~ ) } ";
static char fillbuf[CONFIG_BUFF];
static int subsys_live, tmp_dirty;

static void check_tables(const char *when)
{
    struct spifconf_verif_state st;
    const char *p = cx_tables_ok(&st);
    if (p) vh_fail("tables", "%s: %s", when, p);
    int cnt = 0;
    p = cx_vars_ok(&st, &cnt);
    if (p) vh_fail("varstore:order", "%s: %s", when, p);
}

static void run_pass(int pass)
{
    cx_rand_state = vh_mix(vh_seed, (uint64_t) vh_case_idx) ^ 0x5eed;
    spifconf_init_subsystem();
    subsys_live = 1;
    cx_register_customs(n_custom);
    check_tables("after init");
    if (pass == 0) { cx_model_reset_store(&model); model.n_custom = n_custom; }
    for (int i = 0; i < nlines; i++) {
        const char *in = lines[i].text.b; size_t inlen = lines[i].text.n;
        int exact = pass == 2 && placed_exact[i];
        char *blk;
        if (exact) { blk = malloc(inlen + 1); memcpy(blk, in, inlen + 1); }
        else {
            blk = malloc(CONFIG_BUFF);
            memcpy(blk, in, inlen + 1);
            if (pass == 1) memset(blk + inlen + 1, 0xA5, CONFIG_BUFF - inlen - 1);
            else memcpy(blk + inlen + 1, fillbuf, CONFIG_BUFF - inlen - 1);
        }
        vh_op("pass %d line %d %s len=%zu: %s", pass, i, exact ? "exact-size" : pass == 1 ? "full/0xA5" : "full/text", inlen, vh_q(in, (long) (inlen > 90 ? 90 : inlen)));
        if (inlen > 90) vh_op("  ... tail of that line: %s", vh_q(in + inlen - 60, 60));
        vh_stack_scribble(scribble_byte);
        spif_charptr_t r = spifconf_shell_expand(blk);
        vh_evals(1);
        if (r && r != blk) vh_fail("expand:return", "line %d: returned pointer is neither NULL nor the argument", i);
        result_null[pass][i] = r == NULL;
        if (r) {
            size_t cap = exact ? inlen + 1 : CONFIG_BUFF;
            size_t rl = strnlen(blk, cap);
            if (rl >= cap) vh_fail("expand:terminated", "line %d: result not NUL-terminated within its %zu-byte block", i, cap);
            if (rl >= CONFIG_BUFF) vh_fail("expand:length", "line %d: result length %zu >= CONFIG_BUFF", i, rl);
            result[pass][i] = malloc(rl + 1); memcpy(result[pass][i], blk, rl + 1);
        } else result[pass][i] = NULL;
        free(blk);
        check_tables("after expansion");
        if (pass == 0) {
            /* reference expander, evaluated in step with the real store */
            cx_buf o = { 0 };
            cx_model_begin_expansion(&model);
            cx_ref_expand(&model, in, &o, 0);
            expected[i] = o.b; expected_n[i] = o.n;
            line_weak[i] = model.weak; line_weak_why[i] = model.weak_why; line_refused[i] = model.refused;
            if (model.weak && strcasestr(in, "put")) model.store_tainted = 1;
            /* keep the wild list for matching */
            line_wild[i].nwild = model.nwild;
            for (int w = 0; w < model.nwild; w++) { line_wild[i].wild[w] = model.wild[w]; model.wild[w].payload = NULL; }
            model.nwild = 0;
            vh_cov(vh_mix(model.feat, (uint64_t) (inlen > 20000 ? 3 : inlen > 500 ? 2 : inlen > 60 ? 1 : 0) * 4 + (uint64_t) model.weak * 2 + (uint64_t) (model.max_depth > 1)));
            if (model.feat & CXF_PUT) vh_count("puts", 1);
            if (model.feat & CXF_GET) vh_count("gets", 1);
            if ((model.feat & CXF_GET) && !(model.feat & CXF_GET_MISS)) vh_count("get_hits", 1);
            if (model.feat & CXF_SETV) vh_count("var_set", 1);
            if (model.feat & CXF_UNSET) vh_count("var_unset", 1);
            if (model.feat & CXF_TILDE) vh_count("tilde_home", 1);
            if (model.feat & CXF_NEST) vh_count("nested_calls", 1);
            if (model.feat & CXF_CUSTOM) vh_count("custom_calls", 1);
            if (model.feat & CXF_WILD) vh_count("wild_calls", 1);
            if (model.feat & CXF_SQESC) vh_count("single_quote_escapes", 1);
            if (model.feat & CXF_LONGNAME) vh_count("long_names", 1);
            if (inlen > 20000) vh_count("long_inputs", 1);
        }
    }
    /* variable store against the model (exact content) */
    {
        struct spifconf_verif_state st; int cnt = 0;
        spifconf_verif_peek(&st);
        const char *p = cx_vars_ok(&st, &cnt);
        if (p) vh_fail("varstore:order", "end of pass %d: %s", pass, p);
        if (!model.store_tainted) {
            if (cnt != model.nvars) vh_fail("varstore:content", "end of pass %d: store holds %d variables, model %d", pass, cnt, model.nvars);
            for (int k = 0; k < model.nvars; k++) {
                const char *v = cx_var_lookup(&st, model.vars[k].name);
                if (!v || strcmp(v, model.vars[k].val)) vh_fail("varstore:content", "end of pass %d: %s is %s, model says %s", pass, model.vars[k].name, vh_qs(v), vh_qs(model.vars[k].val));
            }
            vh_count("store_checks", 1); vh_evals(1);
        }
    }
    subsys_live = 0;
    spifconf_free_subsystem();
}

static void free_case(void)
{
    for (int p = 0; p < 3; p++) for (int i = 0; i < MAXLINES; i++) { free(result[p][i]); result[p][i] = NULL; }
    for (int i = 0; i < MAXLINES; i++) {
        free(expected[i]); expected[i] = NULL;
        for (int w = 0; w < line_wild[i].nwild; w++) free(line_wild[i].wild[w].payload);
        line_wild[i].nwild = 0;
    }
    arena_free();
}

int main(int argc, char **argv)
{
    vh_init(argc, argv, "C10");
    for (int i = 1; i + 1 < argc; i++) if (!strcmp(argv[i], "--scr")) scribble_byte = (int) strtol(argv[i + 1], 0, 0);
    cx_scratch_init();
    memset(longname_set, 'L', 126); longname_set[126] = 0;
    memset(longname_unset, 'M', 126); longname_unset[126] = 0;
    cx_env_on = 1;
    /* fixtures for %dirscan and TMPDIR for (never executed) %exec: constant content, created once per process */
    mkdir("d1", 0700); cx_write_file("d1/onlyfile", "x", 1); mkdir("d1/subdir", 0700);
    mkdir("dmany", 0700); cx_write_file("dmany/aa", "1", 1); cx_write_file("dmany/bb", "2", 1); cx_write_file("dmany/c-c", "", 0); mkdir("dmany/sub", 0700);
    mkdir("dempty", 0700); mkdir("dempty/sub", 0700);
    mkdir("tmp", 0700);
    for (size_t k = 0; k < sizeof fillbuf; k++) fillbuf[k] = FILLER[k % (sizeof FILLER - 1)];

    while (vh_next_case()) {
        if (VH_CASE_TRY()) {
            if (tmp_dirty) { cx_rm_contents("tmp", 0); tmp_dirty = 0; }      /* files left by the previous case's exec */
            cx_spawns = 0;
            /* ---- environment */
            cx_env_clear();
            int hr = (int) vh_below(10);
            if (hr < 6) cx_env_set("HOME", vh_coin(70) ? "/home/user" : gen_value());
            else if (hr < 8) cx_env_set("HOME", "");
            for (int i = 0; i < 5; i++) cx_env_set(SETNAMES[i], vh_coin(60) ? gen_value() : gen_simple_value());
            cx_env_set("EMPTY", "");
            cx_env_set(longname_set, gen_simple_value());
            cx_env_set("TMPDIR", "tmp");
            { int gl = (int) vh_range(40, 250); for (int k = 0; k < gl; k++) grow_value[k] = (char) ('a' + k % 26); grow_value[gl] = 0; cx_env_set("GROW", grow_value); }
            /* ---- built-in table: 0,1,2 customs (no growth), 3..12 (one growth), 13..40 (two or three) */
            { int r = (int) vh_below(100); n_custom = r < 15 ? (int) vh_below(3) : r < 75 ? (int) vh_range(3, 12) : (int) vh_range(13, CX_NCUSTOM); }
            has_dir_one = has_dir_many = has_dir_empty = 0;
            cx_sim_output = vh_coin(50) ? NULL : vh_coin(50) ? "out\n" : "two   words \n";
            /* ---- lines */
            int weak_case = vh_coin(25);
            nlines = (int) vh_range(1, MAXLINES);
            int longs = 0;
            for (int i = 0; i < nlines; i++) {
                lines[i].weak_allowed = weak_case;
                int r = (int) vh_below(100);
                int shape = r < 30 ? 1 : (r < 36 && longs < 2) ? 2 : 0;
                if (shape == 0 && longs < 2 && vh_coin(4)) shape = 3;
                if (shape >= 2) longs++;
                if (shape == 3) gen_boundary_line(&lines[i]); else gen_line(&lines[i], shape);
            }

            /* ---- model dry run to decide placement (store evolves, so run the model over the whole history first) */
            {
                cx_model dry; memset(&dry, 0, sizeof dry); dry.n_custom = n_custom;
                for (int i = 0; i < nlines; i++) {
                    cx_buf o = { 0 };
                    cx_model_begin_expansion(&dry);
                    cx_ref_expand(&dry, lines[i].text.b, &o, 0);
                    /* exact-size placement only where the result cannot legitimately be longer than the input:
                       strong lines whose model output fits, and lines built as "non-growing body + weak tail" */
                    placed_exact[i] = o.n <= lines[i].text.n && dry.nwild == 0 && (!dry.weak || lines[i].exact_hint) &&
                                      (!(dry.feat & CXF_BQ) || (lines[i].exact_hint && !cx_sim_output));   /* a command that prints nothing cannot grow the text */
                    if (dry.weak && strcasestr(lines[i].text.b, "put")) dry.store_tainted = 1;
                    if (dry.store_tainted && (dry.feat & CXF_GET)) placed_exact[i] = 0;
                    cx_buf_free(&o);
                }
                cx_model_begin_expansion(&dry);
                cx_model_reset_store(&dry);
            }

            for (int pass = 0; pass < 3; pass++) run_pass(pass);

            /* ---- oracles */
            uint64_t dg = 0x10;
            int any_exec = 0;
            for (int i = 0; i < nlines; i++) {
                const char *in = lines[i].text.b;
                if (strchr(in, '`') || strcasestr(in, "exec")) any_exec = 1;
                /* (1) reference expander */
                if (!line_weak[i]) {
                    if (result_null[0][i]) vh_fail("expand:refused", "line %d %s: refused (NULL) but the model expands it to %s", i, vh_qs(in), vh_q(expected[i], (long) expected_n[i]));
                    const char *d = cx_match(&line_wild[i], expected[i], expected_n[i], result[0][i]);
                    if (d) vh_fail("expand:value", "line %d input %s -> got %s expected %s: %s", i, vh_qs(in), vh_qs(result[0][i]), vh_q(expected[i], (long) expected_n[i]), d);
                    vh_count("strong_lines", 1);
                } else {
                    vh_count("weak_lines", 1);
                    if (vh_verbose) fprintf(stderr, "  line %d weak: %s\n", i, line_weak_why[i]);
                }
                vh_evals(1);
                /* (2) independence from the bytes after the input's NUL, and from the block size */
                for (int p = 1; p < 3; p++) {
                    if (result_null[p][i] != result_null[0][i] || (result[0][i] && strcmp(result[p][i], result[0][i])))
                        vh_fail(p == 1 ? "expand:reads-past-nul" : "expand:placement", "line %d input %s: %s gives %s, full-size block with text after the NUL gives %s", i, vh_qs(in),
                                p == 1 ? "full-size block with 0xA5 after the NUL" : placed_exact[i] ? "exact-size block" : "third pass", vh_qs(result[p][i]), vh_qs(result[0][i]));
                }
                vh_count("tail_diff_runs", 1);
                if (placed_exact[i]) vh_count("exact_size_runs", 1);
                if (placed_exact[i] && line_weak[i]) vh_count("exact_size_weak_tail_runs", 1);
                dg = vh_hash_str(result[0][i], dg);
                if (i < 2 && !line_weak[i]) vh_sample("%s -> %s", vh_q(in, (long) (lines[i].text.n > 70 ? 70 : lines[i].text.n)), vh_q(result[0][i], (long) (strlen(result[0][i]) > 70 ? 70 : strlen(result[0][i]))));
            }
            for (int k = 0; k < cx_nenv; k++) if (cx_env[k].val && (strchr(cx_env[k].val, '`') || strcasestr(cx_env[k].val, "exec"))) any_exec = 1;
            if (!any_exec) {
                if (cx_spawns) vh_fail("spawn", "%ld spawn attempt(s) for text with neither backquote nor %%exec: %s", cx_spawns, cx_last_cmd);
                vh_count("no_spawn_checked", 1);
            } else if (cx_spawns) vh_count("spawn_monitor_hits", cx_spawns);
            if (any_exec) tmp_dirty = 1;
            vh_digest(dg);
            if (n_custom >= 3) vh_count("builtin_table_grown", 1);
            vh_count("lines", nlines);
            free_case();
        } else {
            /* abandoned case: release the subsystem of the failed pass so that its variable list
               cannot leak into the next case */
            if (subsys_live) { subsys_live = 0; spifconf_free_subsystem(); }
            free_case();
            tmp_dirty = 1;
        }
        vh_case_done();
    }
    cx_scratch_fini();
    return vh_finish();
}
