#!/bin/bash
# Runs the repo's suite (guard off) in ${1:-/repo} and compares the passed test names with BASELINE.json's stable_pass list.
R=${1:-/repo}
cd $R && make -j8 >/dev/null 2>&1
make -k -j8 test 2>&1 | grep -o "Testing .*\.\.\.passed" | sed 's/\.\.\.passed$//' | sort -u > /tmp/baseline.$$.got
python3 - "$$" <<'PY'
import json, sys
got = set(l.rstrip('\n') for l in open('/tmp/baseline.%s.got' % sys.argv[1]))
b = json.load(open('/root/.vp/BASELINE.json'))
want = set(b['stable_pass'])
missing = sorted(want - got)
print('stable tests passing: %d/%d' % (len(want & got), len(want)))
for m in missing: print('  MISSING:', m)
sys.exit(1 if missing else 0)
PY
rc=$?
rm -f /tmp/baseline.$$.got
exit $rc
