/* Shared monitors for the config-subsystem harnesses C09, C10, C11
 * (DESIGN.md §3.3, §3.4, §4 C09-C11, Appendix A.5/A.6).
 *
 * Included by exactly one translation unit per executable, so it defines
 * non-static __wrap_* symbols.  Link with vf.build_harness(..., wraps=CX_WRAPS)
 * (the list is repeated in checks/c0x_common.py).
 *
 *   - spawn monitor:  system fork vfork exec* popen posix_spawn* are recorded, never executed
 *   - hermetic getenv: per-case table; the process environment is invisible while it is on
 *   - libast_print_error / libast_print_warning: counted, not printed (unless --verbose)
 *   - rand/srand: deterministic per case (so %random() is a function of the case)
 *   - fgets: logical step counter (termination is decided on it, never on seconds)
 *   - scratch directory under vh_outdir, one per process, emptied per case
 *   - the guarded accessor spifconf_verif_peek() (src/conf.c, LIBAST_VERIF)
 *   - logging context handlers with unique state tokens, event log
 *   - reference model of the line grammar (A.5) and of value expansion (A.6)
 */
#ifndef C0X_CONF_H
#define C0X_CONF_H
#ifndef _GNU_SOURCE
# define _GNU_SOURCE
#endif
#include <config.h>
#include <libast_internal.h>
#include <sys/stat.h>
#include <sys/types.h>
#include <dirent.h>
#include <fcntl.h>
#include <unistd.h>
#include <errno.h>
#include <stdarg.h>
#include <ctype.h>
#include <spawn.h>
#include <limits.h>
#include "vh.h"

/* ------------------------------------------------------------------ hook (must match src/conf.c) */
struct spifconf_verif_state {
    unsigned int ctx_idx, ctx_cnt, ctx_state_idx, ctx_state_cnt;
    unsigned int fstate_idx, fstate_cnt, builtin_idx, builtin_cnt;
    const void *context, *ctx_state, *builtins, *fstate, *vars;
};
void spifconf_verif_peek(struct spifconf_verif_state *st);

/* ------------------------------------------------------------------ spawn monitor */
static long cx_spawns;                 /* attempts recorded in the current case */
static long cx_spawns_total;
static char cx_last_cmd[300];
static const char *cx_sim_output;      /* if set, a `cmd >FILE` passed to system() gets this text written to FILE
                                          (simulates the child's output without creating a process) */
static void cx_spawn_record(const char *how, const char *what)
{
    cx_spawns++; cx_spawns_total++;
    snprintf(cx_last_cmd, sizeof cx_last_cmd, "%s(%s)", how, what ? what : "NULL");
    if (vh_verbose) fprintf(stderr, "  [spawn monitor] %s\n", cx_last_cmd);
}
static int cx_sim_nul_first;
static int cx_sim_cat;                 /* if set, a `cmd < IN > OUT` passed to system() copies IN to OUT (a pass-through preprocessor such as
                                          `%preproc cat`: the output still holds the %preproc line itself) */
int __wrap_system(const char *cmd)
{
    cx_spawn_record("system", cmd);
    if (cx_sim_cat && cmd) {
        const char *lt = strstr(cmd, " < "), *gt = lt ? strstr(lt, " > ") : NULL;
        if (lt && gt) {
            char in[PATH_MAX], out[PATH_MAX];
            size_t n = (size_t) (gt - (lt + 3));
            if (n < sizeof in && strlen(gt + 3) < sizeof out) {
                memcpy(in, lt + 3, n); in[n] = 0; strcpy(out, gt + 3);
                int ifd = open(in, O_RDONLY), ofd = open(out, O_WRONLY | O_TRUNC);          /* never creates */
                if (ifd >= 0 && ofd >= 0) { char b[4096]; ssize_t k; while ((k = read(ifd, b, sizeof b)) > 0) if (write(ofd, b, (size_t) k) < 0) break; vh_count("preproc_pass_through_simulated", 1); }
                if (ifd >= 0) close(ifd);
                if (ofd >= 0) close(ofd);
                return 0;
            }
        }
    }
    if (cx_sim_output && cmd) {
        const char *gt = NULL;
        for (const char *p = cmd; *p; p++) if (p[0] == '>' ) gt = p;
        if (gt) {
            gt++; while (*gt == ' ') gt++;
            int fd = open(gt, O_WRONLY | O_TRUNC);          /* never creates */
            /* cx_sim_nul_first: the command's output begins with a NUL byte (non-empty output, empty as a C string) */
            if (fd >= 0) { if (cx_sim_nul_first && write(fd, "", 1) < 0) { } if (write(fd, cx_sim_output, strlen(cx_sim_output)) < 0) { } close(fd); }
        }
    }
    return -1;
}
pid_t __wrap_fork(void) { cx_spawn_record("fork", ""); errno = EAGAIN; return -1; }
pid_t __wrap_vfork(void) { cx_spawn_record("vfork", ""); errno = EAGAIN; return -1; }
int __wrap_execve(const char *p, char *const a[], char *const e[]) { cx_spawn_record("execve", p); errno = EACCES; return -1; }
int __wrap_execv(const char *p, char *const a[]) { cx_spawn_record("execv", p); errno = EACCES; return -1; }
int __wrap_execvp(const char *p, char *const a[]) { cx_spawn_record("execvp", p); errno = EACCES; return -1; }
int __wrap_execl(const char *p, const char *a, ...) { cx_spawn_record("execl", p); errno = EACCES; return -1; }
int __wrap_execlp(const char *p, const char *a, ...) { cx_spawn_record("execlp", p); errno = EACCES; return -1; }
int __wrap_execle(const char *p, const char *a, ...) { cx_spawn_record("execle", p); errno = EACCES; return -1; }
FILE *__wrap_popen(const char *c, const char *m) { cx_spawn_record("popen", c); errno = EAGAIN; return NULL; }
int __wrap_posix_spawn(pid_t *pid, const char *p, const posix_spawn_file_actions_t *fa, const posix_spawnattr_t *at,
                       char *const a[], char *const e[]) { cx_spawn_record("posix_spawn", p); return EAGAIN; }
int __wrap_posix_spawnp(pid_t *pid, const char *p, const posix_spawn_file_actions_t *fa, const posix_spawnattr_t *at,
                        char *const a[], char *const e[]) { cx_spawn_record("posix_spawnp", p); return EAGAIN; }

/* ------------------------------------------------------------------ hermetic environment */
extern char *__real_getenv(const char *);
#define CX_MAXENV 24
static struct { const char *name; const char *val; } cx_env[CX_MAXENV];
static int cx_nenv, cx_env_on;
static long cx_getenv_calls;
static void cx_env_clear(void) { cx_nenv = 0; }
static void cx_env_set(const char *name, const char *val)
{
    for (int i = 0; i < cx_nenv; i++) if (!strcmp(cx_env[i].name, name)) { cx_env[i].val = val; return; }
    if (cx_nenv < CX_MAXENV) { cx_env[cx_nenv].name = name; cx_env[cx_nenv].val = val; cx_nenv++; }
}
static const char *cx_env_get(const char *name)
{
    for (int i = 0; i < cx_nenv; i++) if (!strcmp(cx_env[i].name, name)) return cx_env[i].val;
    return NULL;
}
char *__wrap_getenv(const char *name)
{
    if (!cx_env_on) return __real_getenv(name);
    cx_getenv_calls++;
    return name ? (char *) cx_env_get(name) : NULL;
}

/* ------------------------------------------------------------------ diagnostics of libast: counted, silent */
static long cx_errors, cx_warnings;
void __wrap_libast_print_error(const char *fmt, ...)
{
    cx_errors++;
    if (vh_verbose) { va_list ap; va_start(ap, fmt); fprintf(stderr, "  [libast error] "); vfprintf(stderr, fmt, ap); va_end(ap); }
}
void __wrap_libast_print_warning(const char *fmt, ...)
{
    cx_warnings++;
    if (vh_verbose) { va_list ap; va_start(ap, fmt); fprintf(stderr, "  [libast warning] "); vfprintf(stderr, fmt, ap); va_end(ap); }
}

/* ------------------------------------------------------------------ deterministic rand() for %random */
static uint64_t cx_rand_state;
int __wrap_rand(void)
{
    uint64_t r = vh_splitmix(&cx_rand_state);
    /* every value of 0 .. RAND_MAX is a legal answer of rand(): one call in 16 returns one from the two ends of the range */
    if ((r & 15) == 0) { vh_count("rand_at_the_ends_of_its_range", 1); return (r & 16) ? (int) ((r >> 8) & 127) : RAND_MAX - (int) ((r >> 8) & 127); }
    return (int) (r >> 33);          /* 0 .. 2^31-1 == RAND_MAX */
}
void __wrap_srand(unsigned int s) { (void) s; }

/* ------------------------------------------------------------------ fgets step counter */
extern char *__real_fgets(char *, int, FILE *);
static long cx_fgets_calls, cx_fgets_budget;   /* budget <= 0: unlimited */
static int cx_budget_blown;
char *__wrap_fgets(char *s, int n, FILE *f)
{
    cx_fgets_calls++;
    if (cx_fgets_budget > 0 && cx_fgets_calls > cx_fgets_budget) {
        cx_budget_blown = 1;
        return NULL;               /* starve the reader: every file now looks exhausted, the parser must unwind */
    }
    return __real_fgets(s, n, f);
}

#define CX_WRAP_LIST "system fork vfork execve execv execvp execl execlp execle popen posix_spawn posix_spawnp " \
                     "getenv libast_print_error libast_print_warning rand srand fgets"

/* ------------------------------------------------------------------ scratch directory */
static char cx_scr[800];
static void cx_rm_contents(const char *dir, int depth)
{
    DIR *d = opendir(dir);
    if (!d) return;
    struct dirent *e;
    char p[1400];
    while ((e = readdir(d))) {
        if (!strcmp(e->d_name, ".") || !strcmp(e->d_name, "..")) continue;
        snprintf(p, sizeof p, "%s/%s", dir, e->d_name);
        struct stat st;
        if (lstat(p, &st)) continue;
        if (S_ISDIR(st.st_mode)) { chmod(p, 0700); if (depth < 8) cx_rm_contents(p, depth + 1); rmdir(p); }
        else unlink(p);
    }
    closedir(d);
}
static void cx_scratch_init(void)
{
    char base[600];
    if (!realpath(vh_outdir, base)) snprintf(base, sizeof base, "%s", vh_outdir);
    snprintf(cx_scr, sizeof cx_scr, "%s/scr-%d-%ld", base, vh_shard, (long) getpid());
    mkdir(cx_scr, 0700);
    if (chdir(cx_scr)) { perror("chdir scratch"); exit(3); }
}
static void cx_scratch_clean(void)
{
    if (chdir(cx_scr)) { }
    cx_rm_contents(cx_scr, 0);
}
static void cx_scratch_fini(void)
{
    if (__real_getenv("CX_KEEP_SCRATCH")) return;       /* debugging aid: inspect the last case's files */
    cx_scratch_clean();
    if (chdir("/")) { }
    rmdir(cx_scr);
}
static void cx_write_file(const char *rel, const void *data, size_t n)
{
    FILE *f = fopen(rel, "wb");
    if (!f) { fprintf(stderr, "cannot write scratch file %s/%s: %s\n", cx_scr, rel, strerror(errno)); exit(3); }
    if (n && fwrite(data, 1, n, f) != n) { perror("fwrite"); exit(3); }
    fclose(f);
}

/* ------------------------------------------------------------------ descriptor census */
static int cx_fd_count(void)
{
    int n = 0;
    for (int fd = 0; fd < 1200; fd++) if (fcntl(fd, F_GETFD) != -1) n++;
    return n;
}
static int cx_fd_base_hi = -1;
/* after an abandoned case: close whatever the case left open above the baseline set */
static unsigned char cx_fd_base[1200];
static void cx_fd_snapshot(void) { for (int fd = 0; fd < 1200; fd++) cx_fd_base[fd] = fcntl(fd, F_GETFD) != -1; }
static void cx_fd_restore(void) { for (int fd = 0; fd < 1200; fd++) if (!cx_fd_base[fd] && fcntl(fd, F_GETFD) != -1) close(fd); }

/* ------------------------------------------------------------------ growable byte buffer */
typedef struct { char *b; size_t n, cap; } cx_buf;
static void cx_buf_reserve(cx_buf *x, size_t more)
{
    if (x->n + more + 1 > x->cap) { x->cap = (x->n + more + 1) * 2 + 64; x->b = realloc(x->b, x->cap); }
}
static void cx_buf_add(cx_buf *x, const void *p, size_t n) { cx_buf_reserve(x, n); memcpy(x->b + x->n, p, n); x->n += n; x->b[x->n] = 0; }
static void cx_buf_addc(cx_buf *x, char c) { cx_buf_add(x, &c, 1); }
static void cx_buf_adds(cx_buf *x, const char *s) { cx_buf_add(x, s, strlen(s)); }
static void cx_buf_reset(cx_buf *x) { x->n = 0; if (x->b) x->b[0] = 0; }
static void cx_buf_free(cx_buf *x) { free(x->b); x->b = NULL; x->n = x->cap = 0; }

/* ------------------------------------------------------------------ table invariants through the hook */
static long cx_peeks;
/* returns NULL if fine, else a static description */
static const char *cx_tables_ok(struct spifconf_verif_state *st)
{
    static char msg[200];
    spifconf_verif_peek(st);
    cx_peeks++;
#define CX_T(idx, cnt, ptr, elem, name) \
    if (st->idx >= st->cnt) { snprintf(msg, sizeof msg, "%s index %u >= capacity %u", name, st->idx, st->cnt); return msg; } \
    if (vh_have_asan() && st->ptr && vh_alloc_size(st->ptr) && vh_alloc_size(st->ptr) < (size_t) st->cnt * sizeof(elem)) { \
        snprintf(msg, sizeof msg, "%s table: %zu bytes allocated < capacity %u x %zu", name, vh_alloc_size(st->ptr), st->cnt, sizeof(elem)); return msg; }
    CX_T(ctx_idx, ctx_cnt, context, ctx_t, "context");
    CX_T(ctx_state_idx, ctx_state_cnt, ctx_state, ctx_state_t, "context-state");
    CX_T(fstate_idx, fstate_cnt, fstate, fstate_t, "file-state");
    CX_T(builtin_idx, builtin_cnt, builtins, spifconf_func_t, "built-in");
#undef CX_T
    if (st->fstate_idx != fstate_idx) { snprintf(msg, sizeof msg, "hook fstate_idx %u != public fstate_idx %u", st->fstate_idx, fstate_idx); return msg; }
    return NULL;
}
/* variable list: strictly ascending by name (=> one entry per name); fills names/values if given */
static const char *cx_vars_ok(const struct spifconf_verif_state *st, int *count)
{
    static char msg[300];
    const spifconf_var_t *v = st->vars, *prev = NULL;
    int n = 0;
    for (; v; prev = v, v = v->next) {
        if (!v->var || !v->value) { snprintf(msg, sizeof msg, "variable entry %d has NULL name or value", n); return msg; }
        if (prev && strcmp((char *) prev->var, (char *) v->var) >= 0) {
            snprintf(msg, sizeof msg, "variable list not strictly ascending: %s then %s", vh_qs((char *) prev->var), vh_qs((char *) v->var));
            return msg;
        }
        if (++n > 100000) { snprintf(msg, sizeof msg, "variable list does not end (cycle?)"); return msg; }
    }
    if (count) *count = n;
    return NULL;
}
static const char *cx_var_lookup(const struct spifconf_verif_state *st, const char *name)
{
    int n = 0;
    for (const spifconf_var_t *v = st->vars; v && n < 100000; v = v->next, n++) if (v->var && !strcmp((char *) v->var, name)) return (char *) v->value;
    return NULL;
}

/* ================================================================== A.6 reference expander
 * Written from the property statement and DESIGN Appendix A.6, not from conf.c.
 * `weak` is raised wherever the statement/appendix is silent; then only the safety clauses apply.
 */
#define CX_NAME_MAX 126
#define CX_MAXVARS 16
#define CX_MAXWILD 8
enum { CX_W_ONEOF = 1, CX_W_WORDSET = 2 };
typedef struct {
    /* model of the variable store (sorted not needed here) */
    struct { char name[64]; char *val; } vars[CX_MAXVARS];
    int nvars;
    int store_tainted;          /* real store may differ from the model (a weak line contained a put) */
    /* which custom built-ins are registered in this configuration */
    int n_custom;               /* customs 0..n_custom-1 of cx_customs[] registered */
    /* per-expansion outputs */
    int weak; const char *weak_why;
    int refused;                /* model: call refused (unbalanced parentheses) => NULL result acceptable/expected */
    struct { size_t pos; int kind; char *payload; } wild[CX_MAXWILD];
    int nwild;
    unsigned feat;              /* feature bits seen (coverage) */
    int max_depth;
} cx_model;

enum { CXF_ESC = 1, CXF_TILDE = 2, CXF_VAR = 4, CXF_VARB = 8, CXF_VARP = 16, CXF_SQ = 32, CXF_DQ = 64, CXF_CALL = 128, CXF_NEST = 256,
       CXF_PUT = 512, CXF_GET = 1024, CXF_UNSET = 2048, CXF_SETV = 4096, CXF_WILD = 8192, CXF_SQESC = 16384, CXF_LONGNAME = 32768,
       CXF_TILDE_LIT = 1 << 16, CXF_GET_MISS = 1 << 17, CXF_CUSTOM = 1 << 18, CXF_EMPTYRES = 1 << 19, CXF_BQ = 1 << 20 };

static void cx_weak(cx_model *m, const char *why) { if (!m->weak) { m->weak = 1; m->weak_why = why; } }

static void cx_model_reset_store(cx_model *m)
{
    for (int i = 0; i < m->nvars; i++) free(m->vars[i].val);
    m->nvars = 0; m->store_tainted = 0;
}
static const char *cx_model_get(cx_model *m, const char *k)
{
    for (int i = 0; i < m->nvars; i++) if (!strcmp(m->vars[i].name, k)) return m->vars[i].val;
    return NULL;
}
static void cx_model_put(cx_model *m, const char *k, const char *v)
{
    for (int i = 0; i < m->nvars; i++) if (!strcmp(m->vars[i].name, k)) { free(m->vars[i].val); m->vars[i].val = strdup(v); return; }
    if (m->nvars < CX_MAXVARS && strlen(k) < sizeof m->vars[0].name) { strcpy(m->vars[m->nvars].name, k); m->vars[m->nvars].val = strdup(v); m->nvars++; }
    else m->store_tainted = 1;
}
static void cx_model_begin_expansion(cx_model *m)
{
    for (int i = 0; i < m->nwild; i++) free(m->wild[i].payload);
    m->nwild = 0; m->weak = 0; m->weak_why = NULL; m->refused = 0; m->feat = 0; m->max_depth = 0;
}

/* custom built-ins the harnesses register (behaviour is defined here, so the model knows the results) */
static spif_charptr_t cxb_up(spif_charptr_t a) { if (!a) return NULL; char *r = strdup(a); for (char *p = r; *p; p++) *p = (char) toupper((unsigned char) *p); return r; }
static spif_charptr_t cxb_rev(spif_charptr_t a) { if (!a) return NULL; size_t n = strlen(a); char *r = malloc(n + 1); for (size_t i = 0; i < n; i++) r[i] = a[n - 1 - i]; r[n] = 0; return r; }
static spif_charptr_t cxb_nil(spif_charptr_t a) { (void) a; return NULL; }
static spif_charptr_t cxb_empty(spif_charptr_t a) { (void) a; return strdup(""); }
static spif_charptr_t cxb_dbl(spif_charptr_t a) { if (!a) return NULL; size_t n = strlen(a); char *r = malloc(2 * n + 1); memcpy(r, a, n); memcpy(r + n, a, n); r[2 * n] = 0; return r; }
static spif_charptr_t cxb_fill(spif_charptr_t a) { (void) a; return strdup("<f>"); }
static struct { const char *name; spifconf_func_ptr_t fn; } cx_customs[] = {
    { "up", cxb_up }, { "rev", cxb_rev }, { "nil", cxb_nil }, { "empty", cxb_empty }, { "dbl", cxb_dbl },
    { "fa", cxb_fill }, { "fb", cxb_fill }, { "fc", cxb_fill }, { "fd", cxb_fill }, { "fe", cxb_fill }, { "ff", cxb_fill }, { "fg", cxb_fill },
    { "fh", cxb_fill }, { "fi", cxb_fill }, { "fj", cxb_fill }, { "fk", cxb_fill }, { "fl", cxb_fill }, { "fm", cxb_fill }, { "fn", cxb_fill },
    { "fo", cxb_fill }, { "fp", cxb_fill }, { "fq", cxb_fill }, { "fr", cxb_fill }, { "fs", cxb_fill }, { "ft", cxb_fill }, { "fu", cxb_fill },
    { "fv", cxb_fill }, { "fw", cxb_fill }, { "fx", cxb_fill }, { "fy", cxb_fill }, { "fz", cxb_fill }, { "ga", cxb_fill }, { "gb", cxb_fill },
    { "gc", cxb_fill }, { "gd", cxb_fill }, { "ge", cxb_fill }, { "gf", cxb_fill }, { "gg", cxb_fill }, { "gh", cxb_fill }, { "gi", cxb_fill },
};
#define CX_NCUSTOM ((int) (sizeof cx_customs / sizeof cx_customs[0]))
static void cx_register_customs(int n)
{
    for (int i = 0; i < n && i < CX_NCUSTOM; i++) spifconf_register_builtin((char *) cx_customs[i].name, cx_customs[i].fn);
}

/* split on blanks into simple words; returns count, -1 if the text is outside the simple-word language
 * (quotes or backslashes: the quoting grammar of words is C12's subject, not this model's) */
static int cx_simple_words(const char *s, char w[][128], int maxw)
{
    /* words of a built-in's argument text: unquoted words of ordinary characters, or a double-quoted word of ordinary
     * characters and blanks (possibly empty) that runs to the matching quote and is followed by a blank or the end.
     * Anything else (single quotes, backslashes, a quote inside a word) is outside the strong sub-language: -1. */
    int n = 0;
    for (const char *p = s; *p;) {
        while (*p && isspace((unsigned char) *p)) p++;
        if (!*p) break;
        size_t k = 0;
        if (*p == '"') {
            p++;
            while (*p && *p != '"') {
                if (*p == '\'' || *p == '\\') return -1;
                if (k + 1 < 128 && n < maxw) w[n][k++] = *p; else if (k + 1 >= 128) return -1;
                p++;
            }
            if (*p != '"') return -1;
            p++;
            if (*p && !isspace((unsigned char) *p)) return -1;
        } else {
            while (*p && !isspace((unsigned char) *p)) {
                if (*p == '"' || *p == '\'' || *p == '\\') return -1;
                if (k + 1 < 128 && n < maxw) w[n][k++] = *p;
                else if (k + 1 >= 128) return -1;
                p++;
            }
        }
        if (n < maxw) w[n][k] = 0;
        n++;
    }
    return n;
}

static const char *cx_home(void) { const char *h = cx_env_get("HOME"); return (h && *h) ? h : NULL; }

/* Expand `in` (NUL-terminated) appending to out.  depth: call nesting. */
static void cx_ref_expand(cx_model *m, const char *in, cx_buf *out, int depth)
{
    int in_single = 0, in_double = 0;
    size_t n = strlen(in);
    if (depth > m->max_depth) m->max_depth = depth;
    for (size_t i = 0; i < n; i++) {
        char c = in[i];
        switch (c) {
        case '~':
            if (!in_single && !in_double && cx_home()) { cx_buf_adds(out, cx_home()); m->feat |= CXF_TILDE; }
            else { cx_buf_addc(out, c); m->feat |= CXF_TILDE_LIT; }
            break;
        case '\\':
            if (i + 1 >= n) { cx_weak(m, "trailing backslash"); cx_buf_addc(out, c); break; }
            if (!in_single) {
                char d = in[++i], r;
                switch (tolower((unsigned char) d)) {
                case 'n': r = '\n'; break; case 'r': r = '\r'; break; case 't': r = '\t'; break; case 'b': r = '\b'; break;
                case 'f': r = '\f'; break; case 'a': r = '\a'; break; case 'v': r = '\v'; break; case 'e': r = '\033'; break;
                default: r = d; break;
                }
                cx_buf_addc(out, r); m->feat |= CXF_ESC;
            } else if (in[i + 1] == '\'') { cx_buf_addc(out, '\''); i++; m->feat |= CXF_SQESC; }
            else { cx_buf_addc(out, c); cx_buf_addc(out, in[++i]); m->feat |= CXF_SQESC; }
            break;
        case '$':
            if (in_single) { cx_buf_addc(out, c); break; }
            {
                char name[CX_NAME_MAX + 8]; size_t k = 0; size_t j = i + 1;
                char close = 0;
                if (j < n && in[j] == '{') close = '}'; else if (j < n && in[j] == '(') close = ')';
                if (close) {
                    j++;
                    size_t e = j;
                    while (e < n && in[e] != close) e++;
                    if (e >= n) { cx_weak(m, "unterminated ${ or $("); i = n; break; }
                    if (e - j > CX_NAME_MAX) { cx_weak(m, "name longer than 126"); i = e; break; }
                    if (e == j) { cx_weak(m, "empty name"); i = e; break; }
                    memcpy(name, in + j, e - j); name[e - j] = 0; k = e - j;
                    for (size_t q = 0; q < k; q++) if (!(isalnum((unsigned char) name[q]) || name[q] == '_')) cx_weak(m, "non-identifier name in braces");
                    i = e;
                    m->feat |= close == '}' ? CXF_VARB : CXF_VARP;
                } else {
                    size_t e = j;
                    while (e < n && (isalnum((unsigned char) in[e]) || in[e] == '_')) e++;
                    if (e == j) { cx_weak(m, "$ not followed by a name"); break; }
                    if (e - j > CX_NAME_MAX) { cx_weak(m, "name longer than 126"); i = e - 1; break; }
                    memcpy(name, in + j, e - j); name[e - j] = 0; k = e - j;
                    i = e - 1;
                    m->feat |= CXF_VAR;
                }
                if (k >= 100) m->feat |= CXF_LONGNAME;
                const char *v = cx_env_get(name);
                if (v && *v) { cx_buf_adds(out, v); m->feat |= CXF_SETV; } else m->feat |= CXF_UNSET;
            }
            break;
        case '"':
            if (!in_single) in_double = !in_double;
            cx_buf_addc(out, c); m->feat |= CXF_DQ;
            break;
        case '\'':
            if (in_double) cx_weak(m, "single quote inside double quotes");
            in_single = !in_single;
            cx_buf_addc(out, c); m->feat |= CXF_SQ;
            break;
        case '`':
            cx_weak(m, "backquote"); m->feat |= CXF_BQ;
            cx_buf_addc(out, c);
            break;
        case '%':
            {
                /* a call is %name( with name a registered built-in, spelled in lower case */
                static const char *std[] = { "appname", "version", "exec", "random", "get", "put", "dirscan" };
                const char *nm = NULL; size_t l = 0; int custom = -1;
                size_t j = i + 1;
                for (int b = 0; b < 7 && !nm; b++) { l = strlen(std[b]); if (!strncmp(in + j, std[b], l) && in[j + l] == '(') nm = std[b]; }
                for (int b = 0; b < m->n_custom && b < CX_NCUSTOM && !nm; b++) { l = strlen(cx_customs[b].name); if (!strncmp(in + j, cx_customs[b].name, l) && in[j + l] == '(') { nm = cx_customs[b].name; custom = b; } }
                if (!nm) { cx_weak(m, "% not followed by a built-in call"); cx_buf_addc(out, c); break; }
                if (in_single) cx_weak(m, "call inside single quotes");
                /* matching parenthesis, counted on the raw text */
                size_t a0 = j + l + 1, e = a0; int lvl = 1, q1 = 0, q2 = 0;
                for (; e < n; e++) {
                    char d = in[e];
                    if ((d == '(' || d == ')') && (q1 || q2 || (e > a0 && in[e - 1] == '\\'))) cx_weak(m, "parenthesis inside quotes or escaped, within call arguments");
                    if (d == '\'' && !q2) q1 = !q1; else if (d == '"' && !q1) q2 = !q2;
                    if (d == '(') lvl++; else if (d == ')' && --lvl == 0) break;
                }
                if (lvl) { cx_weak(m, "unbalanced parentheses"); m->refused = 1; i = n; break; }
                char *raw = strndup(in + a0, e - a0);
                cx_buf args = { 0 };
                cx_buf_adds(&args, "");
                int weak_before = m->weak;
                if (depth >= 1) m->feat |= CXF_NEST;
                cx_ref_expand(m, raw, &args, depth + 1);
                free(raw);
                m->feat |= CXF_CALL;
                char *res = NULL;            /* NULL = nothing */
                char w[3][128]; int nw;
                if (custom >= 0) {
                    m->feat |= CXF_CUSTOM;
                    res = (char *) cx_customs[custom].fn(args.b);
                } else if (!strcmp(nm, "version")) res = strdup((char *) libast_program_version);
                else if (!strcmp(nm, "appname")) { size_t L = strlen((char *) libast_program_name) + strlen((char *) libast_program_version) + 2; res = malloc(L); snprintf(res, L, "%s-%s", libast_program_name, libast_program_version); }
                else if (!strcmp(nm, "get")) {
                    nw = cx_simple_words(args.b, w, 3);
                    if (nw != 1 && nw != 2) cx_weak(m, "get with other than one or two simple words");
                    else {
                        /* %get(name [default]): the stored value (even an empty one), else the default word if one was given */
                        if (m->store_tainted) cx_weak(m, "store tainted");
                        const char *v = cx_model_get(m, w[0]);
                        if (v) res = strdup(v); else { m->feat |= CXF_GET_MISS; if (nw == 2) res = strdup(w[1]); }
                        m->feat |= CXF_GET;
                    }
                } else if (!strcmp(nm, "put")) {
                    nw = cx_simple_words(args.b, w, 3);
                    if (nw != 2) { cx_weak(m, "put with other than two simple words"); m->store_tainted = 1; }
                    else { cx_model_put(m, w[0], w[1]); m->feat |= CXF_PUT; }
                } else if (!strcmp(nm, "random")) {
                    if (depth > 0 || m->nwild >= CX_MAXWILD || in[e + 1] != '|') cx_weak(m, "random not at top level before a | sentinel");
                    else if (cx_simple_words(args.b, w, 3) < 1) cx_weak(m, "random without simple words");
                    else { m->wild[m->nwild].pos = out->n; m->wild[m->nwild].kind = CX_W_ONEOF; m->wild[m->nwild].payload = strdup(args.b); m->nwild++; m->feat |= CXF_WILD; }
                } else if (!strcmp(nm, "dirscan")) {
                    if (depth > 0 || m->nwild >= CX_MAXWILD || in[e + 1] != '|') cx_weak(m, "dirscan not at top level before a | sentinel");
                    else if (cx_simple_words(args.b, w, 3) != 1) cx_weak(m, "dirscan without exactly one simple word");
                    else { m->wild[m->nwild].pos = out->n; m->wild[m->nwild].kind = CX_W_WORDSET; m->wild[m->nwild].payload = strdup(w[0]); m->nwild++; m->feat |= CXF_WILD; }
                } else { cx_weak(m, "exec"); }
                if (res) { if (!*res) m->feat |= CXF_EMPTYRES; cx_buf_adds(out, res); free(res); } else m->feat |= CXF_EMPTYRES;
                if (m->weak && !weak_before && strstr(in + i, "put")) m->store_tainted = 1;
                cx_buf_free(&args);
                i = e;
            }
            break;
        default:
            cx_buf_addc(out, c);
        }
    }
    if (out->n + (m->nwild ? 600 : 0) >= CONFIG_BUFF - 1) cx_weak(m, "output reaches the line-buffer limit");
    if (!out->b) cx_buf_adds(out, "");
}

/* does `line` contain anything the expander treats specially? */
static int cx_has_meta(const char *s) { return strpbrk(s, "~\\%`$\"'") != NULL; }

/* match an actual result against model text + wild segments.  files_in_dir(dir, out) supplies directory content. */
static int cx_words_equal_set(const char *got, size_t gl, char names[][64], int nn)
{
    int seen[64] = { 0 }; int cnt = 0;
    size_t i = 0;
    while (i < gl) {
        while (i < gl && got[i] == ' ') i++;
        if (i >= gl) break;
        size_t s = i; while (i < gl && got[i] != ' ') i++;
        int f = -1;
        for (int k = 0; k < nn; k++) if (strlen(names[k]) == i - s && !memcmp(names[k], got + s, i - s)) f = k;
        if (f < 0 || seen[f]) return 0;
        seen[f] = 1; cnt++;
    }
    return cnt == nn;
}
/* returns NULL on match else description */
static const char *cx_match(cx_model *m, const char *exp, size_t en, const char *got)
{
    static char msg[900];
    size_t gi = 0, ei = 0, gl = strlen(got);
    for (int w = 0; w <= m->nwild; w++) {
        size_t upto = w < m->nwild ? m->wild[w].pos : en;
        size_t len = upto - ei;
        if (gl - gi < len || memcmp(got + gi, exp + ei, len)) {
            snprintf(msg, sizeof msg, "literal segment %d differs: expected %s got %s", w, vh_q(exp + ei, (long) len), vh_q(got + gi, (long) (gl - gi < len + 8 ? gl - gi : len + 8)));
            return msg;
        }
        gi += len; ei += len;
        if (w == m->nwild) break;
        /* wild: consume up to the '|' sentinel */
        const char *bar = memchr(got + gi, '|', gl - gi);
        if (!bar) { snprintf(msg, sizeof msg, "no | sentinel after wild segment %d in %s", w, vh_q(got + gi, (long) (gl - gi))); return msg; }
        size_t wl = (size_t) (bar - (got + gi));
        if (m->wild[w].kind == CX_W_ONEOF) {
            char ww[8][128]; int nw = cx_simple_words(m->wild[w].payload, ww, 8), ok = 0;
            for (int k = 0; k < nw && k < 8; k++) if (strlen(ww[k]) == wl && !memcmp(ww[k], got + gi, wl)) ok = 1;
            if (nw > 8) ok = 1;
            if (!ok) { snprintf(msg, sizeof msg, "%%random result %s is not one of the words %s", vh_q(got + gi, (long) wl), vh_qs(m->wild[w].payload)); return msg; }
        } else {
            char names[64][64]; int nn = 0;
            DIR *d = opendir(m->wild[w].payload);
            if (d) {
                struct dirent *e; struct stat st; char p[900];
                while ((e = readdir(d))) { snprintf(p, sizeof p, "%s/%s", m->wild[w].payload, e->d_name); if (!stat(p, &st) && S_ISREG(st.st_mode) && nn < 64) snprintf(names[nn++], 64, "%s", e->d_name); }
                closedir(d);
            }
            if (!cx_words_equal_set(got + gi, wl, names, nn)) { snprintf(msg, sizeof msg, "%%dirscan(%s) result %s is not the set of the %d regular files there", m->wild[w].payload, vh_q(got + gi, (long) wl), nn); return msg; }
        }
        gi += wl;
    }
    if (gi != gl) { snprintf(msg, sizeof msg, "trailing bytes after expected text: %s", vh_q(got + gi, (long) (gl - gi))); return msg; }
    return NULL;
}

/* ================================================================== event log (C09, C11) */
#define CX_MAXEV 40000
#define CX_TEXTCAP (4u << 20)
#define CX_OPAQUE ((uintptr_t) 1)       /* state produced by libast's own null handler: not asserted */
typedef struct { int ctx; char kind; uint32_t off, len; uintptr_t sin, sout;
                 const char *opt; size_t optlen;     /* expected events only: optional delivery of (a prefix of) this over-long line */
                 int anytext;                        /* expected events only: the line must be delivered, its text is not judged */
} cx_ev;
static cx_ev cx_evs[CX_MAXEV]; static int cx_nev;
static cx_ev cx_exp[CX_MAXEV]; static int cx_nexp;
static char *cx_text, *cx_etext; static size_t cx_ntext, cx_netext;
static uintptr_t cx_token = 0x100000;
static const char *cx_handler_problem;      /* first table-invariant problem seen from inside a handler */
static int cx_ev_overflow;
static long cx_handler_calls;

static void cx_log_reset(void)
{
    if (!cx_text) { cx_text = malloc(CX_TEXTCAP); cx_etext = malloc(CX_TEXTCAP); }
    cx_nev = cx_nexp = 0; cx_ntext = cx_netext = 0; cx_handler_problem = NULL; cx_ev_overflow = 0;
}
static void *cx_log(int hid, char *buff, void *state)
{
    struct spifconf_verif_state st;
    const char *p = cx_tables_ok(&st);
    if (p && !cx_handler_problem) { static char keep[220]; snprintf(keep, sizeof keep, "%s", p); cx_handler_problem = keep; }
    cx_handler_calls++;
    cx_token += 16;
    if (cx_nev >= CX_MAXEV) { cx_ev_overflow = 1; return (void *) cx_token; }
    /* every fifth event of a parse returns NULL as the new state (a legal state value: the next call must receive NULL, and an
     * END returning NULL must overwrite the enclosing context's state) */
    uintptr_t out = (cx_nev % 5 == 2) ? 0 : cx_token;
    if (!out) vh_count("handler_returned_null_state", 1);
    cx_ev *e = &cx_evs[cx_nev++];
    e->ctx = hid; e->sin = (uintptr_t) state; e->sout = out;
    if (buff && *buff == SPIFCONF_BEGIN_CHAR) { e->kind = 'B'; e->off = e->len = 0; }
    else if (buff && *buff == SPIFCONF_END_CHAR) { e->kind = 'E'; e->off = e->len = 0; }
    else {
        size_t l = buff ? strlen(buff) : 0;
        e->kind = buff ? 'T' : '?';
        if (cx_ntext + l + 1 > CX_TEXTCAP) { cx_ev_overflow = 1; l = 0; }
        e->off = (uint32_t) cx_ntext; e->len = (uint32_t) l;
        if (l) memcpy(cx_text + cx_ntext, buff, l);
        cx_ntext += l;
    }
    return (void *) out;
}
static void cx_expect(int ctx, char kind, const char *text, size_t l)
{
    if (cx_nexp >= CX_MAXEV) { cx_ev_overflow = 1; return; }
    cx_ev *e = &cx_exp[cx_nexp++];
    e->ctx = ctx; e->kind = kind; e->sin = e->sout = 0; e->opt = NULL; e->optlen = 0; e->anytext = 0;
    if (cx_netext + l + 1 > CX_TEXTCAP) { cx_ev_overflow = 1; l = 0; }
    e->off = (uint32_t) cx_netext; e->len = (uint32_t) l;
    if (l) memcpy(cx_etext + cx_netext, text, l);
    cx_netext += l;
}

/* A line longer than the line buffer cannot be delivered whole by a fixed-buffer reader.  The tree reports it and drops it; a reader
 * that delivered it (whole, or cut to what fits) would satisfy "exactly once" as well.  Both are accepted -- what is never accepted is
 * anything ELSE coming out of such a line (its tail read as a further line). */
static void cx_expect_optional_long(int ctx, const char *line, size_t l)
{
    cx_expect(ctx, 'T', NULL, 0);
    if (cx_nexp > 0) { cx_exp[cx_nexp - 1].opt = line; cx_exp[cx_nexp - 1].optlen = l; }
}

/* 320 distinct handler functions so that the handler itself knows which context it serves */
#define CX_H1(n) static void *cx_h##n(spif_charptr_t b, void *s) { return cx_log(0x##n, b, s); }
#define CX_H16(p) CX_H1(p##0) CX_H1(p##1) CX_H1(p##2) CX_H1(p##3) CX_H1(p##4) CX_H1(p##5) CX_H1(p##6) CX_H1(p##7) \
                  CX_H1(p##8) CX_H1(p##9) CX_H1(p##a) CX_H1(p##b) CX_H1(p##c) CX_H1(p##d) CX_H1(p##e) CX_H1(p##f)
CX_H16(00) CX_H16(01) CX_H16(02) CX_H16(03) CX_H16(04) CX_H16(05) CX_H16(06) CX_H16(07) CX_H16(08) CX_H16(09)
CX_H16(0a) CX_H16(0b) CX_H16(0c) CX_H16(0d) CX_H16(0e) CX_H16(0f) CX_H16(10) CX_H16(11) CX_H16(12) CX_H16(13)
#define CX_R1(n) cx_h##n,
#define CX_R16(p) CX_R1(p##0) CX_R1(p##1) CX_R1(p##2) CX_R1(p##3) CX_R1(p##4) CX_R1(p##5) CX_R1(p##6) CX_R1(p##7) \
                  CX_R1(p##8) CX_R1(p##9) CX_R1(p##a) CX_R1(p##b) CX_R1(p##c) CX_R1(p##d) CX_R1(p##e) CX_R1(p##f)
static ctx_handler_t cx_handlers[] = {
    CX_R16(00) CX_R16(01) CX_R16(02) CX_R16(03) CX_R16(04) CX_R16(05) CX_R16(06) CX_R16(07) CX_R16(08) CX_R16(09)
    CX_R16(0a) CX_R16(0b) CX_R16(0c) CX_R16(0d) CX_R16(0e) CX_R16(0f) CX_R16(10) CX_R16(11) CX_R16(12) CX_R16(13)
};
#define CX_NHANDLERS 320

/* ================================================================== registered-context model */
#define CX_MAXCTX 320
typedef struct {
    char names[CX_MAXCTX][24];   /* names[id]; id 0 is "null" */
    int hid[CX_MAXCTX];          /* handler number serving id, -1 = libast's built-in null handler */
    int n;                       /* number of ids in use (>=1) */
} cx_ctxs;
static void cx_ctxs_init(cx_ctxs *c) { c->n = 1; strcpy(c->names[0], "null"); c->hid[0] = -1; }
/* returns the id the model expects */
static int cx_ctxs_register(cx_ctxs *c, const char *name, int hid)
{
    if (!strcasecmp(name, "null")) { c->hid[0] = hid; snprintf(c->names[0], 24, "%s", name); return 0; }
    if (c->n >= CX_MAXCTX) return -1;
    snprintf(c->names[c->n], 24, "%s", name); c->hid[c->n] = hid;
    return c->n++;
}
static int cx_ctxs_lookup(const cx_ctxs *c, const char *name)
{
    for (int i = 0; i < c->n; i++) if (!strcasecmp(c->names[i], name)) return i;
    return 0;
}

/* ================================================================== A.5 line-grammar model
 * Files live in a small in-memory table (the generator registers what it wrote).
 */
#define CX_MAXFILES 320
typedef struct { char name[48]; cx_buf data; } cx_file;
static cx_file cx_files[CX_MAXFILES]; static int cx_nfiles;
static void cx_files_reset(void) { for (int i = 0; i < cx_nfiles; i++) cx_buf_reset(&cx_files[i].data); cx_nfiles = 0; }
static cx_file *cx_file_new(const char *name)
{
    if (cx_nfiles >= CX_MAXFILES) return NULL;
    cx_file *f = &cx_files[cx_nfiles++];
    snprintf(f->name, sizeof f->name, "%s", name);
    cx_buf_reset(&f->data); cx_buf_adds(&f->data, "");
    return f;
}
static cx_file *cx_file_find(const char *name)
{
    for (int i = 0; i < cx_nfiles; i++) if (!strcmp(cx_files[i].name, name)) return &cx_files[i];
    return NULL;
}
static void cx_files_write_all(void) { for (int i = 0; i < cx_nfiles; i++) cx_write_file(cx_files[i].name, cx_files[i].data.b, cx_files[i].data.n); }

typedef struct {
    const cx_ctxs *ctxs;
    int stack[600]; int depth;          /* context ids; stack[0] = 0 (null) */
    cx_model *xm;                       /* expansion model (env, store); may be NULL when no metacharacters are generated */
    int weak; const char *weak_why;     /* the well-formed-population assumptions were broken */
    long lines, texts, begins, ends, surplus_ends, includes, comments, unknown_begins, max_depth, max_fdepth, pct_lines, cyclic_includes;
    const void *open_files[300]; int n_open;    /* files being read right now: an %include of one of them is refused (each line exactly once) */
} cx_lmodel;

static void cx_lm_weak(cx_lmodel *lm, const char *why) { if (!lm->weak) { lm->weak = 1; lm->weak_why = why; } }

static int cx_is_space(char c) { return c == ' ' || c == '\t' || c == '\n' || c == '\v' || c == '\f' || c == '\r'; }

static void cx_model_file(cx_lmodel *lm, const cx_file *f, int fdepth)
{
    const char *p = f->data.b, *end = f->data.b + f->data.n;
    if (fdepth > lm->max_fdepth) lm->max_fdepth = fdepth;
    if (fdepth > 255) { cx_lm_weak(lm, "include depth beyond the 8-bit file index"); return; }
    if (f->data.n == 0 && fdepth > 0) { vh_count("empty_included_files", 1); return; }     /* a zero-length included file has no lines: nothing is delivered, and it must be closed again */
    if (lm->n_open < 300) lm->open_files[lm->n_open] = f;
    lm->n_open++;
    /* first line: magic, consumed by the opener */
    const char *nl = memchr(p, '\n', (size_t) (end - p));
    if (!nl) { cx_lm_weak(lm, "file without a complete magic line"); lm->n_open--; return; }
    p = nl + 1;
    while (p < end) {
        nl = memchr(p, '\n', (size_t) (end - p));
        if (!nl) { cx_lm_weak(lm, "last line without newline"); nl = end; }
        size_t raw = (size_t) (nl - p);
        if (raw + 1 >= CONFIG_BUFF) {
            /* over-long: a comment stays a comment (nothing delivered); a generated over-long text line is optional (see cx_expect_optional_long) */
            lm->lines++;
            const char *q = p;
            p = nl < end ? nl + 1 : end;
            if (*q == '#') { lm->comments++; continue; }
            if (raw > 9 && !memcmp(q, "OVERLONG-", 9) && !memchr(q, 0, raw)) { cx_expect_optional_long(lm->stack[lm->depth], q, raw); continue; }
            cx_lm_weak(lm, "line at or over the limit");
            continue;
        }
        if (memchr(p, 0, raw)) cx_lm_weak(lm, "NUL byte in line");
        lm->lines++;
        const char *s = p, *e = nl;
        p = nl < end ? nl + 1 : end;
        if (raw == 0 || *s == '#' || *s == '<' || *s == 0) { lm->comments++; continue; }
        while (s < e && cx_is_space(*s)) s++;
        while (e > s && cx_is_space(e[-1])) e--;
        if (s == e || *s == '#') { lm->comments++; continue; }
        size_t l = (size_t) (e - s);
        char *line = strndup(s, l);
        if (*line == '%') {
            lm->pct_lines++;
            const char *w = line + 1; while (*w && cx_is_space(*w)) w++;
            if (!strncasecmp(w, "include ", 8)) {
                /* file name: second word after expansion; the well-formed population uses a plain word */
                const char *fn = w + 8; while (*fn && cx_is_space(*fn)) fn++;
                char name[64]; size_t k = 0;
                while (fn[k] && !cx_is_space(fn[k]) && k < 63) { name[k] = fn[k]; k++; }
                name[k] = 0;
                if (cx_has_meta(line + 1)) {
                    /* the line is expanded before the file name is taken from it: ${INCP}7.cfg names inc7.cfg when INCP=inc */
                    if (!lm->xm) cx_lm_weak(lm, "metacharacters in an include line");
                    else {
                        /* (the text after the directive word is expanded on its own: "%include" itself is outside the expander model's strong language) */
                        cx_buf o = { 0 }; cx_model_begin_expansion(lm->xm); cx_ref_expand(lm->xm, fn, &o, 0);
                        if (lm->xm->weak) cx_lm_weak(lm, lm->xm->weak_why);
                        const char *q = o.b ? o.b : "";
                        while (*q && cx_is_space(*q)) q++;
                        k = 0; while (q[k] && !cx_is_space(q[k]) && k < 63) { name[k] = q[k]; k++; }
                        name[k] = 0;
                        cx_buf_free(&o);
                        vh_count("include_names_through_expansion", 1);
                    }
                }
                cx_file *inc = cx_file_find(name);
                lm->includes++;
                int already_open = 0;
                for (int q = 0; inc && q < lm->n_open && q < 300; q++) if (lm->open_files[q] == inc) already_open = 1;
                if (already_open) { lm->cyclic_includes++; vh_count("cyclic_include_lines", 1); }      /* refused: nothing is delivered for this line */
                else if (inc && fdepth >= 255) { vh_count("includes_refused_at_the_file_index_limit", 1); }   /* the 8-bit file index is used up (this file sits in slot 255): refused, nothing delivered */
                else if (inc) cx_model_file(lm, inc, fdepth + 1); else cx_lm_weak(lm, "include of a file that was not generated");
            } else if (!strncasecmp(w, "preproc ", 8)) {
                cx_lm_weak(lm, "preproc");
            } else {
                /* expanded for its side effects only */
                if (lm->xm) { cx_buf o = { 0 }; cx_model_begin_expansion(lm->xm); cx_ref_expand(lm->xm, line, &o, 0);
                              if (lm->xm->weak && !(lm->xm->refused && !strcasestr(line, "%put"))) cx_lm_weak(lm, lm->xm->weak_why);      /* a refused expansion without %put has no side effect */
                              cx_buf_free(&o); }
                else cx_lm_weak(lm, "directive line without an expansion model");
            }
        } else if (*line == 'b' && !strncasecmp(line, "begin ", 6)) {
            const char *w = line + 6; while (*w && cx_is_space(*w)) w++;
            char name[64]; size_t k = 0;
            while (w[k] && !cx_is_space(w[k]) && k < 63) { name[k] = w[k]; k++; }
            name[k] = 0;
            if (strpbrk(name, "\"'\\")) cx_lm_weak(lm, "quoting in a context name");
            int id = cx_ctxs_lookup(lm->ctxs, name);
            if (id == 0 && strcasecmp(name, "null")) lm->unknown_begins++;
            if (lm->depth >= 255) { cx_lm_weak(lm, "nesting beyond 255"); }
            if (lm->depth < 598) lm->stack[++lm->depth] = id;
            if (lm->depth > lm->max_depth) lm->max_depth = lm->depth;
            cx_expect(id, 'B', NULL, 0);
            lm->begins++;
        } else if (*line == 'e' && (!strncasecmp(line, "end ", 4) || !strcasecmp(line, "end"))) {
            if (lm->depth > 0) { cx_expect(lm->stack[lm->depth], 'E', NULL, 0); lm->depth--; lm->ends++; }
            else lm->surplus_ends++;
        } else {
            if (cx_has_meta(line)) {
                if (lm->xm) {
                    cx_buf o = { 0 }; cx_model_begin_expansion(lm->xm); cx_ref_expand(lm->xm, line, &o, 0);
                    if (lm->xm->refused && !strcasestr(line, "%put")) {
                        /* a call whose parentheses do not balance cannot be expanded: the line is still a line of the file and is delivered once --
                         * with which text (raw, partly expanded) the statement does not say */
                        cx_expect(lm->stack[lm->depth], 'T', line, l);
                        if (cx_nexp > 0) cx_exp[cx_nexp - 1].anytext = 1;
                        vh_count("lines_whose_expansion_is_refused", 1);
                    } else {
                        if (lm->xm->weak || lm->xm->nwild) cx_lm_weak(lm, lm->xm->weak ? lm->xm->weak_why : "wild built-in in a delivered line");
                        cx_expect(lm->stack[lm->depth], 'T', o.b, o.n);
                    }
                    cx_buf_free(&o);
                } else { cx_lm_weak(lm, "metacharacters without an expansion model"); cx_expect(lm->stack[lm->depth], 'T', line, l); }
            } else cx_expect(lm->stack[lm->depth], 'T', line, l);
            lm->texts++;
        }
        free(line);
    }
    lm->n_open--;
}
static void cx_lm_init(cx_lmodel *lm, const cx_ctxs *ctxs, cx_model *xm, int entry_depth_ids[], int entry_depth)
{
    memset(lm, 0, sizeof *lm);
    lm->ctxs = ctxs; lm->xm = xm; lm->stack[0] = 0; lm->depth = 0;
    for (int i = 1; i <= entry_depth; i++) lm->stack[i] = entry_depth_ids[i];
    lm->depth = entry_depth;
}

/* Compare the logged events with the expected list, then check state threading.
 * slot_state[] / *pdepth carry the model's idea of the context-state stack across parses (in/out).
 * Returns NULL if fine; otherwise key in *key and a description. */
typedef struct { uintptr_t state[600]; int id[600]; int depth; } cx_slots;
static void cx_slots_init(cx_slots *s) { memset(s, 0, sizeof *s); s->state[0] = 0; s->id[0] = 0; s->depth = 0; }

static const char *cx_compare_events(const cx_ctxs *ctxs, cx_slots *sl, const char **key, long *nchecked)
{
    static char msg[1200];
    int ai = 0;
    for (int xi = 0; xi < cx_nexp; xi++) {
        cx_ev *x = &cx_exp[xi];
        int hid = ctxs->hid[x->ctx];
        cx_ev *a = NULL;
        if (x->opt) {
            /* delivered at all?  only if the next event is a text for this handler that is a non-empty prefix of the line */
            cx_ev *n = ai < cx_nev ? &cx_evs[ai] : NULL;
            if (hid >= 0 && n && n->kind == 'T' && n->ctx == hid && n->len >= 8 && n->len <= x->optlen && !memcmp(cx_text + n->off, x->opt, n->len)) {
                a = n; ai++; vh_count("overlong_lines_delivered", 1);
                uintptr_t want_in = sl->state[sl->depth];
                if (want_in != CX_OPAQUE && a->sin != want_in) { *key = "state:text"; snprintf(msg, sizeof msg, "event #%d (over-long line): handler must receive the state it returned last", xi); return msg; }
                sl->state[sl->depth] = a->sout;
            } else vh_count("overlong_lines_dropped", 1);
            continue;
        }
        if (hid >= 0) {
            if (ai >= cx_nev) {
                *key = "events:missing";
                snprintf(msg, sizeof msg, "expected event #%d (%c ctx=%s text=%s) was never delivered; %d delivered, %d expected", xi, x->kind, ctxs->names[x->ctx], vh_q(cx_etext + x->off, x->len), cx_nev, cx_nexp);
                return msg;
            }
            a = &cx_evs[ai++];
            if (a->kind != x->kind || a->ctx != hid || (!x->anytext && (a->len != x->len || memcmp(cx_text + a->off, cx_etext + x->off, x->len)))) {
                *key = a->kind != x->kind ? "events:kind" : a->ctx != hid ? "events:context" : "events:text";
                snprintf(msg, sizeof msg, "event #%d: expected (%c handler=%d ctx=%s text=%s) got (%c handler=%d text=%s)", xi, x->kind, hid, ctxs->names[x->ctx],
                         vh_q(cx_etext + x->off, x->len), a->kind, a->ctx, vh_q(cx_text + a->off, a->len));
                return msg;
            }
        }
        /* state threading */
        uintptr_t want_in, out = a ? a->sout : CX_OPAQUE;
        const char *what;
        if (x->kind == 'B') { want_in = sl->state[sl->depth]; what = "begin call must receive the enclosing context's state"; }
        else { want_in = sl->state[sl->depth]; what = x->kind == 'T' ? "handler must receive the state it returned last" : "end call must receive the context's current state"; }
        if (a && want_in != CX_OPAQUE) {
            (*nchecked)++;
            if (a->sin != want_in) {
                *key = x->kind == 'B' ? "state:begin" : x->kind == 'T' ? "state:text" : "state:end";
                snprintf(msg, sizeof msg, "event #%d (%c ctx=%s text=%s): %s: got 0x%lx expected 0x%lx", xi, x->kind, ctxs->names[x->ctx], vh_q(cx_etext + x->off, x->len), what,
                         (unsigned long) a->sin, (unsigned long) want_in);
                return msg;
            }
        }
        if (x->kind == 'B') { if (sl->depth < 598) sl->depth++; sl->id[sl->depth] = x->ctx; sl->state[sl->depth] = out; }
        else if (x->kind == 'T') sl->state[sl->depth] = out;
        else { if (sl->depth > 0) sl->depth--; sl->state[sl->depth] = out; }
    }
    if (ai != cx_nev) {
        cx_ev *a = &cx_evs[ai];
        *key = "events:extra";
        snprintf(msg, sizeof msg, "unexpected extra event #%d (%c handler=%d text=%s); %d delivered, expected list exhausted", ai, a->kind, a->ctx, vh_q(cx_text + a->off, a->len), cx_nev);
        return msg;
    }
    return NULL;
}

/* ================================================================== small generator helpers */
static const char CX_ORD[] = "abcdefghijklmnopqrstuvwxyzABCDEFGHIJKLMNOPQRSTUVWXYZ0123456789 _-.,:;=+/@!?*&^[]{}|<>#";
static void cx_gen_ord(cx_buf *b, int n, int spaces)
{
    for (int i = 0; i < n; i++) {
        char c = CX_ORD[vh_below(sizeof CX_ORD - 1)];
        if (c == ' ' && !spaces) c = 'x';
        cx_buf_addc(b, c);
    }
}
static void cx_gen_ws(cx_buf *b, int maxn)
{
    int n = (int) vh_below((uint64_t) maxn + 1);
    for (int i = 0; i < n; i++) cx_buf_addc(b, vh_coin(80) ? ' ' : vh_coin(70) ? '\t' : "\r\v\f"[vh_below(3)]);
}
/* ================================================================== generator of well-formed config trees (C09; base material for C11) */
typedef struct {
    const cx_ctxs *ctxs;
    int n_reg, expansion;
    int depth, target_depth, ramping, files_left, chain_left, max_level, next_file_no;
    int inc_through_env;                /* the environment has INCP=inc: some %include lines spell their file name through it */
    int overlong_left;                  /* how many over-long lines this tree may still get */
    int cycles;                         /* also generate %include lines that name a file already being read */
    long lines_emitted, line_budget;
    char magic[64];
} cx_gen_t;
static cx_gen_t cx_g;
static const char *CX_UNKNOWN[] = { "nosuch", "ghost", "x9", "alphax", "alph", "gam", "c1", "et" };      /* incl. proper prefixes of names that may be registered (alpha, gamma, c1x, eta): unknown all the same */

static const char *cx_gen_ctx_name(void)
{
    static char buf[32];
    int r = (int) vh_below(100);
    if (r < 70 || cx_g.n_reg == 0) {
        if (cx_g.n_reg == 0 || cx_g.ctxs->n < 2) return CX_UNKNOWN[vh_below(8)];
        int id = 1 + (int) vh_below((uint64_t) (cx_g.ctxs->n - 1));
        snprintf(buf, sizeof buf, "%s", cx_g.ctxs->names[id]);
        if (vh_coin(8)) for (char *p = buf; *p; p++) *p = (char) toupper((unsigned char) *p);    /* documented: case-insensitive */
        return buf;
    }
    if (r < 90) return CX_UNKNOWN[vh_below(8)];
    return "null";
}
static void cx_gen_line(cx_file *f, const char *body)
{
    cx_gen_ws(&f->data, vh_coin(30) ? 4 : 0);
    cx_buf_adds(&f->data, body);
    cx_gen_ws(&f->data, vh_coin(30) ? 4 : 0);
    cx_buf_addc(&f->data, '\n');
    cx_g.lines_emitted++;
}
static void cx_gen_begin(cx_file *f)
{
    cx_buf b = { 0 };
    static const char *KW[] = { "begin", "begin", "begin", "begin", "bEGIN", "beGin" };
    cx_buf_adds(&b, KW[vh_below(6)]);
    cx_buf_addc(&b, ' ');
    if (vh_coin(15)) cx_buf_adds(&b, vh_coin(50) ? " " : "\t ");
    cx_buf_adds(&b, cx_gen_ctx_name());
    if (vh_coin(10)) { cx_buf_addc(&b, ' '); cx_gen_ord(&b, (int) vh_range(1, 8), 1); }
    cx_gen_line(f, b.b);
    cx_buf_free(&b);
    cx_g.depth++;
}
static void cx_gen_end(cx_file *f)
{
    static const char *E[] = { "end", "end", "end", "end alpha", "end  ", "eND", "end junk junk", "enD x" };
    cx_gen_line(f, E[vh_below(8)]);
    if (cx_g.depth > 0) cx_g.depth--;
}
static void cx_gen_text(cx_file *f)
{
    cx_buf b = { 0 };
    int r = (int) vh_below(100);
    if (r < 8) {
        static const char *NM[] = { "begin", "beginx foo", "ending", "endx", "Begin alpha", "End", "b", "e", "begin\talpha", "endalpha", "END", "bend over", "e nd" };
        cx_buf_adds(&b, NM[vh_below(13)]);
    } else if (cx_g.expansion && r < 45) {
        /* joint sub-population with C10: a few expansion constructs in delivered lines */
        int n = (int) vh_range(1, 4);
        for (int i = 0; i < n; i++) {
            switch ((int) vh_below(7)) {
            case 0: cx_buf_adds(&b, "$A"); break;
            case 1: cx_buf_adds(&b, "${FOO}"); break;
            case 2: cx_buf_adds(&b, "$(NOPE)"); break;
            case 3: cx_buf_adds(&b, vh_coin(50) ? "\\t" : "\\\\"); break;
            case 4: if (vh_coin(12)) { cx_buf_adds(&b, vh_coin(50) ? "%version( oops" : "%get(%appname()"); i = n; } else cx_buf_adds(&b, "%get(k1)"); break;
            case 5: cx_buf_adds(&b, vh_coin(50) ? "'$A'" : "'\"' ~/y"); break;          /* a double quote inside single quotes is plain text: what follows is still unquoted */
            default: cx_buf_adds(&b, "~/x"); break;
            }
            cx_buf_addc(&b, ' ');
            cx_gen_ord(&b, (int) vh_range(1, 6), 0);
        }
    } else {
        static const char *KEYS[] = { "font", "color", "bind", "geometry", "title", "exec_path", "background", "enabled", "x" };
        if (vh_coin(50)) { cx_buf_adds(&b, KEYS[vh_below(9)]); cx_buf_addc(&b, ' '); }
        if (cx_g.cycles && cx_g.overlong_left > 0 && vh_below(150) == 0) {
            /* longer than the line buffer, by one byte up to several buffers (1, 2, 3 and 4 reads of the buffer size, and their edges):
             * a comment, or a text line that starts with a unique head */
            static const int OVER[] = { 20479, 20480, 20481, 30000, 40957, 40958, 40959, 40960, 50000, 61436, 61437, 61438, 70000, 81916, 81917 };
            int want = OVER[vh_below(15)], comment = vh_coin(40);
            cx_buf_reset(&b);
            if (comment) cx_buf_adds(&b, "# "); else { char h[32]; snprintf(h, sizeof h, "OVERLONG-%d-", cx_g.overlong_left); cx_buf_adds(&b, h); }
            while ((int) b.n < want) cx_buf_addc(&b, "abcdefghijklmnopqrstuvwxyz0123456789 "[(b.n * 7 + 3) % 37]);
            if (b.b[b.n - 1] == ' ') b.b[b.n - 1] = 'z';
            cx_g.overlong_left--;
            vh_count(comment ? "overlong_comment_lines" : "overlong_text_lines", 1);
            cx_buf_adds(&f->data, b.b); cx_buf_addc(&f->data, '\n'); cx_g.lines_emitted++;
            cx_buf_free(&b);
            return;
        }
        if (cx_g.cycles && vh_coin(2)) {
            /* the longest lines that still fit the line buffer (CONFIG_BUFF - 2 characters + newline): ordinary lines, delivered once */
            static const int LONG[] = { 20478, 20477, 20470, 16384, 20478 };
            int want = LONG[vh_below(5)];
            while ((int) b.n < want) cx_buf_addc(&b, "abcdefghijklmnopqrstuvwxyz0123456789"[(b.n * 7 + 3) % 36]);
            vh_count("lines_at_the_length_limit", 1);
            /* written without surrounding blanks so that the raw line has exactly this length */
            cx_buf_adds(&f->data, b.b); cx_buf_addc(&f->data, '\n'); cx_g.lines_emitted++;
            cx_buf_free(&b);
            return;
        } else cx_gen_ord(&b, (int) vh_range(1, vh_coin(5) ? 300 : 30), 1);
    }
    cx_gen_line(f, b.b);
    cx_buf_free(&b);
}
static void cx_gen_comment(cx_file *f)
{
    static const char *C[] = { "\n", "\n", "# comment begin alpha\n", "   \t# indented comment\n", "<something that looks like a magic line>\n", "#\n", "  \t \n" };
    cx_buf_adds(&f->data, C[vh_below(7)]);
    cx_g.lines_emitted++;
}
static void cx_gen_file(cx_file *f, int level);
static void cx_gen_include(cx_file *f, int level)
{
    char name[48], line[80];
    snprintf(name, sizeof name, "inc%d.cfg", cx_g.next_file_no++);
    cx_file *inc = cx_file_new(name);          /* cx_files[] is a static array: f stays valid */
    if (!inc) return;
    if (cx_g.expansion && cx_g.inc_through_env && !strncmp(name, "inc", 3) && vh_coin(35)) snprintf(line, sizeof line, "%%include %s%s", vh_coin(50) ? "${INCP}" : "$(INCP)", name + 3);
    else snprintf(line, sizeof line, "%%include %s", name);
    cx_gen_line(f, line);
    if (cx_g.cycles && vh_coin(12)) return;          /* leave the included file zero-length */
    cx_gen_file(inc, level + 1);
}
static cx_file *cx_gen_anc[16];        /* files being generated, by include level */
static void cx_gen_file(cx_file *f, int level)
{
    cx_buf_adds(&f->data, cx_g.magic);
    if (level < 16) cx_gen_anc[level] = f;
    if (level > cx_g.max_level) cx_g.max_level = level;
    int n = (int) vh_range(0, level == 0 ? 40 : 14);
    int chain_here = cx_g.chain_left > 0;          /* this file must include the next link of the chain */
    int chain_at = chain_here ? (int) vh_below((uint64_t) n + 1) : -1;
    if (chain_here) cx_g.chain_left--;
    for (int i = 0; i <= n; i++) {
        if (i == chain_at) { cx_gen_include(f, level); continue; }
        if (i == n) break;
        if (cx_g.lines_emitted > cx_g.line_budget) break;
        if (cx_g.ramping && cx_g.depth >= cx_g.target_depth) cx_g.ramping = 0;
        if (cx_g.ramping && vh_coin(85)) { cx_gen_begin(f); i--; continue; }      /* ramp lines do not count against n */
        int r = (int) vh_below(100);
        if (r < 42) cx_gen_text(f);
        else if (r < 54) cx_gen_comment(f);
        else if (r < 66) { if (cx_g.depth < cx_g.target_depth + 2 && cx_g.depth < 255) cx_gen_begin(f); else cx_gen_text(f); }
        else if (r < 80) { if (cx_g.depth > 0) cx_gen_end(f); else if (vh_coin(25)) cx_gen_end(f); else cx_gen_text(f); }
        else if (r < 86 && cx_g.files_left > 0 && level < 6 && !chain_here) { cx_g.files_left--; cx_gen_include(f, level); }
        else if (r < 87 && cx_g.cycles && level < 16) {     /* %include of the file itself or of a file that is including it: refused, delivered once */
            char l[80]; snprintf(l, sizeof l, "%%include %s", cx_gen_anc[vh_below((uint64_t) level + 1)]->name); cx_gen_line(f, l);
        }
        else if (r < 89 && cx_g.expansion) { char l[64]; snprintf(l, sizeof l, "%%put(k1 v%d)", (int) vh_below(1000)); cx_gen_line(f, l); }
        else cx_gen_text(f);
    }
}
/* whole tree: returns the main file.  Caller sets cx_g.{ctxs,n_reg,expansion,target_depth,files_left,chain_left} first. */
static cx_file *cx_gen_tree(const char *mainname, int balanced, int first_file_no)
{
    snprintf(cx_g.magic, sizeof cx_g.magic, "<%s-%s>\n", libast_program_name, libast_program_version);
    cx_g.depth = 0; cx_g.ramping = cx_g.target_depth > 0; cx_g.lines_emitted = 0; cx_g.line_budget = 2500; cx_g.next_file_no = first_file_no; cx_g.max_level = 0;
    cx_file *mainf = cx_file_new(mainname);
    cx_gen_file(mainf, 0);
    while (cx_g.ramping && cx_g.depth < cx_g.target_depth) cx_gen_begin(mainf);       /* target not reached inside the files' line budgets */
    for (int i = (int) vh_below(4); i > 0; i--) cx_gen_text(mainf);
    if (balanced) { while (cx_g.depth > 0) { cx_gen_end(mainf); if (vh_coin(10)) cx_gen_text(mainf); } if (vh_coin(20)) cx_gen_end(mainf); }
    else if (cx_g.depth == 0) cx_gen_begin(mainf);
    if (vh_coin(50)) cx_gen_text(mainf);
    return mainf;
}

#endif
