/* C11: the config subsystem is memory-safe on arbitrary files and paths, spawns nothing unasked,
 * creates temp files safely, and can be initialised / used / freed any number of times.
 * DESIGN.md §4 C11.
 *
 * Case classes (rotating over the case index):
 *   BYTES  a main file of random / text-like random bytes
 *   MUT    a well-formed C09 tree with 1..4 hostile mutations (NUL bytes, no final newline, lines at/over the
 *          20480 limit, hundreds of begin lines, "%" alone, missing / cyclic %include, empty file, no magic line,
 *          %preproc, backquote / %exec, deep %get( nesting, byte flips, truncation)
 *   REG    1..300 registered contexts and 0..300 registered built-ins, then a well-formed tree (model-checked
 *          while the counts are inside the 8-bit id space)
 *   FIND   spifconf_find_file with file/dir/path strings up to and beyond PATH_MAX, 0..50 components,
 *          components of 32766..32769 and 65536+k bytes
 *   LIFE   lifecycle programs: (init, register*, parse*, %put, free) x 1..5, heap balance, cycle equality
 *   TEMP   spiftool_temp_file called 200 times
 * Oracles: sanitizers; logical termination budget on fgets; spawn monitor; descriptor census; file stack;
 * table capacities through the guarded accessor; heap balance (a residue counts only if it repeats when the
 * scenario is executed a second time); mode / uniqueness of temp files.
 */
#include "c0x_conf.h"
#include <time.h>

enum { K_BYTES, K_MUT, K_REG, K_FIND, K_LIFE, K_TEMP };
static const int KIND_TABLE[32] = { K_BYTES, K_MUT, K_MUT, K_LIFE, K_BYTES, K_MUT, K_REG, K_FIND, K_MUT, K_BYTES, K_LIFE, K_MUT, K_TEMP, K_REG, K_MUT, K_BYTES,
                                    K_MUT, K_BYTES, K_MUT, K_LIFE, K_MUT, K_BYTES, K_REG, K_MUT, K_FIND, K_MUT, K_LIFE, K_BYTES, K_MUT, K_MUT, K_BYTES, K_MUT };
static const char *NAMES[] = { "alpha", "beta", "gamma", "delta", "eps", "zeta", "eta", "theta", "iota", "kappa", "lambda", "mu" };

static int subsys_live, tmp_dirty;
static cx_ctxs ctxs;
static cx_model xmodel;
static char magic[64];

static void sub_init(void) { spifconf_init_subsystem(); subsys_live = 1; }
static void sub_free(void) { subsys_live = 0; spifconf_free_subsystem(); }

static int text_may_spawn(const char *p, size_t n)
{
    if (memchr(p, '`', n)) return 1;
    for (size_t i = 0; i + 4 <= n; i++) if (!strncasecmp(p + i, "exec", 4)) return 1;
    for (size_t i = 0; i + 7 <= n; i++) if (!strncasecmp(p + i, "preproc", 7)) return 1;
    return 0;
}
static int files_may_spawn(void)
{
    for (int i = 0; i < cx_nfiles; i++) if (text_may_spawn(cx_files[i].data.b, cx_files[i].data.n)) return 1;
    for (int k = 0; k < cx_nenv; k++) if (cx_env[k].val && text_may_spawn(cx_env[k].val, strlen(cx_env[k].val))) return 1;
    return 0;
}
static long files_total_lines(void)
{
    long n = 0;
    for (int i = 0; i < cx_nfiles; i++) { n += 2 + (long) (cx_files[i].data.n / CONFIG_BUFF); for (size_t k = 0; k < cx_files[i].data.n; k++) if (cx_files[i].data.b[k] == '\n') n++; }
    return n;
}

/* post-conditions common to every parse */
static void check_after_parse(const char *what, int fds_before, int may_spawn)
{
    struct spifconf_verif_state st;
    if (cx_budget_blown) vh_fail("parse:nontermination", "%s: more than %ld line reads for %ld lines of input in %d files (the reader was starved to force an unwind)", what, cx_fgets_budget, files_total_lines(), cx_nfiles);
    const char *p = cx_tables_ok(&st);
    if (p) vh_fail("tables", "%s: %s", what, p);
    if (cx_handler_problem) vh_fail("tables:in-handler", "%s: observed from inside a handler: %s", what, cx_handler_problem);
    VH_CHECK(fstate_idx == 0, "parse:file-stack", "%s: fstate_idx is %u after spifconf_parse returned", what, fstate_idx);
    int fds_after = cx_fd_count();
    VH_CHECK(fds_after == fds_before, "parse:files-open", "%s: %d descriptors open after the parse, %d before", what, fds_after, fds_before);
    if (!may_spawn) {
        VH_CHECK(cx_spawns == 0, "spawn", "%s: %ld spawn attempt(s) for text with neither backquote nor %%exec/%%preproc: %s", what, cx_spawns, cx_last_cmd);
        vh_count("no_spawn_checked", 1);
    } else if (cx_spawns) vh_count("spawn_monitor_hits", cx_spawns);
    vh_evals(5);
}

/* heap balance: run the scenario twice; a residue is a leak only if it repeats */
typedef void (*scen_fn)(void);
static void balance_twice(scen_fn f, const char *what)
{
    size_t a = vh_heap_bytes();
    f();
    size_t b = vh_heap_bytes();
    f();
    size_t c = vh_heap_bytes();
    long d1 = (long) b - (long) a, d2 = (long) c - (long) b;
    vh_evals(1); vh_count("heap_balance_checks", 1);
    if (vh_have_asan() && d1 > 0 && d2 > 0)
        vh_fail("lifecycle:leak", "%s: %ld bytes still allocated after spifconf_free_subsystem() (second execution of the same scenario: %ld bytes)", what, d1, d2);
}

/* ================================================================== BYTES */
static void gen_random_bytes(cx_buf *b, int n, int texty)
{
    static const char T[] = "abcdefgh  \t\n\n\n%$`~\"'\\(){}#<=-_./0123456789beginend";
    for (int i = 0; i < n; i++) {
        if (texty) {
            int r = (int) vh_below(100);
            if (r < 4) { static const char *W[] = { "begin ", "end\n", "%include ", "%put(", "%get(", "${", "$(", "%random(", "%version()", "\nbegin alpha\n", "%dirscan(", "inc1.cfg", "main.cfg" }; cx_buf_adds(b, W[vh_below(13)]); }
            else cx_buf_addc(b, T[vh_below(sizeof T - 1)]);
        } else cx_buf_addc(b, (char) vh_below(256));
    }
}
static int bytes_fds_before, bytes_may_spawn;
static void scen_parse_main(void)
{
    cx_log_reset(); cx_spawns = 0; cx_fgets_calls = 0; cx_budget_blown = 0;
    sub_init();
    spifconf_register_context((spif_charptr_t) "alpha", cx_handlers[1]);
    spifconf_register_context((spif_charptr_t) "beta", cx_handlers[2]);
    spif_charptr_t r = spifconf_parse((spif_charptr_t) "main.cfg", NULL, NULL);
    free(r);
    check_after_parse("hostile file", bytes_fds_before, bytes_may_spawn);
    sub_free();
}

/* ================================================================== MUT */
static void buf_insert(cx_buf *b, size_t at, const char *p, size_t n)
{
    cx_buf_reserve(b, n);
    memmove(b->b + at + n, b->b + at, b->n - at + 1);
    memcpy(b->b + at, p, n);
    b->n += n;
}
static size_t line_boundary(cx_buf *b, int after_magic)
{
    /* offset of the start of a random line (never inside the magic line when after_magic) */
    size_t cnt = 0;
    for (size_t i = 0; i < b->n; i++) if (b->b[i] == '\n') cnt++;
    if (!cnt) return b->n;
    size_t pick = after_magic ? 1 + vh_below(cnt) : vh_below(cnt + 1), seen = 0;
    if (pick == 0) return 0;
    for (size_t i = 0; i < b->n; i++) if (b->b[i] == '\n' && ++seen == pick) return i + 1;
    return b->n;
}
static void insert_line(cx_file *f, const char *line)
{
    size_t at = line_boundary(&f->data, 1);
    buf_insert(&f->data, at, "\n", 1);
    buf_insert(&f->data, at, line, strlen(line));
}
static int mutation_cyclic;
static void mutate_tree(void)
{
    int nm = (int) vh_range(1, 4);
    mutation_cyclic = 0;
    for (int m = 0; m < nm; m++) {
        cx_file *f = &cx_files[vh_below((uint64_t) cx_nfiles)];
        int fi = (int) (f - cx_files);
        int op = (int) vh_below(20);
        if (vh_coin(2) && cx_nfiles < 40) op = 20;
        vh_op("mutation %d on %s", op, f->name);
        vh_cov(vh_mix(0xC11, (uint64_t) op * 4 + (uint64_t) (fi == 0)));
        switch (op) {
        case 0: if (f->data.n) f->data.b[vh_below(f->data.n)] = 0; break;                                         /* NUL byte */
        case 1: if (f->data.n && f->data.b[f->data.n - 1] == '\n') { f->data.n--; f->data.b[f->data.n] = 0; } break;  /* no final newline */
        case 2: {                                                                                                   /* line at / over the limit */
            static const long L[] = { 20477, 20478, 20479, 20480, 20481, 20482, 40959, 40960, 40961, 61440 };
            long n = L[vh_below(10)];
            cx_buf l = { 0 };
            int flavour = (int) vh_below(4);
            if (flavour == 3) {            /* a backquoted command that is itself nearly a full line: "too long to execute" path */
                n = vh_range(20440, 20476);
                cx_buf_addc(&l, '`'); for (long i = 0; i < n - 2; i++) cx_buf_addc(&l, 'c'); cx_buf_addc(&l, '`');
                vh_count("overlong_commands", 1);
            }
            if (flavour == 1) cx_buf_adds(&l, "begin ");
            for (long i = (long) l.n; i < n; i++) cx_buf_addc(&l, flavour == 2 && i % 97 == 0 ? "$%~\\"[vh_below(4)] : 'x');
            insert_line(f, l.b);
            cx_buf_free(&l);
            vh_count("long_lines", 1);
            break;
        }
        case 3: { int n = (int) vh_range(100, 600); for (int i = 0; i < n; i++) insert_line(f, vh_coin(70) ? "begin alpha" : "begin nosuch"); vh_count("many_begins", 1); break; }
        case 4: { static const char *P[] = { "%", "% ", "%%", "%x", "%(", "%include", "%preproc", "% include", "%get", "%\t" }; insert_line(f, P[vh_below(10)]); vh_count("percent_lines", 1); break; }
        case 5: { static const char *P[] = { "%include missing.cfg", "%include  ", "%include \"q", "%include /nonexistent/dir/x.cfg", "%include .", "%include $NOPE", "%include ${", "%include tmp" }; insert_line(f, P[vh_below(8)]); vh_count("bad_includes", 1); break; }
        case 6: {                                                                                                   /* include of an existing file: later one (acyclic) or self/earlier (cyclic) */
            char l[80]; int cyc = vh_coin(50);
            int tgt = cyc ? (int) vh_below((uint64_t) fi + 1) : fi + 1 + (int) vh_below((uint64_t) (cx_nfiles - fi));
            if (tgt >= cx_nfiles) { tgt = fi; cyc = 1; }
            snprintf(l, sizeof l, "%%include %s", cx_files[tgt].name);
            insert_line(f, l);
            if (cyc && vh_coin(30)) insert_line(f, l);
            if (tgt <= fi) { mutation_cyclic = 1; vh_count("cyclic_includes", 1); } else vh_count("repeated_includes", 1);
            break;
        }
        case 7: f->data.n = 0; f->data.b[0] = 0; vh_count("empty_files", 1); break;                                  /* empty file */
        case 8: {                                                                                                   /* magic line removed / damaged */
            char *nl = memchr(f->data.b, '\n', f->data.n);
            int how = (int) vh_below(7);
            if (how >= 5 && nl && nl > f->data.b + 9) {       /* a version with a digit/letter run around the 128-byte scratch buffers of the version comparison */
                size_t at = 8; int run = (int) vh_range(120, 140); char c = how == 5 ? '7' : 'v';
                for (int i = 0; i < run; i++) buf_insert(&f->data, at, &c, 1);
                vh_count("magic_long_runs", 1);
                break;
            }
            if (nl && how == 0) { size_t k = (size_t) (nl - f->data.b) + 1; memmove(f->data.b, f->data.b + k, f->data.n - k + 1); f->data.n -= k; }
            else if (how == 1 && f->data.n > 3) f->data.b[1] = 'L';
            else if (how == 2 && nl) { *nl = ' '; }
            else if (how == 3 && nl && nl > f->data.b) { size_t at = (size_t) (nl - f->data.b); buf_insert(&f->data, at - 1, ".99.2", 5); }
            else if (nl && nl > f->data.b) { size_t at = (size_t) (nl - f->data.b) - 1; memmove(f->data.b + at, f->data.b + at + 1, f->data.n - at); f->data.n--; }      /* drop the '>' */
            vh_count("magic_damaged", 1);
            break;
        }
        case 9: { static const char *P[] = { "%preproc cat", "%preproc m4 -P", "% preproc x y z", "%preproc  '" }; insert_line(f, P[vh_below(4)]); vh_count("preproc_lines", 1); break; }
        case 10: { static const char *P[] = { "title `hostname`", "x %exec(uname -a) y", "`", "a `b", "%exec()", "%exec(", "'`x`'", "%EXEC(id)" }; insert_line(f, P[vh_below(8)]); vh_count("exec_lines", 1); break; }
        case 11: {                                                                                                  /* deep call nesting */
            static const int D[] = { 2, 10, 50, 120, 200, 300, 450, 1000, 3000 };
            int d = D[vh_below(9)];
            cx_buf l = { 0 };
            cx_buf_adds(&l, "v ");
            for (int i = 0; i < d; i++) cx_buf_adds(&l, d > 1000 || vh_coin(50) ? "%get(" : "%put(k ");
            if (d >= 450) vh_count("nesting_450_plus_lines", 1);
            cx_buf_adds(&l, "k1");
            int close = vh_coin(80) ? d : (int) vh_below((uint64_t) d + 1);
            for (int i = 0; i < close; i++) cx_buf_addc(&l, ')');
            insert_line(f, l.b);
            cx_buf_free(&l);
            vh_count("deep_nesting_lines", 1);
            break;
        }
        case 12: { for (int i = 0; i < 8 && f->data.n; i++) f->data.b[vh_below(f->data.n)] = (char) vh_below(256); break; }   /* byte flips */
        case 13: if (f->data.n) { f->data.n = vh_below(f->data.n); f->data.b[f->data.n] = 0; } break;                 /* truncation */
        case 14: { int n = (int) vh_range(3, 400); for (int i = 0; i < n; i++) insert_line(f, "end"); break; }
        case 15: { static const char *P[] = { "x ${", "x $(", "x \\", "x %", "x ${AAAAAAAAAAAAAAAAAAAAAAAAAAAAAAAAAAAAAAAAAAAAAAAAAAAAAAAAAAAAAAAAAAAAAAAAAAAAAAAAAAAAAAAAAAAAAAAAAAAAAAAAAAAAAAAAAAAAAAAAAAAAAAAAAAAAAAAAAAAAAAAAAAAAAAAAAAAAAAAAAAAAAAAAAAAAA}", "x '\\", "x %get(", "x %put(a", "x %random()", "x %dirscan()", "x %dirscan(.)", "x %dirscan(/nonexistent)", "x %get()", "x %put()", "x %put(a b c)", "x %get(a b c)", "x ~ $HOME ${HOME} $(HOME)", "x %dirscan(dfull)", "%dirscan(dfull) %dirscan(dfull)" }; { int pk = (int) vh_below(19); if (pk >= 17) vh_count("dirscan_full_buffer_lines", 1); insert_line(f, P[pk]); } vh_count("expander_edge_lines", 1); break; }
        case 16: { cx_buf l = { 0 }; gen_random_bytes(&l, (int) vh_range(1, 200), 1); for (size_t i = 0; i < l.n; i++) if (l.b[i] == '\n') l.b[i] = ' '; insert_line(f, l.b); cx_buf_free(&l); break; }
        case 17: insert_line(f, "\r"); insert_line(f, " \v\f\r "); break;
        case 18: { cx_buf l = { 0 }; gen_random_bytes(&l, (int) vh_range(1, 400), 0); buf_insert(&f->data, line_boundary(&f->data, 1), l.b, l.n); cx_buf_free(&l); break; }
        case 19: {                                                                                                  /* proper prefixes of built-in names: not calls, in particular never %exec */
            static const char *P[] = { "x %e(true)", "x %ex(true) y", "%exe(echo hi)", "v %EX(id)", "x %g(k1)", "x %pu(k1 v)", "x %ver() %app()", "x %r(a b) %d(.)" };
            insert_line(f, P[vh_below(8)]); vh_count("builtin_name_prefix_lines", 1); break;
        }
        case 20: {                                                                                                  /* include chain deeper than the 8-bit file index */
            int n = (int) vh_range(250, 262);
            char l[80], nm[48];
            for (int i = 0; i < n; i++) {
                snprintf(nm, sizeof nm, "deep%d.cfg", i);
                cx_file *d = cx_file_new(nm);
                if (!d) break;
                cx_buf_adds(&d->data, magic);
                if (vh_coin(30)) cx_buf_adds(&d->data, "going down\n");
                if (i + 1 < n) { snprintf(l, sizeof l, "%%include deep%d.cfg\n", i + 1); cx_buf_adds(&d->data, l); }
                if (vh_coin(30)) cx_buf_adds(&d->data, "coming up\n");
            }
            insert_line(f, "%include deep0.cfg");
            vh_count("include_chains_over_255", 1);
            break;
        }
        default: { char l[300]; memset(l, 'A', 299); l[299] = 0; memcpy(l, "begin ", 6); insert_line(f, l); break; }  /* very long context name */
        }
    }
}

/* spiftool_version_compare() (strings.c, C17's subject) overflows its 128-byte scratch buffers on long runs and compares
 * never-written buffers when the two versions start with characters of different classes; the opener feeds it the text
 * between "<libast-" and '>' of a file's first line.  Those defects are neither this property's subject nor this
 * harness' to repair, so every generated file whose first line carries the magic prefix gets a version made of digits
 * and dots (or none), at most 100 bytes long. */
static void keep_magic_lines_short(void)
{
    /* the version_compare defects are repaired in the tree now (see C17): magic lines stay hostile.  Set C11_NORMALISE_MAGIC=1 to get the old behaviour. */
    if (!getenv("C11_NORMALISE_MAGIC")) return;
    for (int i = 0; i < cx_nfiles; i++) {
        cx_buf *b = &cx_files[i].data;
        if (b->n < 8 || strncasecmp(b->b, "<libast-", 8)) continue;
        size_t e = 8;
        int ok = 1;
        while (e < b->n && b->b[e] != '>' && b->b[e] != '\n') { if (!(isdigit((unsigned char) b->b[e]) || b->b[e] == '.')) ok = 0; e++; }
        if (e > 8 && !isdigit((unsigned char) b->b[8])) ok = 0;
        if (e == 8 && (e >= b->n || b->b[e] != '>')) ok = 0;          /* without a '>' the line end itself becomes the version text */
        if (e > 100) ok = 0;
        if (!ok) {
            /* replace the damaged version text by a well-formed one, keep everything from the terminator on */
            memmove(b->b + 8, b->b + e, b->n - e + 1); b->n -= e - 8;
            buf_insert(b, 8, "0.8.1", 5);
            vh_count("magic_version_normalised", 1);
        }
    }
}

/* ================================================================== REG */
static int reg_nctx, reg_nbuiltin, reg_fds_before, reg_strong, reg_null;
static void do_registrations(void)
{
    cx_ctxs_init(&ctxs);
    if (reg_null) { spifconf_register_context((spif_charptr_t) "null", cx_handlers[0]); cx_ctxs_register(&ctxs, "null", 0); }
    for (int i = 0; i < reg_nctx; i++) {
        char nm[24];
        if (reg_nctx <= 12) snprintf(nm, sizeof nm, "%s", NAMES[i]); else snprintf(nm, sizeof nm, "c%d", i);
        int want = cx_ctxs_register(&ctxs, nm, ctxs.n < CX_NHANDLERS ? ctxs.n : 1);
        unsigned char id = spifconf_register_context((spif_charptr_t) nm, cx_handlers[want >= 0 && want < CX_NHANDLERS ? want : 1]);
        if (reg_strong) VH_CHECK(id == want, "register:id", "registering context #%d %s returned id %u, expected %d", i, nm, id, want);
    }
    for (int i = 0; i < reg_nbuiltin; i++) {
        if (i < CX_NCUSTOM) spifconf_register_builtin((char *) cx_customs[i].name, cx_customs[i].fn);
        else { char nm[24]; snprintf(nm, sizeof nm, "zb%d", i); spifconf_register_builtin(nm, cxb_fill); }
    }
    struct spifconf_verif_state st; const char *p = cx_tables_ok(&st);
    if (p) vh_fail("tables", "after %d context and %d built-in registrations: %s", reg_nctx, reg_nbuiltin, p);
}
static void scen_reg(void)
{
    cx_log_reset(); cx_spawns = 0; cx_fgets_calls = 0; cx_budget_blown = 0;
    sub_init();
    do_registrations();
    cx_lmodel lm;
    cx_model_begin_expansion(&xmodel); cx_model_reset_store(&xmodel); memset(&xmodel, 0, sizeof xmodel);
    xmodel.n_custom = reg_nbuiltin < CX_NCUSTOM ? reg_nbuiltin : CX_NCUSTOM;
    cx_lm_init(&lm, &ctxs, &xmodel, NULL, 0);
    cx_model_file(&lm, &cx_files[0], 1);
    if (lm.weak) vh_fail("harness:generator", "REG tree left the well-formed population: %s", lm.weak_why);
    spif_charptr_t r = spifconf_parse((spif_charptr_t) "main.cfg", NULL, NULL);
    VH_CHECK(r != NULL, "parse:return", "spifconf_parse returned NULL for a well-formed file (%d contexts, %d built-ins registered)", reg_nctx, reg_nbuiltin);
    free(r);
    check_after_parse("registration stress", reg_fds_before, 0);
    if (reg_strong) {
        cx_slots sl; cx_slots_init(&sl);
        const char *key = NULL; long nstate = 0;
        const char *d = cx_compare_events(&ctxs, &sl, &key, &nstate);
        if (d) vh_fail(key, "with %d contexts and %d built-ins registered: %s", reg_nctx, reg_nbuiltin, d);
        vh_evals(cx_nexp + nstate); vh_count("events_checked", cx_nexp);
    }
    /* a call of the last registered built-in must be found */
    if (reg_nbuiltin > 0 && reg_nbuiltin <= 240) {
        char *blk = malloc(CONFIG_BUFF);
        int last = reg_nbuiltin - 1;
        if (last < CX_NCUSTOM) snprintf(blk, CONFIG_BUFF, "[%%%s(x)]", cx_customs[last].name); else snprintf(blk, CONFIG_BUFF, "[%%zb%d(x)]", last);
        char *in = strdup(blk);
        spif_charptr_t e = spifconf_shell_expand(blk);
        const char *want = last == 0 ? "[X]" : last == 1 ? "[x]" : last == 2 ? "[]" : last == 3 ? "[]" : last == 4 ? "[xx]" : "[<f>]";
        int ok = e && !strcmp(e, want);
        char got[80]; snprintf(got, sizeof got, "%s", e ? e : "NULL");
        free(blk);
        if (!ok) { char inq[80]; snprintf(inq, sizeof inq, "%s", in); free(in); vh_fail("register:builtin-lookup", "%d built-ins registered: %s expands to %s, expected %s", reg_nbuiltin + 7, inq, got, want); }
        free(in);
        vh_evals(1);
    }
    cx_model_begin_expansion(&xmodel); cx_model_reset_store(&xmodel);
    sub_free();
}

/* ================================================================== LIFE */
static int life_cycles, life_ntrees, life_nreg, life_ncustom, life_null, life_fds_before, life_unbalanced_last, life_argv, life_null_at;
static uint64_t life_digest[8];
static void scen_life(void)
{
    for (int cyc = 0; cyc < life_cycles; cyc++) {
        vh_op("cycle %d: init, register %d contexts%s + %d built-ins, parse %d trees, free", cyc, life_nreg, life_null ? " + null" : "", life_ncustom, life_ntrees);
        sub_init();
        cx_ctxs_init(&ctxs);
        /* the null context's handler is replaced at a point of the registration sequence that is fixed per program (before, between or after the others) */
        for (int i = 0; i <= life_nreg; i++) {
            if (life_null && i == life_null_at) { unsigned char id0 = spifconf_register_context((spif_charptr_t) "null", cx_handlers[0]); cx_ctxs_register(&ctxs, "null", 0); VH_CHECK(id0 == 0, "register:id", "cycle %d: re-registering null after %d contexts returned id %u", cyc, i, id0); }
            if (i == life_nreg) break;
            int want = cx_ctxs_register(&ctxs, NAMES[i], ctxs.n); unsigned char id = spifconf_register_context((spif_charptr_t) NAMES[i], cx_handlers[want]); VH_CHECK(id == want, "register:id", "cycle %d: context %s got id %u, expected %d", cyc, NAMES[i], id, want);
        }
        cx_register_customs(life_ncustom);
        cx_model_begin_expansion(&xmodel); cx_model_reset_store(&xmodel); memset(&xmodel, 0, sizeof xmodel); xmodel.n_custom = life_ncustom;
        cx_slots sl; cx_slots_init(&sl);
        uint64_t dg = 0x11FE;
        if (life_argv) {
            /* lines from the command line that hold nothing (empty, a comment, a magic-looking line): no event, both stacks untouched */
            static const char *INERT[] = { "", "# alpha comment", "<libast-0.0>", "\n", "#" };
            for (int q = 0; q < 2; q++) {
                char *l0 = vh_heapstr(INERT[(life_nreg + q * 2 + life_ncustom) % 5]);
                cx_log_reset();
                vh_op("  cycle %d: spifconf_parse_line(NULL, %s) -- nothing to act on", cyc, vh_qs(l0));
                spifconf_parse_line(NULL, (spif_charptr_t) l0);
                free(l0);
                struct spifconf_verif_state st0; const char *p0 = cx_tables_ok(&st0);
                if (p0) vh_fail("tables", "after an empty line from argv: %s", p0);
                VH_CHECK(fstate_idx == 0 && st0.ctx_state_idx == 0, "parse_line:file-stack", "after spifconf_parse_line(NULL, <nothing to act on>): fstate_idx %u, context stack depth %u (entry values 0, 0)", fstate_idx, st0.ctx_state_idx);
                VH_CHECK(cx_nev == 0, "events:extra", "a line from argv with nothing to act on produced %d handler call(s)", cx_nev);
                vh_evals(1); vh_count("argv_lines_with_nothing_to_act_on", 1);
            }
            /* a line from the command line that names a context and nothing else: the context is opened and closed again (begin, end), both stacks back */
            {
                const char *cn1 = life_nreg ? NAMES[(life_ntrees + life_ncustom + 1) % life_nreg] : "nosuchctx";
                char *l1 = vh_heapstr(cn1);
                cx_log_reset();
                int id1 = cx_ctxs_lookup(&ctxs, cn1);
                cx_expect(id1, 'B', NULL, 0); cx_expect(id1, 'E', NULL, 0);
                vh_op("  cycle %d: spifconf_parse_line(NULL, %s) -- a context name and nothing else", cyc, vh_qs(l1));
                spifconf_parse_line(NULL, (spif_charptr_t) l1);
                free(l1);
                struct spifconf_verif_state st1; const char *p1 = cx_tables_ok(&st1);
                if (p1) vh_fail("tables", "after a one-word line from argv: %s", p1);
                VH_CHECK(fstate_idx == 0 && st1.ctx_state_idx == 0, "parse_line:file-stack", "after spifconf_parse_line(NULL, <context name only>): fstate_idx %u, context stack depth %u (entry values 0, 0)", fstate_idx, st1.ctx_state_idx);
                cx_slots s1; cx_slots_init(&s1); s1.state[0] = CX_OPAQUE;
                const char *key1 = NULL; long ns1 = 0;
                const char *d1 = cx_compare_events(&ctxs, &s1, &key1, &ns1);
                if (d1) vh_fail(key1, "cycle %d, one-word line from argv: %s", cyc, d1);
                for (int i = 0; i < cx_nev; i++) dg = vh_mix(dg, (uint64_t) cx_evs[i].kind * 1000 + (uint64_t) cx_evs[i].ctx);
                vh_evals(1); vh_count("argv_lines_with_a_context_name_only", 1);
            }
            /* one configuration line handed over from the command line (stream argument NULL, "<context> <line>"): a begin, the line and an
             * end for that context, and both stacks back where they were */
            const char *cn = life_nreg ? NAMES[(life_ntrees + life_ncustom) % life_nreg] : "nosuchctx";      /* the same in every cycle */
            char *l = malloc(CONFIG_BUFF); snprintf(l, CONFIG_BUFF, "%s argvkey value%d", cn, life_nreg);
            char want[64]; snprintf(want, sizeof want, "argvkey value%d", life_nreg);
            cx_log_reset();
            int id = cx_ctxs_lookup(&ctxs, cn);
            cx_expect(id, 'B', NULL, 0); cx_expect(id, 'T', want, strlen(want)); cx_expect(id, 'E', NULL, 0);
            vh_op("  cycle %d: spifconf_parse_line(NULL, %s) -- a line from the command line", cyc, vh_qs(l));
            spifconf_parse_line(NULL, (spif_charptr_t) l);
            free(l);
            vh_evals(1); vh_count("argv_lines", 1);
            struct spifconf_verif_state st; const char *p = cx_tables_ok(&st);
            if (p) vh_fail("tables", "after a line from argv: %s", p);
            VH_CHECK(fstate_idx == 0, "parse_line:file-stack", "fstate_idx is %u after spifconf_parse_line(NULL, line) returned (entry value 0)", fstate_idx);
            VH_CHECK(st.ctx_state_idx == 0, "parse_line:context-stack", "context stack depth %u after spifconf_parse_line(NULL, line) returned (entry value 0)", st.ctx_state_idx);
            cx_slots s2; cx_slots_init(&s2); s2.state[0] = CX_OPAQUE;
            const char *key = NULL; long nstate = 0;
            const char *d = cx_compare_events(&ctxs, &s2, &key, &nstate);
            if (d) vh_fail(key, "cycle %d, line from argv: %s", cyc, d);
            for (int i = 0; i < cx_nev; i++) { dg = vh_mix(dg, (uint64_t) cx_evs[i].kind * 1000 + (uint64_t) cx_evs[i].ctx); dg = vh_hash_bytes(cx_text + cx_evs[i].off, cx_evs[i].len, dg); }
        }
        for (int t = 0; t < life_ntrees; t++) {
            char name[32]; snprintf(name, sizeof name, "t%d_main.cfg", t);
            cx_file *mf = cx_file_find(name);
            cx_log_reset(); cx_spawns = 0; cx_fgets_calls = 0; cx_budget_blown = 0;
            cx_lmodel lm; cx_lm_init(&lm, &ctxs, &xmodel, NULL, 0);
            cx_model_file(&lm, mf, 1);
            if (lm.weak) vh_fail("harness:generator", "LIFE tree left the well-formed population: %s", lm.weak_why);
            vh_op("  cycle %d parse %s (%d expected events)", cyc, name, cx_nexp);
            spif_charptr_t r = spifconf_parse((spif_charptr_t) name, NULL, NULL);
            VH_CHECK(r != NULL, "parse:return", "cycle %d: spifconf_parse(%s) returned NULL", cyc, name);
            free(r);
            check_after_parse("lifecycle parse", life_fds_before, 0);
            sl.state[0] = t == 0 ? 0 : CX_OPAQUE;
            const char *key = NULL; long nstate = 0;
            const char *d = cx_compare_events(&ctxs, &sl, &key, &nstate);
            if (d) vh_fail(key, "cycle %d, parse %d: %s", cyc, t, d);
            vh_evals(cx_nexp + nstate); vh_count("events_checked", cx_nexp);
            for (int i = 0; i < cx_nev; i++) { dg = vh_mix(dg, (uint64_t) cx_evs[i].kind * 1000 + (uint64_t) cx_evs[i].ctx); dg = vh_hash_bytes(cx_text + cx_evs[i].off, cx_evs[i].len, dg); }
            /* %put in between, through the public expander */
            {
                char *blk = malloc(CONFIG_BUFF);
                snprintf(blk, CONFIG_BUFF, "%%put(k%d between%d)%%get(k1)", t, t);
                cx_buf o = { 0 }; cx_model_begin_expansion(&xmodel); cx_ref_expand(&xmodel, blk, &o, 0);
                spif_charptr_t e = spifconf_shell_expand(blk);
                int bad = !xmodel.weak && (!e || strcmp(e, o.b));
                char got[100]; snprintf(got, sizeof got, "%s", e ? e : "NULL");
                char want[100]; snprintf(want, sizeof want, "%s", o.b);
                cx_buf_free(&o); free(blk);
                if (bad) vh_fail("lifecycle:store", "cycle %d: %%put/%%get between parses gives %s, model %s", cyc, got, want);
                dg = vh_hash_str(got, dg);
            }
        }
        {
            struct spifconf_verif_state st; spifconf_verif_peek(&st);
            const char *p = cx_vars_ok(&st, NULL);
            if (p) vh_fail("varstore:order", "cycle %d: %s", cyc, p);
        }
        life_digest[cyc] = dg;
        if (cyc > 0 && life_digest[cyc] != life_digest[0]) vh_fail("lifecycle:cycle-differs", "cycle %d delivered different events / %%get results than cycle 0 for identical input (state left behind by spifconf_free_subsystem?)", cyc);
        cx_model_begin_expansion(&xmodel); cx_model_reset_store(&xmodel);
        sub_free();
        vh_count("lifecycle_cycles", 1);
    }
}

/* ================================================================== FIND */
static char *gen_pathstr(long len, int kind)
{
    /* kind 0: 'a'.., 1: with slashes, 2: relative existing prefix */
    char *s = malloc((size_t) len + 1);
    for (long i = 0; i < len; i++) s[i] = kind == 1 && i % 17 == 5 ? '/' : (char) ('a' + (i % 26));
    s[len] = 0;
    return s;
}
static long pick_len(void)
{
    static const long L[] = { 0, 1, 2, 7, 100, 255, 1000, 2047, 4000, 4090, 4093, 4094, 4095, 4096, 4097, 5000, 32766, 32767, 32768, 32769, 65535, 65536, 65537, 65600, 70000 };
    return L[vh_below(sizeof L / sizeof L[0])];
}
static void case_find(void)
{
    mkdir("etc", 0700); mkdir("home", 0700); mkdir("home/app", 0700); mkdir("adir.cfg", 0700);
    cx_write_file("etc/app.cfg", "x", 1); cx_write_file("home/app/app.cfg", "y", 1); cx_write_file("top.cfg", "z", 1); cx_write_file("home/other.cfg", "w", 1);
    int ncalls = 12;
    for (int c = 0; c < ncalls; c++) {
        char *file, *dir = NULL, *path = NULL;
        int fr = (int) vh_below(10);
        static const char *F[] = { "app.cfg", "top.cfg", "other.cfg", "missing.cfg", "adir.cfg", "", "app/app.cfg", "./top.cfg" };
        if (fr < 7) file = vh_heapstr(F[vh_below(8)]); else file = gen_pathstr(pick_len(), (int) vh_below(2));
        int dr = (int) vh_below(10);
        static const char *D[] = { ".", "etc", "home", "home/app", "missing", "", "/", "etc/" };
        if (dr < 3) dir = NULL; else if (dr < 8) dir = vh_heapstr(D[vh_below(8)]); else dir = gen_pathstr(pick_len(), 1);
        int pr = (int) vh_below(10);
        if (pr == 0) path = NULL;
        else {
            cx_buf pb = { 0 };
            cx_buf_adds(&pb, "");
            int ncomp = pr < 6 ? (int) vh_range(0, 6) : (int) vh_range(7, 50);
            for (int i = 0; i < ncomp; i++) {
                int r = (int) vh_below(12);
                static const char *C[] = { "etc", "home", "home/app", ".", "missing", "", "etc/", "/", "home/" };
                if (i) cx_buf_addc(&pb, ':');
                if (r < 9) cx_buf_adds(&pb, C[r]);
                else if (r < 11) { char *s = gen_pathstr(pick_len(), 1); cx_buf_adds(&pb, s); free(s); }
                else cx_buf_adds(&pb, "::");
            }
            if (vh_coin(10)) cx_buf_addc(&pb, ':');
            path = vh_heapstr(pb.b);
            cx_buf_free(&pb);
        }
        size_t fl = strlen(file), dl = dir ? strlen(dir) : 0, pl = path ? strlen(path) : 0;
        vh_op("find_file(file len %zu %s, dir %s len %zu, path %s len %zu %s)", fl, vh_q(file, (long) (fl > 30 ? 30 : fl)), dir ? "" : "NULL", dl, path ? "" : "NULL", pl, path ? vh_q(path, (long) (pl > 60 ? 60 : pl)) : "");
        spif_charptr_t r = spifconf_find_file(file, dir, path);
        vh_evals(1);
        if (r) {
            size_t rl = strnlen(r, PATH_MAX);
            VH_CHECK(rl < PATH_MAX, "find_file:terminated", "result not NUL-terminated within PATH_MAX");
            struct stat sb;
            VH_CHECK(!access(r, R_OK) && !stat(r, &sb) && !S_ISDIR(sb.st_mode), "find_file:result", "returned %s which is not a readable non-directory", vh_qs(r));
            VH_CHECK(rl >= fl && !strcmp(r + rl - fl, file), "find_file:result", "returned %s which does not end in the requested file name %s", vh_qs(r), vh_q(file, (long) (fl > 60 ? 60 : fl)));
            vh_count("find_file_found", 1);
        } else vh_count("find_file_null", 1);
        vh_cov(vh_mix(0xF1, (uint64_t) (fl > 4096 ? 3 : fl > 4000 ? 2 : fl > 20 ? 1 : 0) * 1000 + (uint64_t) (dir ? (dl > 4096 ? 3 : dl > 4000 ? 2 : 1) : 0) * 100 +
                      (uint64_t) (path ? (pl > 65536 ? 4 : pl > 32766 ? 3 : pl > 4000 ? 2 : 1) : 0) * 10 + (uint64_t) (r != NULL)));
        if (pl > 32766) vh_count("find_file_huge_path", 1);
        if (fl + dl >= 4090) vh_count("find_file_name_at_limit", 1);
        free(file); free(dir); free(path);
    }
    /* spifconf_parse through the search path: found file is parsed from its directory, cwd restored */
    {
        char cwd0[PATH_MAX], cwd1[PATH_MAX];
        if (!getcwd(cwd0, sizeof cwd0)) cwd0[0] = 0;
        char good[200]; snprintf(good, sizeof good, "%sx 1\n", magic);
        cx_write_file("home/app/p.cfg", good, strlen(good));
        cx_log_reset();
        sub_init();
        int fds = cx_fd_count();
        char *path = vh_heapstr(vh_coin(50) ? "etc:missing:home/app:." : "home/app"), *file = vh_heapstr("p.cfg");
        vh_op("spifconf_parse(p.cfg, NULL, %s)", path);
        spif_charptr_t r = spifconf_parse(file, NULL, path);
        VH_CHECK(r != NULL, "parse:via-path", "spifconf_parse(\"p.cfg\", NULL, %s) returned NULL although home/app/p.cfg exists", vh_qs(path));
        free(r);
        if (!getcwd(cwd1, sizeof cwd1)) cwd1[0] = 0;
        VH_CHECK(!strcmp(cwd0, cwd1), "parse:cwd", "working directory changed by spifconf_parse: %s -> %s", cwd0, cwd1);
        VH_CHECK(cx_fd_count() == fds && fstate_idx == 0, "parse:files-open", "descriptor or file-stack residue after spifconf_parse via search path");
        free(path); free(file);
        sub_free();
        vh_evals(3); vh_count("parse_via_path", 1);
    }
}

/* ================================================================== TEMP */
static void case_temp(void)
{
    static const mode_t UM[] = { 0, 022, 077, 027, 0777 };
    mode_t um = UM[vh_below(5)], old = umask(um);
    int use_tmp_var = vh_coin(30);
    char longdir[300] = "tmp";
    int long_dir = vh_coin(15);
    if (long_dir) { snprintf(longdir, sizeof longdir, "tmp/%0*d", (int) vh_range(100, 230), 7); mkdir(longdir, 0700); }
    cx_env_clear();
    cx_env_set(use_tmp_var ? "TMP" : "TMPDIR", longdir);
    char (*names)[300] = malloc(200 * sizeof *names);
    int nn = 0;
    vh_op("200 x spiftool_temp_file, %s=%s, umask %03o", use_tmp_var ? "TMP" : "TMPDIR", vh_q(longdir, (long) (strlen(longdir) > 40 ? 40 : strlen(longdir))), (unsigned) um);
    for (int c = 0; c < 200; c++) {
        static const int TL[] = { 0, 1, 5, 10, 14, 100, 200, 235, 245, 249, 250, 255, 300 };
        int tl = TL[vh_below(13)];
        if (vh_coin(60)) tl = (int) vh_below(16);
        size_t cap = (size_t) tl + 1;
        int r = (int) vh_below(4);
        if (r == 1 && cap < 64) cap = 64; else if (r == 2 && cap < 256) cap = 256; else if (r == 3 && cap < 400) cap = 400;
        char *buf = malloc(cap);
        for (int i = 0; i < tl; i++) buf[i] = "abcxyzABC019-_."[vh_below(15)];
        buf[tl] = 0;
        char tmpl[301]; memcpy(tmpl, buf, (size_t) tl + 1);
        int fd = spiftool_temp_file(buf, cap);
        vh_evals(1);
        size_t need = strlen(longdir) + 1 + (size_t) tl + 6;
        if (fd < 0) { vh_count(need > 255 ? "temp_file_refused_too_long" : "temp_file_failed", 1); free(buf); continue; }
        struct stat sb;
        if (fstat(fd, &sb)) { close(fd); free(buf); vh_fail("temp_file:fd", "returned descriptor %d is not open", fd); }
        char link[64], real[900]; snprintf(link, sizeof link, "/proc/self/fd/%d", fd);
        ssize_t rn = readlink(link, real, sizeof real - 1);
        real[rn > 0 ? rn : 0] = 0;
        const char *base = strrchr(real, '/'); base = base ? base + 1 : real;
        int bad_mode = (sb.st_mode & 07777) != 0600, not_reg = !S_ISREG(sb.st_mode), not_fresh = sb.st_size != 0 || sb.st_nlink != 1;
        int dup = 0;
        for (int i = 0; i < nn; i++) if (!strcmp(names[i], base)) dup = 1;
        size_t bl = strnlen(buf, cap);
        int unterminated = bl >= cap;
        /* the buffer receives (a prefix of) DIR/TEMPLATE?????? */
        char expect[900]; snprintf(expect, sizeof expect, "%s/%s", longdir, base);
        int bad_name = strncmp(base, tmpl, (size_t) tl) != 0 || strlen(base) != (size_t) tl + 6 || (!unterminated && strncmp(buf, expect, bl) != 0) || (!unterminated && bl != (strlen(expect) < cap - 1 ? strlen(expect) : cap - 1));
        char bq[120]; snprintf(bq, sizeof bq, "%s", vh_q(buf, (long) (bl > 50 ? 50 : bl)));
        close(fd); free(buf);
        if (bad_mode) vh_fail("temp_file:mode", "file %s has mode %04o, expected 0600 (umask %03o)", base, (unsigned) (sb.st_mode & 07777), (unsigned) um);
        if (not_reg || not_fresh) vh_fail("temp_file:fresh", "file %s is not a fresh regular file (size %ld, links %ld)", base, (long) sb.st_size, (long) sb.st_nlink);
        if (dup) vh_fail("temp_file:unique", "name %s returned twice", base);
        if (unterminated) vh_fail("temp_file:terminated", "name buffer of %zu bytes not NUL-terminated", cap);
        if (bad_name) vh_fail("temp_file:name", "created %s for template %s in %s, buffer (%zu bytes) holds %s", real, vh_qs(tmpl), longdir, cap, bq);
        if (nn < 200) snprintf(names[nn++], 300, "%s", base);
        vh_count("temp_files_created", 1);
        vh_cov(vh_mix(0x7E, (uint64_t) (tl > 249 ? 4 : tl > 200 ? 3 : tl > 20 ? 2 : tl > 0 ? 1 : 0) * 100 + (uint64_t) um + (uint64_t) use_tmp_var * 1000 + (uint64_t) (cap > (size_t) tl + 7 + strlen(longdir)) * 2000));
    }
    free(names);
    umask(old);
    tmp_dirty = 1;
}

/* ================================================================== main */
int main(int argc, char **argv)
{
    vh_init(argc, argv, "C11");
    vh_case_cpu_budget = 30;          /* a C11 case takes well under a second; a parser that stops advancing is reported after 30 s of CPU time */
    cx_scratch_init();
    cx_env_on = 1;
    snprintf(magic, sizeof magic, "<%s-%s>\n", libast_program_name, libast_program_version);
    mkdir("tmp", 0700);
    /* a directory whose file names fill the %dirscan result buffer exactly (5 bytes per name: the 4096th name lands on the last byte) */
    mkdir("dfull", 0700);
    for (int i = 0; i < 5000; i++) { char nm[32]; snprintf(nm, sizeof nm, "dfull/%04d", i); int fd = open(nm, O_CREAT | O_WRONLY, 0600); if (fd >= 0) close(fd); }
    cx_log_reset();
    cx_fd_snapshot();
    /* warm-up: let libc make its one-time allocations before any heap balance is taken */
    {
        cx_env_clear(); cx_env_set("TMPDIR", "tmp");
        cx_files_reset();
        cx_file *f = cx_file_new("main.cfg"); cx_buf_adds(&f->data, magic); cx_buf_adds(&f->data, "begin alpha\nx `y` %get(a) $HOME\nend\n%include nothere\n");
        cx_files_write_all();
        bytes_fds_before = cx_fd_count(); bytes_may_spawn = 1;
        cx_fgets_budget = 0;
        if (VH_CASE_TRY()) { scen_parse_main(); }
        cx_rm_contents("tmp", 0);
    }

    while (vh_next_case()) {
        int kind = KIND_TABLE[(vh_case_idx + vh_case_idx / 16) % 32];
        struct timespec t0; clock_gettime(CLOCK_MONOTONIC, &t0);       /* reported only (cost per class), never used for a verdict */
        if (VH_CASE_TRY()) {
            /* per-case scratch: remove everything but the tmp directory */
            {
                DIR *d = opendir(".");
                if (d) { struct dirent *e; while ((e = readdir(d))) { if (e->d_name[0] == '.' && (!e->d_name[1] || e->d_name[1] == '.')) continue; if (!strcmp(e->d_name, "tmp") || !strcmp(e->d_name, "dfull")) continue; struct stat sb; if (!lstat(e->d_name, &sb) && S_ISDIR(sb.st_mode)) { cx_rm_contents(e->d_name, 1); rmdir(e->d_name); } else unlink(e->d_name); } closedir(d); }
                if (tmp_dirty) { cx_rm_contents("tmp", 0); tmp_dirty = 0; }
            }
            cx_files_reset(); cx_log_reset();
            cx_spawns = 0; cx_fgets_budget = 0; cx_budget_blown = 0;
            cx_env_clear();
            cx_env_set("HOME", "/home/user"); cx_env_set("A", "valueA"); cx_env_set("FOO", "foo bar"); cx_env_set("TMPDIR", "tmp");
            cx_sim_output = vh_coin(50) ? NULL : "out put\n";
            cx_sim_cat = vh_coin(40);
            cx_sim_nul_first = cx_sim_output && vh_coin(25);
            if ((kind == K_BYTES || kind == K_MUT) && vh_coin(10)) { cx_env_set("TMPDIR", "no/such/dir"); vh_count("tmpdir_missing_cases", 1); }   /* temp file creation fails */
            cx_rand_state = vh_mix(vh_seed, (uint64_t) vh_case_idx);

            if (kind == K_BYTES) {
                cx_file *f = cx_file_new("main.cfg");
                int shape = (int) vh_below(10);
                int n = vh_coin(85) ? (int) vh_range(0, 600) : (int) vh_range(600, 60000);
                if (n > 3000 && !vh_coin(20)) n = 3000 + n / 20;
                if (shape < 2) gen_random_bytes(&f->data, n, 0);                                   /* no magic at all */
                else {
                    static const char *MG[] = { NULL, NULL, NULL, NULL, "<libast-9.9>\n", "<libast-0.1>\n", "<LIBAST-0.8.1>\n", "<libast->\n", "<libast-0.8.1\n", "<libast-0.8.1>" };
                    cx_buf_adds(&f->data, MG[shape] ? MG[shape] : magic);
                    gen_random_bytes(&f->data, n, shape != 2);
                }
                if (vh_coin(30)) { cx_file *g = cx_file_new("inc1.cfg"); cx_buf_adds(&g->data, magic); gen_random_bytes(&g->data, (int) vh_range(0, 300), 1); }
                keep_magic_lines_short();
                /* every backquote costs a temp file: keep their number per file moderate */
                { int bq = 0; for (size_t k = 0; k < f->data.n; k++) if (f->data.b[k] == '`' && ++bq > 40) f->data.b[k] = 'q'; }
                cx_files_write_all();
                bytes_fds_before = cx_fd_count(); bytes_may_spawn = files_may_spawn();
                cx_fgets_budget = (files_total_lines() + 10) * (cx_sim_cat ? 600 : 64) + 1000;
                tmp_dirty = 1;
                vh_op("BYTES: main.cfg %zu bytes: %s", f->data.n, vh_q(f->data.b, (long) (f->data.n > 100 ? 100 : f->data.n)));
                /* a main file that may include itself is outside the budget reasoning unless recursion is refused: count it */
                balance_twice(scen_parse_main, "hostile bytes");
                vh_count("bytes_cases", 1);
                vh_cov(vh_mix(0xB1, (uint64_t) shape * 8 + (uint64_t) (n > 600) * 4 + (uint64_t) bytes_may_spawn));
            } else if (kind == K_MUT) {
                cx_ctxs_init(&ctxs); cx_ctxs_register(&ctxs, "alpha", 1); cx_ctxs_register(&ctxs, "beta", 2);
                cx_g.ctxs = &ctxs; cx_g.n_reg = 2; cx_g.expansion = vh_coin(40);
                cx_g.target_depth = vh_coin(80) ? (int) vh_below(6) : (int) vh_range(6, 200); cx_g.files_left = (int) vh_below(4); cx_g.chain_left = vh_coin(15) ? (int) vh_range(1, 12) : 0;
                cx_gen_tree("main.cfg", !vh_coin(20), 1);
                mutate_tree();
                keep_magic_lines_short();
                cx_files_write_all();
                bytes_fds_before = cx_fd_count(); bytes_may_spawn = files_may_spawn();
                cx_fgets_budget = (files_total_lines() + 10) * (cx_sim_cat ? 600 : 64) + 1000;
                tmp_dirty = 1;
                vh_op("MUT: %d files, main.cfg %zu bytes: %s", cx_nfiles, cx_files[0].data.n, vh_q(cx_files[0].data.b, (long) (cx_files[0].data.n > 100 ? 100 : cx_files[0].data.n)));
                balance_twice(scen_parse_main, mutation_cyclic ? "mutated tree (with a cyclic %include)" : "mutated tree");
                vh_count("mutated_tree_cases", 1);
            } else if (kind == K_REG) {
                static const int CL[] = { 1, 5, 12, 19, 20, 21, 39, 40, 41, 79, 80, 81, 159, 160, 161, 250, 253, 254, 255, 256, 257, 300 };
                static const int BL[] = { 0, 1, 2, 3, 4, 12, 13, 14, 33, 34, 40, 72, 73, 74, 152, 153, 154, 240, 247, 248, 249, 250, 300 };
                reg_nctx = CL[vh_below(sizeof CL / sizeof CL[0])];
                reg_nbuiltin = vh_coin(70) ? BL[vh_below(12)] : BL[vh_below(sizeof BL / sizeof BL[0])];
                reg_null = vh_coin(50);
                reg_strong = reg_nctx + 1 <= 254 && reg_nbuiltin + 7 <= 254;
                cx_ctxs_init(&ctxs);
                if (reg_null) cx_ctxs_register(&ctxs, "null", 0);
                for (int i = 0; i < reg_nctx && i < 254; i++) { char nm[24]; if (reg_nctx <= 12) snprintf(nm, sizeof nm, "%s", NAMES[i]); else snprintf(nm, sizeof nm, "c%d", i); cx_ctxs_register(&ctxs, nm, ctxs.n < CX_NHANDLERS ? ctxs.n : 1); }
                cx_g.ctxs = &ctxs; cx_g.n_reg = reg_nctx; cx_g.expansion = 1;
                cx_g.target_depth = (int) vh_below(12); cx_g.files_left = (int) vh_below(3); cx_g.chain_left = 0;
                cx_gen_tree("main.cfg", 1, 1);
                cx_files_write_all();
                reg_fds_before = cx_fd_count();
                vh_op("REG: %d contexts%s, %d built-ins (+7 standard); %s", reg_nctx, reg_null ? " + null" : "", reg_nbuiltin, reg_strong ? "model-checked" : "beyond the 8-bit id space: safety and heap balance only");
                balance_twice(scen_reg, "registration stress");
                vh_count("registration_cases", 1);
                if (reg_nctx >= 159) vh_count("reg_contexts_160_plus", 1);
                if (reg_nctx >= 255) vh_count("reg_contexts_over_255", 1);
                if (reg_nbuiltin >= 152) vh_count("reg_builtins_160_plus", 1);
                if (reg_nbuiltin >= 249) vh_count("reg_builtins_over_255", 1);
                vh_cov(vh_mix(0x4E6, (uint64_t) reg_nctx * 1000 + (uint64_t) reg_nbuiltin));
            } else if (kind == K_FIND) {
                case_find();
                vh_count("find_cases", 1);
            } else if (kind == K_LIFE) {
                life_cycles = (int) vh_range(1, 5); life_ntrees = (int) vh_range(1, 3); life_nreg = (int) vh_range(0, 12); life_ncustom = (int) vh_below(5); life_null = vh_coin(50); life_argv = vh_coin(40); life_null_at = vh_coin(50) ? 0 : (int) vh_range(0, life_nreg);
                cx_ctxs_init(&ctxs);
                if (life_null) cx_ctxs_register(&ctxs, "null", 0);
                for (int i = 0; i < life_nreg; i++) cx_ctxs_register(&ctxs, NAMES[i], ctxs.n);
                for (int t = 0; t < life_ntrees; t++) {
                    char name[32]; snprintf(name, sizeof name, "t%d_main.cfg", t);
                    cx_g.ctxs = &ctxs; cx_g.n_reg = life_nreg; cx_g.expansion = 1;
                    cx_g.target_depth = vh_coin(85) ? (int) vh_below(8) : (int) vh_range(18, 45); cx_g.files_left = (int) vh_below(4); cx_g.chain_left = vh_coin(10) ? (int) vh_range(9, 12) : 0;
                    cx_gen_tree(name, 1, 100 * t + 1);
                }
                cx_files_write_all();
                life_fds_before = cx_fd_count();
                balance_twice(scen_life, "lifecycle program");
                vh_count("lifecycle_programs", 1);
                vh_cov(vh_mix(0x11FE, (uint64_t) life_cycles * 100 + (uint64_t) life_ntrees * 10 + (uint64_t) life_null));
            } else {
                case_temp();
                vh_count("temp_cases", 1);
            }
            if (vh_case_idx % 16 == 3) vh_sample("case %ld kind %d: %d files; first file starts %s", vh_case_idx, kind, cx_nfiles, cx_nfiles ? vh_q(cx_files[0].data.b, (long) (cx_files[0].data.n > 80 ? 80 : cx_files[0].data.n)) : "-");
        } else {
            /* abandoned case: close what it left open; the subsystem of the failed scenario is released if it is still live */
            cx_fd_restore();
            fstate_idx = 0;
            if (subsys_live) { subsys_live = 0; spifconf_free_subsystem(); }     /* so that its variable list cannot leak into the next case */
            cx_model_begin_expansion(&xmodel); cx_model_reset_store(&xmodel);
            tmp_dirty = 1;
            umask(022);
        }
        {
            static const char *KN[] = { "ms_bytes", "ms_mut", "ms_reg", "ms_find", "ms_life", "ms_temp" };
            struct timespec t1; clock_gettime(CLOCK_MONOTONIC, &t1);
            vh_count(KN[kind], (long) ((t1.tv_sec - t0.tv_sec) * 1000 + (t1.tv_nsec - t0.tv_nsec) / 1000000));
        }
        vh_case_done();
    }
    cx_scratch_fini();
    return vh_finish();
}
