#!/bin/bash
# tools/seed_eval.sh <seed-dir> <PROP> [more PROPs...]
# Confirms a seeded defect (patch applies to the current /repo, tests still pass, demo passes clean / fails mutated)
# and runs the quick check(s) against the mutated tree.  Prints a JSON summary on the last line.
set -u
S=$(readlink -f $1); shift
PROPS="$@"
W=$(mktemp -d /tmp/seedeval.XXXXXX)
rsync -a --exclude .git --exclude seeds /repo/ $W/tree/
cp -a $W/tree $W/clean
applied=false; tests_ok=false; demo_clean=NA; demo_mut=NA
if (cd $W/tree && patch -p1 -s --no-backup-if-mismatch < $S/patch.diff) >/dev/null 2>&1; then applied=true; fi
if $applied; then
  /verif/tools/baseline.sh $W/tree > $W/baseline.txt 2>&1 && tests_ok=true
  if [ -f $S/build_demo.sh ]; then
    N=$(basename $S)
    mkdir -p $W/clean/seeds $W/tree/seeds; cp -a $S $W/clean/seeds/$N; cp -a $S $W/tree/seeds/$N
    (cd $W/clean/seeds/$N && timeout 600 bash ./build_demo.sh $W/clean) > $W/demo_clean.txt 2>&1; demo_clean=$?
    (cd $W/tree/seeds/$N && timeout 600 bash ./build_demo.sh $W/tree) > $W/demo_mut.txt 2>&1; demo_mut=$?
    # some demo scripts print the demo's status ("exit code: N") instead of passing it on
    e=$(grep -o "^exit code: [0-9]*\|^exit=[0-9]*" $W/demo_clean.txt | tail -1 | grep -o "[0-9]*$"); [ -n "$e" ] && [ "$demo_clean" = 0 ] && demo_clean=$e
    e=$(grep -o "^exit code: [0-9]*\|^exit=[0-9]*" $W/demo_mut.txt | tail -1 | grep -o "[0-9]*$"); [ -n "$e" ] && [ "$demo_mut" = 0 ] && demo_mut=$e
  fi
fi
res=""
for P in $PROPS; do
  if $applied; then
    LIBAST_SRC=$W/tree VERIF_BUILD=$W/build VERIF_EVIDENCE=$W/evidence timeout 1200 /verif/bin/check $P --tier quick > $W/check_$P.txt 2>&1; rc=$?
    key=$(grep -m1 "key=" $W/check_$P.txt | sed 's/^ *//' | cut -c1-160)
  else rc=NA; key=""; fi
  res="$res \"$P\": {\"exit\": \"$rc\", \"first\": \"$(echo $key | tr -d '\"\\')\"},"
done
echo "{\"seed\": \"$S\", \"applied\": $applied, \"tests_still_pass\": $tests_ok, \"demo_clean_exit\": \"$demo_clean\", \"demo_mutant_exit\": \"$demo_mut\", \"checks\": {${res%,}}}"
if [ "${KEEP:-0}" = 1 ]; then echo "kept $W"; else rm -rf $W; fi
