"""C02: the three list classes are one abstract sequence (incl. iterators).  DESIGN.md §4 C02, App. A.2."""
import vf

SRCS = ['c02.c']
EXH_CASES = 38 * 38


def build(flavor='asan'):
    return vf.build_harness('c02', flavor, SRCS)


def rebuild_for_replay(rec):
    exe = rec.get('exe') or ''
    for fl in ('asan-pat', 'asan-zero'):
        if '-%s-' % fl in exe:
            return build(fl)
    return build('asan')


def differential(chk, rp, rz):
    """(g) the pattern-filled and the zero-filled build must observe exactly the same results in every case:
    any difference is a result that depends on an uninitialised local."""
    crashed = {v['case'] for r in (rp, rz) for v in r.violations if v.get('kind') in ('crash', 'hang')}
    bad = []
    for idx in sorted(set(rp.digests) | set(rz.digests)):
        if idx in crashed:
            continue
        if rp.digests.get(idx) != rz.digests.get(idx):
            bad.append(idx)
    chk.cov['pattern_zero_cases_compared'] = len(set(rp.digests) & set(rz.digests))
    if bad:
        keys_p = sorted({v['key'] for v in rp.violations if v['case'] in bad[:50]})
        keys_z = sorted({v['key'] for v in rz.violations if v['case'] in bad[:50]})
        chk.add_violation('pattern-vs-zero:results-differ',
                          '%d of %d cases give different observable results in the asan-pat and asan-zero builds (an uninitialised local '
                          'reaches a result); first cases: %s; violation keys seen in those cases: pattern build %s, zero build %s. '
                          'Replay: run both harness builds with --only <case> --verbose.'
                          % (len(bad), len(set(rp.digests) | set(rz.digests)), bad[:8], keys_p, keys_z))


def run(chk):
    per = chk.pick(500, 20000)
    chk.run('asan', build('asan'), per)
    perd = chk.pick(100, 6000)
    rp = chk.run('asan-pat', build('asan-pat'), perd)
    rz = chk.run('asan-zero', build('asan-zero'), perd)
    differential(chk, rp, rz)
    if not chk.quick():
        r = chk.run('exhaustive', build('asan'), (EXH_CASES + vf.NCPU - 1) // vf.NCPU, args=['--mode', 'exh'], timeout=3000)
        n = r.counts.get('exh_sequences', 0)
        chk.cov['exhaustive_small_scope'] = ('all %d mutator sequences of length 4 (prefixes = lengths 1..3) over append/prepend/insert_at/remove/'
                                             'remove_at/reverse/dup, labels {aa,bb}, positions {-n-2,-n-1,-n,-1,0,1,n-1,n,n+1,n+2}: %d run'
                                             % (38 ** 4, n))
        if n != 38 ** 4 and not r.violations:
            chk.inconclusive.append('exhaustive enumeration ran %d of %d sequences' % (n, 38 ** 4))
    chk.rule = ('case = one random history (1..80 list operations over 2..64 labels, indices drawn from the boundary set around the current '
                'length, dup copies join the pool) applied in lock-step to array, linked_list, dlinked_list and a reference sequence; after '
                'every operation each class is compared with the model on the return value and on a full read-back (count, get(i) for '
                'i in [-len-1,len], fresh iterator incl. exhaustion, to_array, index/find/contains of every label in play) and its public '
                'struct is walked (block size, chain length, prev/next mirror, head/tail ends); distinct = (length bucket, placeholders?, '
                'previous mutator, operation, argument class) tuples; the same cases run on pattern- and zero-initialised builds and '
                'must give identical result digests')
    for name, m in (('insert_at', 300), ('remove_at', 100), ('remove', 100), ('reverse', 100), ('dup', 50), ('append', 50), ('prepend', 50),
                    ('insert_at_refused', 20), ('insert_at_empty_padded', 10), ('insert_at_padded', 20), ('insert_at_end', 10),
                    ('insert_at_last', 10), ('refused_get_remove_at', 30), ('reverse_empty', 5), ('dup_empty', 3), ('dup_with_placeholders', 3),
                    ('op_after_reverse', 50), ('op_after_remove', 50), ('op_after_dup', 20), ('removed_tail', 10), ('removed_only_element', 5),
                    ('iter_exhaustion_checks', 1000), ('struct_walks', 1000)):
        chk.require(name, m)
    chk.min_cases = 1000
    chk.coverage(build('cov'), 200)       # thorough tier: gcov line coverage of the anchored sources under this workload
