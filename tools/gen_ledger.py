#!/usr/bin/env python3
"""Rewrites the `fixed` entries of known_findings.json from the fix: commits of /repo (status=known entries are kept as they are).
Run by hand after merging fixes -- never at check time."""
import json, os, re, subprocess
ROOT = os.path.dirname(os.path.dirname(os.path.abspath(__file__)))
P = os.path.join(ROOT, 'known_findings.json')
cur = json.load(open(P))
known = [f for f in cur.get('findings', []) if f.get('status') == 'known']
log = subprocess.run(['git', '-C', '/repo', 'log', '--reverse', '--format=%h%x00%s%x00%b%x01', '585bfc1..HEAD'], stdout=subprocess.PIPE, text=True).stdout
def files_of(h):
    return subprocess.run(['git', '-C', '/repo', 'show', '--name-only', '--format=', h], stdout=subprocess.PIPE, text=True).stdout.split()
BYFILE = [('src/str.c', 'C01'), ('src/ustr.c', 'C01'), ('src/mbuff.c', 'C07'), ('src/options.c', 'C08'), ('src/conf.c', 'C09/C10/C11'), ('src/file.c', 'C11'),
          ('src/socket.c', 'C19'), ('src/url.c', 'C14'), ('src/mem.c', 'C15'), ('src/msgs.c', 'C20'), ('include/libast.h', 'C20'), ('src/builtin_hashes.c', 'C18'),
          ('src/objpair.c', 'C05'), ('src/obj.c', 'C05'), ('include/libast/obj.h', 'C05'), ('src/tok.c', 'C12'), ('src/strings.c', 'C12/C13/C17'),
          ('src/array.c', 'C02/C03/C04'), ('src/linked_list.c', 'C02/C03/C04'), ('src/dlinked_list.c', 'C02/C03/C04')]
# src/conf.c serves three properties: each fix is attributed to the property whose check produced its witness
CONF = {'C10': ['84f9d83', 'c01f998', 'ed23a4e', 'cf9567c', '265d316', '7e1ce25', 'f638c12', '3521386', '78d0ba3', '88ec215'],
        'C09': ['75645ea', '36fdf75', 'd1525b1', '23c5622'],
        'C11': ['da9c253', 'de9ea78', '27f5448', '974c02a', '0de1e2a', '2c9ce5a', '53584c7', '21726e5', 'de4e2b8', 'dbffd58', '6169b3f', 'ad27e38', '96e43a0', 'c5caeb3',
                '35c1340', 'b2014b0', 'f679b94', '4cd2e78', 'a2618ef', '949f715', '16fcea6']}
CONF_BY_HASH = {h: p for p, hs in CONF.items() for h in hs}
def prop_of(subj, files, h=''):
    s = subj.lower()
    if h[:7] in CONF_BY_HASH: return CONF_BY_HASH[h[:7]]
    if 'version_compare' in s: return 'C17'
    if 'set_program_name' in s: return 'C16'
    if 'condense_whitespace' in s or 'safe_strncpy' in s: return 'C13' if 'condense' in s else 'C16'
    if 'split' in s or 'tok_eval' in s or 'num_words' in s: return 'C12'
    if ' comp' in s or ' dup' in s and ('objpair' in s or 'tok' in s or 'url dup' in s): return 'C05'
    if 'tok dup' in s or 'url dup' in s or 'classname' in s or 'unparse' in s and 'plain str' in s: return 'C05'
    if 'vector' in s or 'sorted insert' in s: return 'C04'
    if ' map ' in s: return 'C03'
    if 'mbuff_reverse' in s: return 'C16'
    if 'realloc(null, 0)' in s: return 'C15'
    for f, p in BYFILE:
        if f in files:
            return p.split('/')[0] if '/' in p and f.endswith(('array.c', 'linked_list.c', 'dlinked_list.c')) else p
    return 'C??'
fixed = []
for rec in log.split('\x01'):
    rec = rec.strip('\n')
    if not rec: continue
    h, subj, body = (rec.split('\x00') + ['', ''])[:3]
    if not subj.startswith('fix:'): continue
    files = files_of(h)
    prop = prop_of(subj, files, h)
    wit = ''
    m = re.search(r'Witness[^:]*:\s*(.*)', body, flags=re.S)
    if m: wit = ' '.join(m.group(1).split())[:300]
    what = subj[4:].strip()
    fixed.append({'status': 'fixed', 'property': prop, 'commit': h, 'files': files, 'line': 'fixed: property=%s %s %s' % (prop, h, what), 'witness': wit})
out = {'_format': cur.get('_format', ''), 'findings': known + fixed}
json.dump(out, open(P, 'w'), indent=1)
print('known:', len(known), 'fixed:', len(fixed))
from collections import Counter
print(Counter(f['property'] for f in fixed))
