"""C16: NULL-argument calls fail soft (frozen guard table x runtime debug levels, one forked child per cell)."""
import os, json, subprocess, sys
import vf


def ncases():
    n = 0
    for l in open(os.path.join(vf.ROOT, 'harness', 'c16_cases.inc')):
        if l.startswith('#define C16_NCASES'):
            n = int(l.split()[2])
    return n


def build():
    return vf.build_harness('c16', 'asan', ['c16.c'], cflags=['-Wno-incompatible-pointer-types', '-Wno-int-conversion', '-Wno-discarded-qualifiers'])


def rebuild_for_replay(rec):
    return build()


def run(chk):
    exe = build()
    rows = ncases()
    nlev = chk.pick(4, 7)              # (level, silent) cells: quick (0,off) (1,off) (1,on); thorough adds (3,off) (5,off) (0,on)
    cells = rows * nlev * 4            # x 4 integer-argument variants (rows without integer arguments run one)
    per = (cells + vf.NCPU - 1) // vf.NCPU
    chk.run('asan', exe, per, timeout=1200)
    chk.rule = ('case = one row of the frozen guard tables gen/c16_guards.tsv (guard macro in the function itself, or in the callee of a thin wrapper / constructor) and '
                'gen/c16_transitive.tsv (guard further down the call chain: positions observed to be refused by a guard on the repaired tree, tools/c16_probe.py) '
                '(entry point or class-table slot, pointer parameter set to NULL, '
                'other arguments valid samples) x (runtime debug level, silent) cell; each runs in a forked child; oracle: documented failure value, '
                'no allocation inside the call (ASan malloc hook), other arguments bit-identical (two-level heap snapshot), normal exit; at level >=1 '
                'alternatively exit 255 with a FATAL diagnostic (no diagnostic required when output is silenced); integer arguments of the call take the variants '
                '1, 0, -1, 7; distinct = distinct (row, level, silent, variant) cells; levels/silent: %s') % ('(0,off) (1,off) (1,on) (5,off)' if nlev == 4 else '(0,off) (1,off) (1,on) (5,off) (2,off) (3,off) (0,on)')
    chk.exhaustive = True
    chk.cov['table_rows'] = rows
    chk.cov['levels'] = nlev
    try:
        d = subprocess.run([sys.executable, os.path.join(vf.ROOT, 'tools', 'gen_c16.py'), '--diff', vf.SRC], stdout=subprocess.PIPE, text=True, timeout=60).stdout
        chk.cov['entry_points_vs_frozen_table'] = json.loads(d.strip().splitlines()[-1])
    except Exception as e:
        chk.cov['entry_points_vs_frozen_table'] = 'diff failed: %s' % e
    chk.cov['rows_guarded_further_down_the_call_chain'] = sum(1 for l in open(os.path.join(vf.ROOT, 'gen', 'c16_transitive.tsv')) if l.strip() and not l.startswith('#'))
    chk.assumptions += ['"documented to guard" = guarded in the pinned tree (frozen table gen/c16_guards.tsv), or refused by a guard of a callee with a guard diagnostic when called with NULL on the repaired tree (gen/c16_transitive.tsv); positions that never guarded are not judged',
                        'guards whose failure value is itself a call with effects (e.g. spif_str_init(self)) are outside the statement\'s value set and skipped']
    chk.require('soft_fail_level0', rows - 5)
    chk.require('silent_cells', rows)
    chk.require('integer_argument_variants', 500)
    chk.min_cases = rows * nlev
