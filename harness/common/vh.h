/* Common support for the verification harnesses (see DESIGN.md §3.5).
 *
 * Protocol: every harness is `exe --seed S --shard I --nshards N --cases K
 * [--start C] [--only C] [--verbose] --out DIR`.
 * Case identity is the global case index: shard I runs indices I, I+N, ...
 * so a replay needs only (seed, index).
 * Files written into DIR: progress.<I> (8-byte current case index, written
 * before the case starts, so an abort still names its case), cov.<I>
 * (distinct 64-bit coverage hashes), digest.<I> (index,digest pairs) and the
 * stdout stream carries `V\t<key>\t<case>\t<detail>` lines and one final
 * `SUMMARY\t<json>` line.
 */
#ifndef VH_H
#define VH_H

#include <stdint.h>
#include <stddef.h>
#include <stdio.h>
#include <setjmp.h>

typedef struct vh_rng { uint64_t s; } vh_rng_t;

extern vh_rng_t vh_rng;           /* per-case generator */
extern int vh_verbose;
extern uint64_t vh_seed;
extern long vh_case_idx;
extern const char *vh_tier;        /* "quick" | "thorough" */
extern char vh_outdir[512];
extern int vh_shard, vh_nshards;

uint64_t vh_splitmix(uint64_t *s);
uint64_t vh_mix(uint64_t a, uint64_t b);
uint64_t vh_next(void);
/* uniform in [0,n) (n>0) */
uint64_t vh_below(uint64_t n);
/* uniform in [lo,hi] */
long vh_range(long lo, long hi);
int vh_coin(int pct);
uint64_t vh_hash_bytes(const void *p, size_t n, uint64_t h);
uint64_t vh_hash_str(const char *s, uint64_t h);

/* Initialise from argv.  prop is e.g. "C01". */
void vh_init(int argc, char **argv, const char *prop);
/* Iterate cases: returns 1 and sets vh_case_idx while there is a case to run. */
int vh_next_case(void);
void vh_case_done(void);
/* Write SUMMARY and flush coverage.  Returns process exit code (0). */
int vh_finish(void);

/* Journal of the current case (ring of recent operations, printed with a
 * violation and, when --verbose, to stderr as they happen). */
void vh_op(const char *fmt, ...) __attribute__((format(printf, 1, 2)));

/* Model mismatch: records `V` line with key and detail, then longjmps out of
 * the case (vh_case_env must have been set by VH_CASE_TRY). */
void vh_fail(const char *key, const char *fmt, ...) __attribute__((format(printf, 2, 3), noreturn));
/* Same but returns (case continues). */
void vh_report(const char *key, const char *fmt, ...) __attribute__((format(printf, 2, 3)));
extern jmp_buf vh_case_env;
#define VH_CASE_TRY() (setjmp(vh_case_env) == 0)

#define VH_CHECK(cond, key, ...) do { if (!(cond)) vh_fail((key), __VA_ARGS__); } while (0)

/* Statistics */
void vh_count(const char *name, long n);          /* histogram / observables */
void vh_cov(uint64_t h);                          /* distinct non-trivial states */
void vh_sample(const char *fmt, ...) __attribute__((format(printf, 1, 2)));  /* keeps first few */
void vh_digest(uint64_t d);                       /* per-case output digest (differential builds) */
void vh_evals(long n);                            /* evaluations counter */

/* Quote bytes for printing (static rotating buffers). */
const char *vh_q(const void *p, long n);
const char *vh_qs(const char *s);

/* Exact-size heap copy helpers */
char *vh_heapstr(const char *s);                  /* malloc(strlen+1) copy */
void *vh_heapdup(const void *p, size_t n);        /* malloc(n?n:1) copy */

/* ASan allocator probes (weak; absent outside asan builds) */
size_t vh_alloc_size(const void *p);              /* 0 if unknown/not heap */
int vh_have_asan(void);
size_t vh_heap_bytes(void);

/* Backstop for termination clauses: run a block under a generous process-CPU-time budget (ITIMER_VIRTUAL).
 *   if (VH_GUARD_TRY(2)) { ...call...; vh_guard_end(); } else vh_fail("x:non-termination", ...);
 * CPU time, not wall clock: a loaded machine cannot trip it.  The budget should be >= 1000x the expected cost. */
#include <signal.h>
extern sigjmp_buf vh_guard_env;
void vh_guard_arm(int seconds);
void vh_guard_end(void);
#define VH_GUARD_TRY(sec) (vh_guard_arm(sec), sigsetjmp(vh_guard_env, 1) == 0)

/* Every case runs under a process-CPU-time budget (default 120 s, far above any legitimate case); exceeding it abandons the
 * case with the violation key `case:cpu-budget` (an operation that never answers).  Set to 0 to disable for a known heavy case. */
extern int vh_case_cpu_budget;

/* scribble over the stack below the caller */
void vh_stack_scribble(int byte);

#endif
