#!/usr/bin/env python3
"""tools/seed_prep2.py <PROP> <suffix> [N]: like seed_prep.py, plus the list of seeds already proposed for this property (to be avoided)."""
import sys, json, subprocess, glob, os
pid, suf = sys.argv[1], sys.argv[2]; n = sys.argv[3] if len(sys.argv) > 3 else '4'
out = subprocess.run(['/verif/tools/seed_prep.py', pid, n, suf], stdout=subprocess.PIPE, text=True).stdout.split()
wt, prompt = out[0], out[1]
prev = []
for d in sorted(glob.glob('/verif/seeded/%s*-*' % pid)):
    try:
        m = json.load(open(os.path.join(d, 'meta.json')))
        prev.append('- %s (%s): %s' % (', '.join(m.get('files_touched', [])) if isinstance(m.get('files_touched'), list) else m.get('files_touched', ''), os.path.basename(d), (m.get('title') or m.get('what_it_breaks') or '')[:200]))
    except Exception:
        pass
t = open(prompt).read()
t += ('\nThe following seeded defects have ALREADY been proposed for this property by earlier rounds; yours must be different from all of them — '
      'different functions where possible, and in any case a different mechanism and a different clause or trigger. Prefer parts of the anchored '
      'files and clauses of the statement that this list does not touch yet, and prefer subtle changes (behaviour wrong only for a narrow class of '
      'inputs or a specific multi-step history; state left inconsistent but not immediately visible; a resource handled wrongly only on an error path):\n'
      + '\n'.join(prev) + '\n')
open(prompt, 'w').write(t)
print(wt, prompt, len(prev))
