#!/bin/bash
# tools/mut.sh <PROP> <file-relative-to-repo> <sed-expr> [tier]  -- run a check against a scratch copy with one edit applied
# or: tools/mut.sh <PROP> --patch <patchfile> [tier]
set -u
PROP=$1; shift
B=${MUT_BASE:-/repo}
D=$(mktemp -d /tmp/verif-mut.XXXXXX)
mkdir -p $D/src $D/include
cp $B/config.h $D/; cp $B/src/*.c $B/src/*.h $B/src/Makefile.am $D/src/ 2>/dev/null; cp -r $B/include/* $D/include/
if [ "$1" = "--patch" ]; then
  (cd $D && patch -p1 -s < "$2") || { echo "patch failed"; rm -rf $D; exit 3; }
  TIER=${3:-quick}
else
  F=$1; E=$2; TIER=${3:-quick}
  cp $D/$F $D/$F.orig
  sed -i -e "$E" $D/$F
  if cmp -s $D/$F $D/$F.orig; then echo "sed changed nothing"; rm -rf $D; exit 3; fi
  diff -u $D/$F.orig $D/$F | head -20
  rm $D/$F.orig
fi
LIBAST_SRC=$D VERIF_BUILD=$D/build VERIF_EVIDENCE=$D/evidence /verif/bin/check $PROP --tier $TIER 2>&1 | grep -v '^\[' | cut -c1-400 | head -${MUT_LINES:-12}
rc=${PIPESTATUS[0]}
echo "mutant rc=$rc"
rm -rf $D
exit $rc
