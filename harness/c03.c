/* C03: every map implementation is the same finite dictionary.  DESIGN.md §4 C03, Appendix A.3.
 *
 * One generated history is applied in lock-step to an array, a linked_list and a dlinked_list map object and
 * to a model (key id -> value id, read back in ascending key order).  After every operation, per class: the
 * return value equals the model's; count, the walk of the public struct, a fresh iterator and get_keys give
 * exactly the model's ascending sequence; get/has_key agree with the model for the keys present, the keys just
 * outside both ends and absent keys; the structural invariants of C02(d) hold.  After each set the caller's key
 * and value objects are (by coin) overwritten in place and then deleted: the map must hold its own copies.
 * Modes: random histories (default), `--mode exh` (all set/remove/dup sequences of length 6 over 3 keys). */
#include "c0x_containers.h"

#define NKEY 200
#define NVAL 16
#define MAXPOOL 4

enum { OP_SET, OP_SET_PAIR, OP_GET, OP_HAS_KEY, OP_HAS_VALUE, OP_REMOVE, OP_COUNT, OP_GET_KEYS, OP_GET_VALUES, OP_GET_PAIRS,
       OP_ITER, OP_DUP, NOPS };
static const char *const opname[NOPS] = { "set", "set_pair", "get", "has_key", "has_value", "remove", "count", "get_keys", "get_values",
                                          "get_pairs", "iterate", "dup" };

typedef struct { int val[NKEY]; int n; } dict_t;       /* val[k] = value id or -1 */
typedef struct { spif_map_t o[CX_NKIND]; dict_t s; int last_mut; } ent_t;

static ent_t pool[MAXPOOL + 6];
static int npool;
static int order[CX_NKIND];
static int keyset[NKEY], nkeyset;
static char hist[700]; static size_t histo;

static spif_map_t new_map(int k)
{
    switch (k) {
        case CX_ARRAY: return SPIF_MAP_NEW(array);
        case CX_LINKED: return SPIF_MAP_NEW(linked_list);
        default: return SPIF_MAP_NEW(dlinked_list);
    }
}
static spif_list_t new_list(int k)
{
    switch (k) {
        case CX_ARRAY: return SPIF_LIST_NEW(array);
        case CX_LINKED: return SPIF_LIST_NEW(linked_list);
        default: return SPIF_LIST_NEW(dlinked_list);
    }
}

/* element ids: a pair is key*1000+value; a key / value is its own id */
static int id_pair(spif_obj_t o)
{
    int k, v;
    if (SPIF_OBJ_ISNULL(o)) return CX_NULLID;
    if (!SPIF_OBJ_IS_OBJPAIR(o)) return CX_BADID;
    k = cx_idt('k', SPIF_OBJPAIR(o)->key); v = cx_idt('v', SPIF_OBJPAIR(o)->value);
    if (k < 0 || v < 0) return CX_BADID;
    return k * 1000 + v;
}
static int id_key(spif_obj_t o) { return cx_idt('k', o); }
static int id_val(spif_obj_t o) { return cx_idt('v', o); }
/* values are compared as objects: a url whose text is the label equals the str with that text, so one value in eight is a url
 * (and probes are of either class whatever the stored one is) */
/* keys are looked up by object comparison, and a pair compares as its key: one probe in ten is a pair (key, some value that need not be
 * the stored one) -- e.g. an element of an earlier get_pairs() used to look the entry up again */
static spif_obj_t new_probe_key(int kid)
{
    spif_obj_t ko = cx_newt('k', kid);
    if (vh_coin(10)) { spif_obj_t vo = cx_newt('v', (kid * 7 + 3) % NVAL); spif_obj_t p = SPIF_OBJ(spif_objpair_new_from_both(ko, vo)); cx_del_str(ko); cx_del_str(vo); vh_count("probe_keys_that_are_pairs", 1); return p; }
    return ko;
}
static spif_obj_t new_val(int vid)
{
    if (vh_coin(12)) { char b[16]; snprintf(b, sizeof b, "v%03d", vid); vh_count("values_of_a_class_derived_from_str", 1); return SPIF_OBJ(spif_url_new_from_ptr(SPIF_CHARPTR(b))); }
    return cx_newt('v', vid);
}
static const char *show_pair(int id)
{
    static char bufs[8][24]; static int r;
    char *b = bufs[r++ % 8];
    if (id == CX_NULLID) strcpy(b, "NULL");
    else if (id < 0) strcpy(b, "?not-a-pair-of-ours?");
    else snprintf(b, 24, "k%03d=v%03d", id / 1000, id % 1000);
    return b;
}
static const char *show_k(int id)
{
    static char bufs[8][24]; static int r;
    char *b = bufs[r++ % 8];
    if (id == CX_NULLID) strcpy(b, "NULL"); else if (id < 0) strcpy(b, "?bad?"); else snprintf(b, 24, "k%03d", id);
    return b;
}
static const char *show_v(int id)
{
    static char bufs[8][24]; static int r;
    char *b = bufs[r++ % 8];
    if (id == CX_NULLID) strcpy(b, "NULL"); else if (id < 0) strcpy(b, "?bad?"); else snprintf(b, 24, "v%03d", id);
    return b;
}

static int d_min(const dict_t *s) { for (int i = 0; i < NKEY; i++) if (s->val[i] >= 0) return i; return -1; }
static int d_max(const dict_t *s) { for (int i = NKEY - 1; i >= 0; i--) if (s->val[i] >= 0) return i; return -1; }
static int d_pairs(const dict_t *s, int *out) { int n = 0; for (int i = 0; i < NKEY; i++) if (s->val[i] >= 0) out[n++] = i * 1000 + s->val[i]; return n; }
static int d_has_value(const dict_t *s, int v) { for (int i = 0; i < NKEY; i++) if (s->val[i] == v) return 1; return 0; }
static int d_nth(const dict_t *s, int j) { for (int i = 0; i < NKEY; i++) if (s->val[i] >= 0 && j-- == 0) return i; return -1; }
static const char *show_dict(const dict_t *s)
{
    static char b[400]; size_t o = 0; int first = 1;
    o += (size_t) snprintf(b + o, sizeof b - o, "{");
    for (int i = 0; i < NKEY && o < sizeof b - 24; i++) if (s->val[i] >= 0) { o += (size_t) snprintf(b + o, sizeof b - o, "%sk%03d=v%03d", first ? "" : ",", i, s->val[i]); first = 0; }
    snprintf(b + o, sizeof b - o, "}%s", o >= sizeof b - 24 ? ".." : "");
    return b;
}
static const char *key_class(const dict_t *s, int k, int *code)
{
    int mn = d_min(s), mx = d_max(s), c;
    const char *r;
    if (s->n == 0) { c = 0; r = "empty"; }
    else if (k < mn) { c = 1; r = "below"; }
    else if (k > mx) { c = 2; r = "above"; }
    else if (s->val[k] < 0) { c = 3; r = "gap"; }
    else if (mn == mx) { c = 4; r = "only"; }
    else if (k == mn) { c = 5; r = "min"; }
    else if (k == mx) { c = 6; r = "max"; }
    else { c = 7; r = "inner"; }
    if (code) *code = c;
    return r;
}

/* a list returned by get_keys/get_values/get_pairs: `pre` caller elements, then the model sequence */
static void list_check(const char *op, int k, const char *what, spif_list_t l, int pre, const int *m, int n, cx_idof_t idof, const char *(*show)(int))
{
    spif_listidx_t c;
    char clause[48];
    snprintf(clause, sizeof clause, "%s-null", what);
    CX_CHECK(!SPIF_LIST_ISNULL(l), op, k, clause, "%s returned NULL", what);
    c = SPIF_LIST_COUNT(l);
    CX_DG(c);
    snprintf(clause, sizeof clause, "%s-count", what);
    CX_CHECK(c == pre + n, op, k, clause, "%s list has %d elements, expected %d (+%d already in the caller's list)", what, (int) c, n, pre);
    snprintf(clause, sizeof clause, "%s-element", what);
    for (int i = 0; i < n; i++) {
        int id = idof(SPIF_LIST_GET(l, pre + i));
        CX_DG(id);
        CX_CHECK(id == m[i], op, k, clause, "%s[%d] of %d is %s, expected %s", what, i, n, show(id), show(m[i]));
    }
}

/* ------------------------------------------------------------- read-back */
static void readback(const char *op, int k, spif_map_t mp, const dict_t *s)
{
    static int seq[NKEY + 8], keys[NKEY + 8];
    int n = d_pairs(s, seq), probes[24], np = 0;
    size_t c = SPIF_MAP_COUNT(mp);
    spif_list_t kl;
    CX_DG(c);
    CX_CHECK((long) c == n, op, k, "count", "count is %ld, model has %d %s", (long) c, n, show_dict(s));
    cx_struct_check(op, k, SPIF_OBJ(mp), seq, n, id_pair, show_pair);     /* stored order == ascending, one pair per key */
    cx_iter_check(op, k, SPIF_MAP_ITERATOR(mp), seq, n, id_pair, show_pair);
    for (int i = 0; i < n; i++) keys[i] = seq[i] / 1000;
    kl = SPIF_MAP_GET_KEYS(mp, (spif_list_t) NULL);
    list_check(op, k, "get_keys-readback", kl, 0, keys, n, id_key, show_k);
    SPIF_LIST_DEL(kl);
    /* probes: present keys (all when few), both ends, just outside both ends, some keys in play */
    if (n <= 10) for (int i = 0; i < n; i++) probes[np++] = keys[i];
    else { for (int i = 0; i < 6; i++) probes[np++] = keys[vh_below((uint64_t) n)]; probes[np++] = keys[0]; probes[np++] = keys[n - 1]; }
    if (n && keys[0] > 0) probes[np++] = keys[0] - 1;
    if (n && keys[n - 1] < NKEY - 1) probes[np++] = keys[n - 1] + 1;
    probes[np++] = keyset[vh_below((uint64_t) nkeyset)];
    probes[np++] = keyset[vh_below((uint64_t) nkeyset)];
    probes[np++] = (int) vh_below(NKEY);
    for (int i = 0; i < np; i++) {
        int kid = probes[i], want = s->val[kid] >= 0 ? s->val[kid] : CX_NULLID, got;
        spif_obj_t probe = cx_newt('k', kid);
        spif_bool_t has;
        got = id_val(SPIF_MAP_GET(mp, probe));
        CX_DG(got);
        CX_CHECK(got == want, op, k, "get-readback", "get(%s) gives %s, expected %s; model %s", show_k(kid), show_v(got), show_v(want), show_dict(s));
        has = SPIF_MAP_HAS_KEY(mp, probe);
        CX_DG(has);
        CX_CHECK(!!has == (want != CX_NULLID), op, k, "has_key-readback", "has_key(%s) is %d, expected %d; model %s", show_k(kid), (int) has, want != CX_NULLID, show_dict(s));
        cx_del_str(probe);
    }
    {
        int vid = (int) vh_below(NVAL), want = d_has_value(s, vid);
        spif_obj_t probe = new_val(vid);
        spif_bool_t has = SPIF_MAP_HAS_VALUE(mp, probe);
        CX_DG(has);
        CX_CHECK(!!has == want, op, k, "has_value-readback", "has_value(%s) is %d, expected %d; model %s", show_v(vid), (int) has, want, show_dict(s));
        cx_del_str(probe);
    }
}

static void note_hist(const char *t)
{
    if (histo < sizeof hist - 40) histo += (size_t) snprintf(hist + histo, sizeof hist - histo, "%s%s", histo ? "; " : "", t);
}
static int n_bucket(int n) { return n <= 3 ? n : n <= 8 ? 4 : n <= 40 ? 5 : 6; }

/* what the caller does to its own objects after a set: bit0 overwrite key text, bit1 overwrite value text, bit2 delete before the read-back */
static void step(int pi, int op, int kid, int vid, int after_set, int lk, int npre)
{
    ent_t *e = &pool[pi];
    dict_t before = e->s, after = e->s;
    char on[64], desc[96];
    int acode = 0;
    const char *ac = "";
    static int seq[NKEY + 8], sub[NKEY + 8];
    int n = d_pairs(&before, seq);

    if (op == OP_SET || op == OP_SET_PAIR || op == OP_GET || op == OP_HAS_KEY || op == OP_REMOVE) ac = key_class(&before, kid, &acode);
    else if (op == OP_DUP) { ac = before.n == 0 ? "empty" : "plain"; acode = before.n != 0; }
    else if (op == OP_GET_KEYS || op == OP_GET_VALUES || op == OP_GET_PAIRS) { ac = lk < 0 ? "newlist" : "callerlist"; acode = lk + 1; }
    else if (op == OP_HAS_VALUE) { ac = d_has_value(&before, vid) ? "present" : "absent"; acode = d_has_value(&before, vid); }
    snprintf(on, sizeof on, "%s%s%s", opname[op], *ac ? "@" : "", ac);
    if (op == OP_SET || op == OP_SET_PAIR) snprintf(desc, sizeof desc, "M%d.%s(k%03d,v%03d)/caller:%d", pi, opname[op], kid, vid, after_set);
    else if (op == OP_GET || op == OP_HAS_KEY || op == OP_REMOVE) snprintf(desc, sizeof desc, "M%d.%s(k%03d)", pi, opname[op], kid);
    else if (op == OP_HAS_VALUE) snprintf(desc, sizeof desc, "M%d.has_value(v%03d)", pi, vid);
    else if (op == OP_GET_KEYS || op == OP_GET_VALUES || op == OP_GET_PAIRS) snprintf(desc, sizeof desc, "M%d.%s(%s+%d)", pi, opname[op], lk < 0 ? "NULL" : cx_kind[lk], npre);
    else snprintf(desc, sizeof desc, "M%d.%s()", pi, opname[op]);
    vh_op("%s  [%s] on %s", desc, on, show_dict(&before));
    note_hist(desc);
    vh_count(opname[op], 1);
    vh_cov(vh_mix(vh_mix((uint64_t) n_bucket(before.n), (uint64_t) op * 32 + (uint64_t) acode), (uint64_t) (e->last_mut + 1) * 8 + (uint64_t) (op <= OP_SET_PAIR ? after_set : 0)));
    if (e->last_mut == OP_REMOVE) vh_count("op_after_remove", 1);
    if (e->last_mut == OP_DUP) vh_count("op_after_dup", 1);

    if (op == OP_DUP) {
        ent_t *c = &pool[npool];
        memset(c, 0, sizeof *c);
        if (before.n == 0) vh_count("dup_empty", 1);
        for (int j = 0; j < CX_NKIND; j++) {
            int k = order[j];
            spif_map_t d = SPIF_MAP_DUP(e->o[k]);
            CX_DG(d == NULL);
            CX_CHECK(!SPIF_MAP_ISNULL(d) && d != e->o[k], on, k, "result", "dup of %s returned %s", show_dict(&before), d ? "the original" : "NULL");
            CX_CHECK(SPIF_OBJ_CLASS(d) == SPIF_OBJ_CLASS(e->o[k]), on, k, "class", "the copy is not of the map class of the original");
            c->o[k] = d;
            readback(on, k, d, &before);
            readback(on, k, e->o[k], &before);
        }
        c->s = before; c->last_mut = OP_DUP; e->last_mut = OP_DUP;
        npool++;
        return;
    }

    if (op == OP_SET || op == OP_SET_PAIR) {
        if (before.val[kid] < 0) { after.n++; vh_count("set_new_key", 1); } else vh_count("set_existing_key", 1);
        after.val[kid] = vid;
        if (acode == 1) vh_count("set_below_min", 1);
        if (acode == 2) vh_count("set_above_max", 1);
        if (after_set & 1) vh_count("caller_key_overwritten", 1);
        if (after_set & 2) vh_count("caller_value_overwritten", 1);
        if (after_set & 4) vh_count("caller_objects_deleted_before_readback", 1);
    }
    if (op == OP_REMOVE && before.val[kid] >= 0) {
        after.val[kid] = -1; after.n--;
        if (acode == 5 || acode == 4) vh_count("removed_smallest", 1);
        if (acode == 6 || acode == 4) vh_count("removed_largest", 1);
        if (after.n == 0) vh_count("removed_only_entry", 1);
    }

    for (int j = 0; j < CX_NKIND; j++) {
        int k = order[j], got, want;
        spif_map_t mp = e->o[k];
        spif_obj_t x, ko, vo, po = NULL;
        spif_bool_t b;
        spif_list_t l, r;
        switch (op) {
            case OP_SET: case OP_SET_PAIR:
                ko = cx_newt('k', kid); vo = new_val(vid);
                if (op == OP_SET_PAIR) {
                    po = SPIF_OBJ(spif_objpair_new_from_both(ko, vo));
                    cx_del_str(ko); cx_del_str(vo);
                    ko = SPIF_OBJPAIR(po)->key; vo = SPIF_OBJPAIR(po)->value;
                    b = SPIF_MAP_SET(mp, po, (spif_obj_t) NULL);
                } else {
                    b = SPIF_MAP_SET(mp, ko, vo);
                }
                CX_DG(b);
                CX_CHECK(!!b == (before.val[kid] >= 0), on, k, "result", "set(k%03d, v%03d) on %s returned %s, expected %s", kid, vid, show_dict(&before),
                         b ? "TRUE (replaced)" : "FALSE (new)", before.val[kid] >= 0 ? "TRUE (replaced)" : "FALSE (new)");
                /* the caller changes and/or drops its own objects: the map must not notice */
                if (after_set & 1) cx_scribblet(ko, 'k', before.n && vh_coin(60) ? d_nth(&before, (int) vh_below((uint64_t) before.n)) : (kid + 1) % NKEY);
                if (after_set & 2) cx_scribblet(vo, 'v', (vid + 1) % NVAL);
                if (!(after_set & 4)) readback(on, k, mp, &after);
                if (po) spif_objpair_del(SPIF_OBJPAIR(po)); else { cx_del_str(ko); cx_del_str(vo); }
                if ((kid + vid) % 3 == 0) {
                    /* set(k, get(k)): the argument is the map's own stored value object -- an ideal dictionary is unchanged by it */
                    spif_obj_t k2 = cx_newt('k', kid), own = SPIF_MAP_GET(mp, k2);
                    if (own) {
                        b = SPIF_MAP_SET(mp, k2, own);
                        CX_CHECK(!!b, on, k, "result-own-value", "set(k%03d, <the value get(k%03d) returned>) returned FALSE (new) for a key that is present", kid, kid);
                        readback(on, k, mp, &after);
                        vh_count("set_with_own_value", 1);
                    }
                    cx_del_str(k2);
                }
                break;
            case OP_GET:
                ko = new_probe_key(kid); got = id_val(SPIF_MAP_GET(mp, ko)); CX_DG(got);
                want = before.val[kid] >= 0 ? before.val[kid] : CX_NULLID;
                CX_CHECK(got == want, on, k, "result", "get(k%03d) on %s returned %s, expected %s", kid, show_dict(&before), show_v(got), show_v(want));
                cx_del_str(ko);
                break;
            case OP_HAS_KEY:
                ko = new_probe_key(kid); b = SPIF_MAP_HAS_KEY(mp, ko); CX_DG(b);
                CX_CHECK(!!b == (before.val[kid] >= 0), on, k, "result", "has_key(k%03d) on %s returned %d", kid, show_dict(&before), (int) b);
                cx_del_str(ko);
                break;
            case OP_HAS_VALUE:
                vo = new_val(vid); b = SPIF_MAP_HAS_VALUE(mp, vo); CX_DG(b);
                CX_CHECK(!!b == d_has_value(&before, vid), on, k, "result", "has_value(v%03d) on %s returned %d", vid, show_dict(&before), (int) b);
                cx_del_str(vo);
                if (vid % 5 == 0) {
                    /* no entry of an ideal dictionary has "no value": has_value(NULL) answers FALSE (and must not dereference the probe) */
                    b = SPIF_MAP_HAS_VALUE(mp, (spif_obj_t) NULL);
                    CX_CHECK(!b, on, k, "result-null-probe", "has_value(NULL) on %s returned TRUE", show_dict(&before));
                    vh_count("has_value_null_probe", 1);
                }
                break;
            case OP_REMOVE:
                ko = new_probe_key(kid); x = SPIF_MAP_REMOVE(mp, ko); got = id_pair(x); CX_DG(got);
                want = before.val[kid] >= 0 ? kid * 1000 + before.val[kid] : CX_NULLID;
                CX_CHECK(got == want, on, k, "result", "remove(k%03d) on %s returned %s, expected %s", kid, show_dict(&before), show_pair(got), show_pair(want));
                if (x) spif_objpair_del(SPIF_OBJPAIR(x));
                x = SPIF_MAP_REMOVE(mp, ko); CX_DG(x == NULL);          /* ... exactly once */
                CX_CHECK(SPIF_OBJ_ISNULL(x), on, k, "second-remove", "a second remove(k%03d) returned %s, expected NULL", kid, show_pair(id_pair(x)));
                cx_del_str(ko);
                break;
            case OP_COUNT:
                got = (int) SPIF_MAP_COUNT(mp); CX_DG(got);
                CX_CHECK(got == before.n, on, k, "result", "count returned %d, expected %d", got, before.n);
                break;
            case OP_GET_KEYS: case OP_GET_VALUES: case OP_GET_PAIRS:
                l = (spif_list_t) NULL;
                if (lk >= 0) {
                    l = new_list(lk);
                    for (int i = 0; i < npre; i++) SPIF_LIST_APPEND(l, cx_newt('x', i));
                }
                for (int i = 0; i < n; i++) sub[i] = op == OP_GET_KEYS ? seq[i] / 1000 : op == OP_GET_VALUES ? seq[i] % 1000 : seq[i];
                r = op == OP_GET_KEYS ? SPIF_MAP_GET_KEYS(mp, l) : op == OP_GET_VALUES ? SPIF_MAP_GET_VALUES(mp, l) : SPIF_MAP_GET_PAIRS(mp, l);
                if (lk >= 0) CX_CHECK(r == l, on, k, "result", "%s did not return the caller's list", opname[op]);
                list_check(on, k, opname[op], r, lk >= 0 ? npre : 0, sub, n, op == OP_GET_KEYS ? id_key : op == OP_GET_VALUES ? id_val : id_pair,
                           op == OP_GET_KEYS ? show_k : op == OP_GET_VALUES ? show_v : show_pair);
                for (int i = 0; lk >= 0 && i < npre; i++)
                    CX_CHECK(cx_idt('x', SPIF_LIST_GET(r, i)) == i, on, k, "caller-elements", "element %d the caller had put in the list changed", i);
                SPIF_LIST_DEL(r);
                break;
            default: break;          /* iterate: the read-back is the operation */
        }
        if (!((op == OP_SET || op == OP_SET_PAIR) && !(after_set & 4))) readback(on, k, mp, &after);
    }
    vh_evals(1);                     /* classes agree: each produced the model's results */
    e->s = after;
    if (op == OP_SET || op == OP_SET_PAIR || op == OP_REMOVE) e->last_mut = op == OP_SET_PAIR ? OP_SET : op;
}

static void pool_start(void)
{
    npool = 1;
    memset(&pool[0], 0, sizeof pool[0]);
    pool[0].last_mut = -1;
    for (int i = 0; i < NKEY; i++) pool[0].s.val[i] = -1;
    for (int k = 0; k < CX_NKIND; k++) {
        pool[0].o[k] = new_map(k);
        if (SPIF_MAP_ISNULL(pool[0].o[k])) CX_FAIL("new", k, "null", "SPIF_MAP_NEW returned NULL");
    }
    for (int j = 0; j < CX_NKIND; j++) order[j] = (int) ((vh_case_idx + j) % CX_NKIND);
    histo = 0; hist[0] = 0;
}
static void pool_finish(void)
{
    for (int p = 0; p < npool; p++)
        for (int j = 0; j < CX_NKIND; j++) {
            int k = order[j];
            vh_op("final read-back and del of M%d %s", p, cx_kind[k]);
            readback("final", k, pool[p].o[k], &pool[p].s);
            SPIF_MAP_DEL(pool[p].o[k]);
        }
}

static void random_history(void)
{
    static const int NK[] = { 1, 2, 4, 4, 12, 200 };
    static const int W[NOPS] = { 26, 8, 8, 4, 4, 22, 2, 4, 3, 4, 3, 5 };
    int nk = NK[vh_below(6)], nops, r = (int) vh_below(100), follow = -1;
    nops = r < 25 ? (int) vh_range(1, 8) : r < 80 ? (int) vh_range(9, 35) : (int) vh_range(36, 60);
    if (nk == 200 && vh_coin(50)) nops = (int) vh_range(60, 160);          /* large maps */
    nkeyset = 0;
    if (nk == NKEY) for (int i = 0; i < NKEY; i++) keyset[nkeyset++] = i;
    else while (nkeyset < nk) {
        int c = (int) vh_range(1, NKEY - 2), dup = 0;
        for (int i = 0; i < nkeyset; i++) dup |= keyset[i] == c;
        if (!dup) keyset[nkeyset++] = c;
    }
    pool_start();
    for (int t = 0; t < nops; t++) {
        int pi = npool > 1 && vh_coin(40) ? (int) vh_below((uint64_t) npool) : npool - 1;
        const dict_t *s = &pool[pi].s;
        int tot = 0, op, kid, vid, w[NOPS], as = 0, lk = -1, npre = 0;
        for (int i = 0; i < NOPS; i++) {
            w[i] = W[i];
            if (i == OP_DUP && npool >= MAXPOOL) w[i] = 0;
            if (i == OP_REMOVE && nk == NKEY && s->n < 30) w[i] = 6;      /* let large maps grow */
            tot += w[i];
        }
        r = (int) vh_below((uint64_t) tot);
        for (op = 0; op < NOPS - 1 && r >= w[op]; op++) r -= w[op];
        kid = keyset[vh_below((uint64_t) nkeyset)];
        vid = (int) vh_below(NVAL);
        r = (int) vh_below(100);
        if (follow >= 0 && pool[pi].last_mut == OP_REMOVE && vh_coin(60)) {
            /* the map must stay usable after a removal: go on at both ends and on the removed key */
            op = vh_coin(75) ? OP_SET : OP_GET;
            r = (int) vh_below(3);
            kid = r == 0 ? follow : r == 1 ? (s->n && d_min(s) > 0 ? d_min(s) - 1 : 0) : (s->n && d_max(s) < NKEY - 1 ? d_max(s) + 1 : NKEY - 1);
            vh_count("followup_after_remove", 1);
        } else if (op == OP_SET || op == OP_SET_PAIR) {
            if (s->n && r < 25) kid = d_nth(s, (int) vh_below((uint64_t) s->n));                /* overwrite */
            else if (s->n && r < 37 && d_min(s) > 0) kid = (int) vh_range(0, d_min(s) - 1);      /* new smallest */
            else if (s->n && r < 49 && d_max(s) < NKEY - 1) kid = (int) vh_range(d_max(s) + 1, NKEY - 1);   /* new largest */
        } else if (op == OP_GET || op == OP_HAS_KEY || op == OP_REMOVE) {
            if (s->n && r < 22) kid = d_min(s);
            else if (s->n && r < 44) kid = d_max(s);
            else if (s->n && r < 66) kid = d_nth(s, (int) vh_below((uint64_t) s->n));
            else if (s->n && r < 72 && d_min(s) > 0) kid = d_min(s) - 1;
            else if (s->n && r < 78 && d_max(s) < NKEY - 1) kid = d_max(s) + 1;
        } else if (op == OP_HAS_VALUE) {
            if (s->n && r < 60) vid = s->val[d_nth(s, (int) vh_below((uint64_t) s->n))];
        }
        if (op == OP_SET || op == OP_SET_PAIR) as = (int) vh_below(8);
        if (op == OP_GET_KEYS || op == OP_GET_VALUES || op == OP_GET_PAIRS) { lk = (int) vh_below(4) - 1; npre = lk >= 0 ? (int) vh_below(3) : 0; }
        step(pi, op, kid, vid, as, lk, npre);
        follow = op == OP_REMOVE ? kid : -1;
    }
    pool_finish();
    if (vh_coin(3)) vh_sample("history (%d ops, %d keys in play): %s => %s", nops, nk, hist, show_dict(&pool[0].s));
}

/* exhaustive: set(k, fresh value) for 3 keys, remove for 3 keys, dup (continue on the copy); length 6 */
#define EXH_A 7
#define EXH_LEN 6
static void exh_case(long ci)
{
    static const int key[3] = { 10, 20, 30 };
    int d[EXH_LEN];
    long total = 1;
    for (int i = 2; i < EXH_LEN; i++) total *= EXH_A;
    nkeyset = 5; keyset[0] = 10; keyset[1] = 20; keyset[2] = 30; keyset[3] = 15; keyset[4] = 25;
    d[0] = (int) (ci / EXH_A); d[1] = (int) (ci % EXH_A);
    for (long rest = 0; rest < total; rest++) {
        long q = rest;
        for (int i = 2; i < EXH_LEN; i++) { d[i] = (int) (q % EXH_A); q /= EXH_A; }
        pool_start();
        for (int t = 0; t < EXH_LEN; t++) {
            int pi = npool - 1;
            if (d[t] < 3) step(pi, (t & 1) ? OP_SET_PAIR : OP_SET, key[d[t]], t + 1, 7, -1, 0);
            else if (d[t] < 6) step(pi, OP_REMOVE, key[d[t] - 3], 0, 0, -1, 0);
            else step(pi, OP_DUP, 0, 0, 0, -1, 0);
        }
        pool_finish();
        vh_count("exh_sequences", 1);
    }
}

int main(int argc, char **argv)
{
    int exh = 0;
    for (int i = 1; i + 1 < argc; i++) if (!strcmp(argv[i], "--mode") && !strcmp(argv[i + 1], "exh")) exh = 1;
    vh_init(argc, argv, "C03");
    while (vh_next_case()) {
        cx_dg = 0;
        if (VH_CASE_TRY()) {
            if (exh) { if (vh_case_idx < (long) EXH_A * EXH_A) exh_case(vh_case_idx); }
            else random_history();
        }
        vh_digest(cx_dg);
        vh_case_done();
    }
    return vh_finish();
}
