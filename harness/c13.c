/* C13: bounded and in-place string helpers stay inside their buffers and are exact.
 * DESIGN.md §4 C13, Appendix A.1 (substr).
 *
 * Case index -> tuple (deterministic, see decode()):
 *   [0, NA)            safe_strncpy / safe_strncat: (size 1..40, source length 0..48, destination prefix length 0..size)
 *   [NA, NA+NB)        spiftool_substr: (len 0..12, idx -14..14, cnt -14..14)
 *   [NA+NB, GRID)      in-place helpers: every string of length <= 6 over {a,B,' ','\t','\x01','\xe9'}
 *   >= GRID            random long cases of the three families
 * Every source / input string is an exact-size heap block.  Every destination is used in two
 * layouts: an exact-size heap block (ASan red zones are the guard on both sides) and an in-block
 * canary layout [canary | dest | canary] (writes that stay inside an allocation).
 */
#define _GNU_SOURCE
#include <config.h>
#include <libast.h>
#include <limits.h>
#include "vh.h"

#define MAXSIZE 40
#define MAXSRC  48
#define NA      (49L * 860L)             /* sum_{size=1..40} 49*(size+1) = 42140 */
#define SUBLEN  12
#define SUBIDX  14
#define NB      (13L * 29L * 29L)        /* 10933 */
#define ALPHA   6
#define MAXIP   6
#define NC      55987L                   /* sum_{k=0..6} 6^k */
#define GRID    (NA + NB + NC)

#define CAN 16
static const unsigned char CANPAT[4] = { ' ', 'q', 'Q', 0x01 };
static const char IPALPHA[ALPHA] = { 'a', 'B', ' ', '\t', '\x01', (char) 0xe9 };

/* ------------------------------------------------------------------ realloc interposition
 * condense_whitespace() hands its argument to realloc(); in the canary layout the argument is an interior
 * pointer, so libast's realloc call is answered by the harness for exactly that pointer. */
extern void *__real_realloc(void *, size_t);
static void *fake_ptr;
static long fake_seen;
static size_t fake_size;
void *__wrap_realloc(void *p, size_t n)
{
    if (p && p == fake_ptr) { fake_seen++; fake_size = n; return p; }
    return __real_realloc(p, n);
}

/* ------------------------------------------------------------------ C-locale character classes (reference) */
static int r_isspace(unsigned char c) { return c == ' ' || (c >= '\t' && c <= '\r'); }
static int r_iscntrl(unsigned char c) { return c < 0x20 || c == 0x7f; }
static unsigned char r_lower(unsigned char c) { return (c >= 'A' && c <= 'Z') ? (unsigned char) (c + 32) : c; }
static unsigned char r_upper(unsigned char c) { return (c >= 'a' && c <= 'z') ? (unsigned char) (c - 32) : c; }

/* ------------------------------------------------------------------ canary layout */
static void can_fill(unsigned char *blk, size_t inner)
{
    /* pre: ... so that the byte just before the payload is ' '; post: first byte after the payload is ' ' */
    for (int i = 0; i < CAN; i++) blk[CAN - 1 - i] = CANPAT[i % 4];
    for (int i = 0; i < CAN; i++) blk[CAN + inner + i] = CANPAT[i % 4];
}
static int can_ok(const unsigned char *blk, size_t inner, int *where)
{
    for (int i = 0; i < CAN; i++) if (blk[CAN - 1 - i] != CANPAT[i % 4]) { *where = -(i + 1); return 0; }
    for (int i = 0; i < CAN; i++) if (blk[CAN + inner + i] != CANPAT[i % 4]) { *where = i + 1; return 0; }
    return 1;
}

/* ================================================================== family A: safe_strncpy / safe_strncat */
static void fill_src(char *s, long n)
{
    static const char set[] = "abcdefghijklmnopqrstuvwxyz0123456789 \t\xe9\xff\x01";
    for (long i = 0; i < n; i++) s[i] = set[vh_below(sizeof set - 1)];
    s[n] = 0;
}

/* prepare a destination of `size` bytes: prefix of plen bytes 'P'.., then (if room) NUL, then non-NUL filler */
static void fill_dest(unsigned char *d, long size, long plen)
{
    for (long i = 0; i < size; i++) d[i] = (unsigned char) (0xA0 + (i % 7));
    for (long i = 0; i < plen && i < size; i++) d[i] = (unsigned char) ('A' + (i % 26));
    if (plen < size) d[plen] = 0;
}

static void check_strn(const char *fn, int cat, long size, long srclen, long plen, int layout,
                       const unsigned char *before, const unsigned char *after, const char *src, int ret)
{
    char key[64];
    if (!cat) {
        long n = srclen < size - 1 ? srclen : size - 1;
        int want = srclen <= size - 1;
        snprintf(key, sizeof key, "%s:prefix", fn);
        VH_CHECK(memcmp(after, src, (size_t) n) == 0, key, "%s(size=%ld, srclen=%ld, layout=%d): stored bytes differ from the first %ld source bytes: dest=%s src=%s",
                 fn, size, srclen, layout, n, vh_q(after, size), vh_q(src, srclen));
        snprintf(key, sizeof key, "%s:terminator", fn);
        VH_CHECK(after[n] == 0, key, "%s(size=%ld, srclen=%ld, layout=%d): dest[%ld]=0x%02x, expected NUL (longest fitting prefix has %ld bytes): dest=%s",
                 fn, size, srclen, layout, n, after[n], n, vh_q(after, size));
        snprintf(key, sizeof key, "%s:return", fn);
        VH_CHECK((ret != 0) == want, key, "%s(size=%ld, srclen=%ld, layout=%d) returned %d, expected %d (true iff nothing cut off)", fn, size, srclen, layout, ret, want);
    } else if (plen < size) {
        long room = size - 1 - plen;
        long n = srclen < room ? srclen : room;
        int want = srclen <= room;
        snprintf(key, sizeof key, "%s:old-content", fn);
        VH_CHECK(memcmp(after, before, (size_t) plen) == 0, key, "%s(size=%ld, srclen=%ld, destlen=%ld, layout=%d): existing destination text changed: %s -> %s",
                 fn, size, srclen, plen, layout, vh_q(before, plen), vh_q(after, plen));
        snprintf(key, sizeof key, "%s:prefix", fn);
        VH_CHECK(memcmp(after + plen, src, (size_t) n) == 0, key, "%s(size=%ld, srclen=%ld, destlen=%ld, layout=%d): appended bytes differ from the first %ld source bytes: dest=%s src=%s",
                 fn, size, srclen, plen, layout, n, vh_q(after, size), vh_q(src, srclen));
        snprintf(key, sizeof key, "%s:terminator", fn);
        VH_CHECK(after[plen + n] == 0, key, "%s(size=%ld, srclen=%ld, destlen=%ld, layout=%d): dest[%ld]=0x%02x, expected NUL: dest=%s",
                 fn, size, srclen, plen, layout, plen + n, after[plen + n], vh_q(after, size));
        snprintf(key, sizeof key, "%s:return", fn);
        VH_CHECK((ret != 0) == want, key, "%s(size=%ld, srclen=%ld, destlen=%ld, layout=%d) returned %d, expected %d (true iff nothing cut off)", fn, size, srclen, plen, layout, ret, want);
    } else {
        /* weak region: destination holds no terminator inside `size` bytes.  Accept a refusal that changes nothing,
         * or one that only forces a terminator into the last byte; the call cannot report success for a non-empty source. */
        int unchanged = memcmp(after, before, (size_t) size) == 0;
        int forced = memcmp(after, before, (size_t) size - 1) == 0 && after[size - 1] == 0;
        snprintf(key, sizeof key, "%s:unterminated-dest", fn);
        VH_CHECK(unchanged || forced, key, "%s(size=%ld, srclen=%ld, layout=%d) on a destination without terminator in range: %s -> %s",
                 fn, size, srclen, layout, vh_q(before, size), vh_q(after, size));
        if (srclen > 0) {
            snprintf(key, sizeof key, "%s:return", fn);
            VH_CHECK(!ret, key, "%s(size=%ld, srclen=%ld, layout=%d) returned true although the destination was already full", fn, size, srclen, layout);
        }
        vh_count("strncat_full_dest", 1);
    }
}

static void run_strn(long size, long srclen, long plen)
{
    char *src0 = malloc((size_t) srclen + 1);
    fill_src(src0, srclen);
    for (int cat = 0; cat < 2; cat++) {
        const char *fn = cat ? "safe_strncat" : "safe_strncpy";
        for (int layout = 0; layout < 2; layout++) {
            char *src = vh_heapstr(src0);                 /* exact-size: reading past the NUL is a sanitizer report */
            unsigned char *blk = malloc(layout ? (size_t) size + 2 * CAN : (size_t) size);
            unsigned char *d = layout ? blk + CAN : blk;
            unsigned char *before = malloc((size_t) size);
            if (layout) can_fill(blk, (size_t) size);
            fill_dest(d, size, plen);
            memcpy(before, d, (size_t) size);
            vh_op("%s(dest[%ld] %s destlen=%ld, src len %ld, size=%ld)", fn, size, layout ? "canary-layout" : "exact-heap", plen, srclen, size);
            int ret = cat ? spiftool_safe_strncat((spif_charptr_t) d, (spif_charptr_t) src, (spif_int32_t) size)
                          : spiftool_safe_strncpy((spif_charptr_t) d, (spif_charptr_t) src, (spif_int32_t) size);
            vh_evals(1);
            if (layout) {
                int where = 0; char key[64];
                snprintf(key, sizeof key, "%s:guard-bytes", fn);
                VH_CHECK(can_ok(blk, (size_t) size, &where), key, "%s(size=%ld, srclen=%ld, destlen=%ld): guard byte at offset %s%d of the %ld-byte destination was overwritten",
                         fn, size, srclen, plen, where < 0 ? "-" : "size+", where < 0 ? -where : where - 1, size);
            }
            {
                char key[64]; snprintf(key, sizeof key, "%s:source-changed", fn);
                VH_CHECK(memcmp(src, src0, (size_t) srclen + 1) == 0, key, "%s modified its source", fn);
            }
            check_strn(fn, cat, size, srclen, plen, layout, before, d, src0, ret);
            free(before); free(blk); free(src);
        }
        vh_count(fn, 2);
    }
    {
        int sc = srclen < size - 1 ? 0 : srclen == size - 1 ? 1 : srclen == size ? 2 : 3;
        int pc = plen == 0 ? 0 : plen < size - 1 ? 1 : plen == size - 1 ? 2 : 3;
        long room = size - 1 - plen;
        int rc = plen >= size ? 4 : srclen < room ? 0 : srclen == room ? 1 : srclen == room + 1 ? 2 : 3;
        if (size <= MAXSIZE) vh_cov(vh_mix(vh_mix(1, (uint64_t) size), (uint64_t) (srclen * 64 + plen)));
        else vh_cov(vh_mix(vh_mix(2, (uint64_t) (size > 1000 ? 2 : size > 100 ? 1 : 0)), (uint64_t) (sc * 25 + pc * 5 + rc)));
        if (srclen > size - 1) vh_count("strncpy_truncating", 1);
        if (srclen == size - 1) vh_count("strncpy_exact_fit", 1);
        if (plen < size && srclen > room) vh_count("strncat_truncating", 1);
        if (plen < size && srclen == room) vh_count("strncat_exact_fit", 1);
    }
    free(src0);
}

/* ================================================================== family B: spiftool_substr */
static void run_substr(long len, long idx, long cnt)
{
    char *s0 = malloc((size_t) len + 1);
    for (long i = 0; i < len; i++) s0[i] = (char) ('a' + (i * 7 + len) % 26);
    s0[len] = 0;
    char *s = vh_heapstr(s0);
    vh_op("substr(str len %ld %s, idx=%ld, cnt=%ld)", len, vh_q(s0, len > 30 ? 30 : len), idx, cnt);
    char *r = (char *) spiftool_substr((spif_charptr_t) s, (spif_int32_t) idx, (spif_int32_t) cnt);
    vh_evals(1);
    VH_CHECK(memcmp(s, s0, (size_t) len + 1) == 0, "substr:source-changed", "substr modified its source");
    long i = idx < 0 ? idx + len : idx;
    int klass;
    if (i < 0 || i >= len) {
        klass = 0;
        VH_CHECK(r == NULL, "substr:out-of-range-not-refused", "substr(len=%ld, idx=%ld, cnt=%ld): start position is out of range but the call returned %s",
                 len, idx, cnt, vh_qs(r));
        vh_count("substr_refused", 1);
    } else {
        long n;
        int weak = 0;
        if (cnt > 0) { n = cnt < len - i ? cnt : len - i; klass = cnt < len - i ? 1 : cnt == len - i ? 2 : 3; }
        else { n = len - i + cnt; klass = cnt == 0 ? 4 : n > 0 ? 5 : n == 0 ? 6 : 7; if (n < 0) weak = 1; }
        if (!weak) {
            VH_CHECK(r != NULL, "substr:in-range-refused", "substr(len=%ld, idx=%ld, cnt=%ld) returned NULL, expected the %ld-byte slice at %ld", len, idx, cnt, n, i);
            size_t rl = strnlen(r, (size_t) len + 2);
            VH_CHECK((long) rl == n && memcmp(r, s0 + i, (size_t) n) == 0, "substr:slice", "substr(%s, idx=%ld, cnt=%ld) = %s, expected %s",
                     vh_q(s0, len), idx, cnt, vh_q(r, (long) rl), vh_q(s0 + i, n));
            vh_count("substr_slices", 1);
        } else {
            /* weak region (negative count larger than the remainder): refusal, or some in-range slice starting at the position */
            if (r) {
                size_t rl = strnlen(r, (size_t) len + 2);
                VH_CHECK((long) rl <= len - i && memcmp(r, s0 + i, rl) == 0, "substr:weak-not-a-slice", "substr(%s, idx=%ld, cnt=%ld) = %s which is not a slice at %ld",
                         vh_q(s0, len), idx, cnt, vh_q(r, (long) rl), i);
                vh_count("substr_weak_clamped", 1);
            } else vh_count("substr_weak_refused", 1);
        }
        if (r) {
            size_t rl = strlen(r);
            VH_CHECK(!(r >= s && r <= s + len), "substr:aliases-source", "substr returned a pointer into its argument");
            if (vh_have_asan())
                VH_CHECK(vh_alloc_size(r) >= rl + 1, "substr:block-size", "substr result of %zu bytes lives in a block of %zu bytes", rl, vh_alloc_size(r));
        }
    }
    if (len <= SUBLEN && idx >= -SUBIDX && idx <= SUBIDX && cnt >= -SUBIDX && cnt <= SUBIDX)
        vh_cov(vh_mix(vh_mix(3, (uint64_t) len), (uint64_t) ((idx + 64) * 256 + (cnt + 64))));
    else vh_cov(vh_mix(vh_mix(4, (uint64_t) klass), (uint64_t) ((idx < 0) * 2 + (len > 50))));
    if (r && vh_coin(1)) vh_sample("substr(%s, %ld, %ld) = %s", vh_q(s0, len), idx, cnt, vh_qs(r));
    free(r); free(s); free(s0);
}

/* ================================================================== family C: in-place helpers */
enum { H_CHOMP, H_CONDENSE, H_DOWN, H_UP, H_SAFE, H_REV, NHELP };
static const char *HNAME[NHELP] = { "chomp", "condense_whitespace", "downcase_str", "upcase_str", "safe_str", "strrev" };

/* reference transformations; out has room for len+1; returns new length; *alt / *altlen = second acceptable result (or -1) */
static long ref_apply(int h, const unsigned char *in, long len, long arg, unsigned char *out, unsigned char *alt, long *altlen)
{
    long n = 0;
    *altlen = -1;
    switch (h) {
    case H_CHOMP: {
        long a = 0, b = len;
        while (a < len && r_isspace(in[a])) a++;
        while (b > a && r_isspace(in[b - 1])) b--;
        memcpy(out, in + a, (size_t) (b - a)); n = b - a;
        break;
    }
    case H_CONDENSE: {
        /* every run of whitespace becomes one blank; no trailing blank.  A leading run: one blank (alt: dropped). */
        int sp = 0;
        for (long i = 0; i < len; i++) {
            if (r_isspace(in[i])) { if (!sp) out[n++] = ' '; sp = 1; }
            else { out[n++] = in[i]; sp = 0; }
        }
        if (n > 0 && out[n - 1] == ' ') n--;
        if (n > 0 && out[0] == ' ') { memcpy(alt, out + 1, (size_t) n - 1); *altlen = n - 1; }
        break;
    }
    case H_DOWN: for (long i = 0; i < len; i++) out[i] = r_lower(in[i]); n = len; break;
    case H_UP:   for (long i = 0; i < len; i++) out[i] = r_upper(in[i]); n = len; break;
    case H_SAFE: for (long i = 0; i < len; i++) out[i] = (i < arg && r_iscntrl(in[i])) ? '.' : in[i]; n = len; break;
    case H_REV:  for (long i = 0; i < len; i++) out[i] = in[len - 1 - i]; n = len; break;
    }
    out[n] = 0;
    if (*altlen >= 0) alt[*altlen] = 0;
    return n;
}

static void run_helper(int h, const unsigned char *in, long len, long arg)
{
    unsigned char *want = malloc((size_t) len + 1), *alt = malloc((size_t) len + 1);
    long altlen, wl = ref_apply(h, in, len, arg, want, alt, &altlen);
    char key[64];
    for (int layout = 0; layout < 2; layout++) {
        size_t inner = (size_t) len + 1;
        unsigned char *blk = malloc(layout ? inner + 2 * CAN : inner);
        unsigned char *s = layout ? blk + CAN : blk;
        if (layout) can_fill(blk, inner);
        memcpy(s, in, (size_t) len); s[len] = 0;
        vh_op("%s(%s%s) [%s]", HNAME[h], vh_q(in, len > 60 ? 60 : len), h == H_SAFE ? (arg == len ? ", len" : ", <len") : "", layout ? "canary-layout" : "exact-heap");
        unsigned char *r = NULL;
        if (layout && h == H_CONDENSE) { fake_ptr = s; fake_seen = 0; fake_size = 0; }
        switch (h) {
        case H_CHOMP:    r = (unsigned char *) spiftool_chomp((spif_charptr_t) s); break;
        case H_CONDENSE: r = (unsigned char *) spiftool_condense_whitespace((spif_charptr_t) s); break;
        case H_DOWN:     r = (unsigned char *) spiftool_downcase_str((spif_charptr_t) s); break;
        case H_UP:       r = (unsigned char *) spiftool_upcase_str((spif_charptr_t) s); break;
        case H_SAFE:     r = (unsigned char *) spiftool_safe_str((spif_charptr_t) s, (unsigned short) arg); break;
        case H_REV:      r = (unsigned char *) strrev((char *) s); break;
        }
        fake_ptr = NULL;
        vh_evals(1);
        if (layout) {
            int where = 0;
            snprintf(key, sizeof key, "%s:guard-bytes", HNAME[h]);
            VH_CHECK(can_ok(blk, inner, &where), key, "%s(%s): byte at %s was modified (string occupies offsets 0..%ld)",
                     HNAME[h], vh_q(in, len), where < 0 ? (where == -1 ? "offset -1" : "an offset before the start") : "an offset after the terminator", len);
            if (h == H_CONDENSE && fake_seen) vh_count("condense_realloc_intercepted", 1);
        }
        snprintf(key, sizeof key, "%s:return", HNAME[h]);
        if (h == H_CONDENSE && !layout) {
            VH_CHECK(r != NULL, key, "condense_whitespace returned NULL");
            if (r != s) blk = r;                 /* the old block now belongs to the allocator */
            s = r;
        } else {
            VH_CHECK(r == s, key, "%s did not return its argument", HNAME[h]);
        }
        /* content: only bytes inside the original string (or inside the resized block) are looked at */
        long gl = (h == H_CONDENSE && !layout) ? (long) strlen((char *) s) : (long) strnlen((char *) s, (size_t) len + 1);
        int ok = (gl == wl && memcmp(s, want, (size_t) wl) == 0) || (altlen >= 0 && gl == altlen && memcmp(s, alt, (size_t) altlen) == 0);
        if (!ok) {
            snprintf(key, sizeof key, gl > len ? "%s:lengthened" : "%s:text", HNAME[h]);
            vh_fail(key, "%s(%s) arg=%ld = %s%s, reference %s [%s]", HNAME[h], vh_q(in, len), arg,
                    vh_q(s, gl > len ? len + 1 : gl), gl > len ? " (no terminator inside the original extent)" : "", vh_q(want, wl), layout ? "canary-layout" : "exact-heap");
        }
        if (h == H_CONDENSE && !layout && vh_have_asan()) {
            size_t gl = strlen((char *) s);
            VH_CHECK(vh_alloc_size(s) >= gl + 1, "condense_whitespace:block-size", "result of %zu bytes lives in a block of %zu bytes", gl, vh_alloc_size(s));
        }
        if (h == H_CONDENSE && layout && fake_seen) {
            size_t gl = strlen((char *) s);
            VH_CHECK(fake_size >= gl + 1, "condense_whitespace:block-size", "result of %zu bytes was resized to %zu bytes", gl, fake_size);
        }
        free(blk);
    }
    vh_count(HNAME[h], 2);
    if (wl != len) vh_count("shortening_results", 1);
    free(want); free(alt);
}

static int str_class(const unsigned char *in, long len)
{
    int allsp = 1, lead = len > 0 && r_isspace(in[0]), trail = len > 0 && r_isspace(in[len - 1]), hi = 0, ctl = 0;
    for (long i = 0; i < len; i++) { if (!r_isspace(in[i])) allsp = 0; if (in[i] >= 0x80) hi = 1; if (r_iscntrl(in[i])) ctl = 1; }
    return (len == 0 ? 0 : allsp ? 1 : 2) + 3 * lead + 6 * trail + 12 * hi + 24 * ctl;
}

static void run_inplace(const unsigned char *in, long len, int grid)
{
    for (int h = 0; h < NHELP; h++) {
        if (h == H_SAFE) {
            run_helper(h, in, len, len);
            if (len > 0) run_helper(h, in, len, grid ? len - 1 : vh_range(0, len - 1));
        } else run_helper(h, in, len, 0);
    }
    if (len == 0) vh_count("inplace_empty_string", 1);
    else {
        int all = 1; for (long i = 0; i < len; i++) if (!r_isspace(in[i])) all = 0;
        if (all) vh_count("inplace_all_whitespace", 1);
    }
    if (grid) vh_cov(vh_hash_bytes(in, (size_t) len, 5));
    else vh_cov(vh_mix(vh_mix(6, (uint64_t) str_class(in, len)), (uint64_t) (len > 1000 ? 3 : len > 100 ? 2 : len > 6)));
}

/* ================================================================== case decoding */
static void decode_A(long k, long *size, long *srclen, long *plen)
{
    for (long s = 1; s <= MAXSIZE; s++) {
        long blk = 49 * (s + 1);
        if (k < blk) { *size = s; *srclen = k / (s + 1); *plen = k % (s + 1); return; }
        k -= blk;
    }
    *size = MAXSIZE; *srclen = 0; *plen = 0;
}

static long boundary(long len)
{
    static const long big[] = { INT_MIN, INT_MIN + 1, INT_MAX, INT_MAX - 1, 65535, 65536, -65536, 1L << 20 };
    switch (vh_below(10)) {
    case 0: return -len - 1; case 1: return -len; case 2: return -1; case 3: return 0; case 4: return 1;
    case 5: return len - 1; case 6: return len; case 7: return len + 1;
    case 8: return big[vh_below(8)];
    default: return vh_range(-len - 3, len + 3);
    }
}

int main(int argc, char **argv)
{
    vh_init(argc, argv, "C13");
    while (vh_next_case()) {
        if (VH_CASE_TRY()) {
            long idx = vh_case_idx;
            if (idx < NA) {
                long size, srclen, plen;
                decode_A(idx, &size, &srclen, &plen);
                run_strn(size, srclen, plen);
                vh_count("grid_strn", 1);
            } else if (idx < NA + NB) {
                long k = idx - NA;
                long len = k / (29 * 29), i = k / 29 % 29 - SUBIDX, c = k % 29 - SUBIDX;
                run_substr(len, i, c);
                vh_count("grid_substr", 1);
            } else if (idx < GRID) {
                long k = idx - NA - NB, len = 0, pw = 1;
                unsigned char in[MAXIP + 1];
                while (k >= pw) { k -= pw; pw *= ALPHA; len++; }
                for (long i = 0; i < len; i++) { in[i] = (unsigned char) IPALPHA[k % ALPHA]; k /= ALPHA; }
                in[len] = 0;
                run_inplace(in, len, 1);
                vh_count("grid_inplace", 1);
                if (vh_coin(1) && len >= 4) {
                    unsigned char w[8], a[8]; long al, wl = ref_apply(H_CONDENSE, in, len, 0, w, a, &al);
                    vh_sample("condense_whitespace(%s) -> %s", vh_q(in, len), vh_q(w, wl));
                }
            } else {
                int fam = (int) vh_below(3);
                if (fam == 0) {
                    long size = vh_coin(50) ? vh_range(1, 200) : vh_range(201, 6000);
                    long plen = vh_coin(40) ? 0 : vh_coin(50) ? vh_range(0, size) : size - vh_range(0, size < 3 ? size : 3);
                    long room = size - 1 - plen; if (room < 0) room = 0;
                    long base = vh_coin(50) ? room : size - 1;
                    long srclen = vh_coin(70) ? base + vh_range(-2, 2) : vh_range(0, size + 50);
                    if (srclen < 0) srclen = 0;
                    run_strn(size, srclen, plen);
                    vh_count("random_strn", 1);
                } else if (fam == 1) {
                    long len = vh_coin(60) ? vh_range(0, 40) : vh_range(41, 400);
                    run_substr(len, boundary(len), boundary(len));
                    vh_count("random_substr", 1);
                } else {
                    static const unsigned char ws[] = " \t\n\v\f\r";
                    long len = vh_coin(50) ? vh_range(0, 64) : vh_range(65, 3000);
                    int mode = (int) vh_below(5);     /* 0 all-whitespace, 1 padded, 2 text with runs, 3 any byte, 4 letters */
                    unsigned char *in = malloc((size_t) len + 1);
                    for (long i = 0; i < len; i++) {
                        unsigned char c;
                        if (mode == 0) c = ws[vh_below(6)];
                        else if (mode == 1) c = (i < len / 4 || i >= len - len / 4) ? ws[vh_below(6)] : (unsigned char) vh_range(33, 126);
                        else if (mode == 2) c = vh_coin(35) ? ws[vh_below(6)] : (unsigned char) vh_range(1, 255);
                        else if (mode == 3) c = (unsigned char) vh_range(1, 255);
                        else c = (unsigned char) (vh_coin(50) ? vh_range('a', 'z') : vh_range('A', 'Z'));
                        in[i] = c;
                    }
                    in[len] = 0;
                    run_inplace(in, len, 0);
                    vh_count("random_inplace", 1);
                    free(in);
                }
            }
        }
        vh_case_done();
    }
    return vh_finish();
}
