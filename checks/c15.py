"""C15: the debug memory tracker mirrors the live allocation set exactly.

harness/c15.c is built on `asan-dbg5` (library + harness compiled with DEBUG 5) and on `asan` (DEBUG 4).  The dbg5
build runs all populations (tracker interleavings, macro programs, table primitives, object workload) against the shadow
dictionary; the DEBUG 4 build runs the macro programs only, and the per-case digests of their visible allocation
semantics (NULL-ness of every result, FREE nulling its argument, heap balance) are compared between the two builds."""
import os, subprocess, tempfile, shutil
import vf


def build(flavor='asan-dbg5'):
    return vf.build_harness('c15', flavor, ['c15.c'])


def rebuild_for_replay(rec):
    return build('asan-dbg5' if 'dbg5' in os.path.basename(rec.get('exe') or 'dbg5') else 'asan')


def _trace(exe, seed, idx, tier):
    """journal of one case (verbose replay), only the op lines"""
    e = dict(os.environ); e.update(vf.ASAN_ENV); e['VERIF_TIER'] = tier
    os.makedirs(os.path.join(vf.BUILD, 'run'), exist_ok=True)
    out = tempfile.mkdtemp(prefix='c15trace-', dir=os.path.join(vf.BUILD, 'run'))
    try:
        p = subprocess.run([exe, '--seed', str(seed), '--nshards', str(vf.NCPU), '--only', str(idx), '--verbose', '--out', out],
                           stdout=subprocess.PIPE, stderr=subprocess.PIPE, env=e, timeout=300, cwd=out)
    finally:
        shutil.rmtree(out, ignore_errors=True)
    return [l.strip() for l in p.stderr.decode('utf-8', 'replace').splitlines() if l.startswith('  op[')]


def run(chk):
    e5 = build('asan-dbg5')
    e4 = build('asan')
    per = chk.pick(500, 30000)                    # per shard; 16 shards -> 2000 / 100000 interleavings
    r5 = chk.run('dbg5', e5, per, timeout=3000)
    r4 = chk.run('dbg4-macros', e4, per, timeout=3000)
    # the same interleavings without ASan: glibc's realloc resizes in place (ASan's always moves the block), so the
    # "record updated although the address did not change" path of the tracker is only reachable here
    ep = build('plain-dbg5')
    rp = chk.run('plain-dbg5', ep, per, timeout=3000)
    chk.cov['realloc_same_address_observed_without_asan'] = max(0, rp.counts.get('realloc_tracked', 0) + rp.counts.get('realloc_null_allocates', 0) - rp.counts.get('realloc_moved', 0))
    if chk.cov['realloc_same_address_observed_without_asan'] < 50 and not rp.violations:
        chk.inconclusive.append('fewer than 50 in-place reallocs observed in the non-ASan build')
    # differential oracle: same macro programs, same visible semantics with tracking compiled in and out
    common = sorted(set(r5.digests) & set(r4.digests))
    ndiff = 0
    for idx in common:
        if r5.digests[idx] != r4.digests[idx]:
            ndiff += 1
            if ndiff <= 1:
                try:
                    t5, t4 = _trace(e5, chk.seed, idx, chk.tier), _trace(e4, chk.seed, idx, chk.tier)
                    k = 0
                    while k < min(len(t5), len(t4)) and t5[k] == t4[k]:
                        k += 1
                    where = 'programs identical up to op %d; last common op: %s; next op DEBUG5: %s | DEBUG4: %s' % (
                        k, t5[k - 1] if k else '-', t5[k] if k < len(t5) else '(end)', t4[k] if k < len(t4) else '(end)')
                except Exception as ex:       # noqa
                    where = 'trace unavailable: %r' % ex
                chk.add_violation('macro-semantics:tracking-on-vs-off',
                                  'case %d: the same MALLOC/CALLOC/REALLOC/STRDUP/FREE program has different visible results (NULL-ness of results / FREE nulling / '
                                  'heap balance) in the DEBUG 5 and DEBUG 4 builds: digest %s vs %s; %s' % (idx, r5.digests[idx], r4.digests[idx], where))
    # second population of DESIGN §4 C15: the C06 object programs (strings, buffers, pairs, tokenizers, URLs, containers, iterators,
    # split/join arrays) on the tracking build at runtime level 5 -- the tracker must list nothing once the program has deleted all it owned
    eo = vf.build_harness('c06', 'asan-dbg5', ['c06.c'], ldflags=['-rdynamic'])
    ro = chk.run('object-programs-dbg5', eo, chk.pick(200, 12000), timeout=3000)
    chk.cov['object_programs_with_empty_tracker_table'] = ro.counts.get('tracker_empty_after_program', 0)
    if ro.counts.get('tracker_empty_after_program', 0) < 500 and not ro.violations:
        chk.inconclusive.append('fewer than 500 object programs reached the tracker-empty monitor')
    chk.cov['macro_programs_compared'] = len(common)
    chk.cov['macro_programs_differing'] = ndiff
    chk.cov['evaluations_extra'] = len(common)
    if len(common) < per * vf.NCPU // 8 and not (r5.violations or r4.violations):
        chk.inconclusive.append('only %d macro programs were compared between the two builds' % len(common))
    chk.rule = ('case = one interleaving (5..300 operations) drawn from (seed, index): population A (index mod 8 in 0,2,4,6; dbg5 build) mixes '
                'spifmem_malloc/calloc/realloc/strdup/free with the MALLOC/CALLOC/REALLOC/STRDUP/FREE macros (7 call sites / file names of length '
                '0,1,19,20,21,22,300; lines up to 2^32-1) over a 40-slot pool of NULL, tracked-live and unknown-live pointers (plain malloc or allocated '
                'at runtime level < 5), level toggled 4<->5 (occasionally 0..3, 6..9), plus memrec_find/rem/chg_var on the real table with stale, unknown '
                'and NULL keys and MALLOC_DUMP; population B (1,5; both builds) macro-only programs whose digests are compared between DEBUG 5 and '
                'DEBUG 4; population P (3) memrec_* primitives on a private table; population O (7) object workload (lists and maps of strings, all '
                'three implementations) at level 5.  After every operation the tracker table (via the LIBAST_VERIF accessor) is compared as a set with '
                'the shadow dictionary (address, last requested size, 20-char file, line) and every record must be a live ASan block of exactly that '
                'size; after the final drain the table must be empty and the heap balanced.  distinct = distinct (operation, pointer class, call '
                'site / file-name class, level class, table size<=31) hashes')
    chk.assumptions += ['blocks are released behind the tracker\'s back (free/realloc of a tracked block while the runtime level is < 5) are not generated: outside the statement',
                        'X11 pixmap/GC tables are not driven (no X server)',
                        'allocation failure is not injected (sizes <= 4096)',
                        'object workload restricted to spif_str_new_from_ptr of non-empty text, list append, map set and delete (paths not affected by the str/container defects of C01-C06)']
    for name, q, t in (('interleavings_tracker', 800, 40000), ('interleavings_macro', 800, 40000), ('interleavings_primitives', 200, 10000),
                       ('object_programs', 200, 10000), ('tracked_allocations', 5000, 250000), ('untracked_allocations', 1000, 50000),
                       ('realloc_moved', 1000, 50000), ('realloc_tracked', 500, 25000), ('realloc_unknown', 100, 5000), ('realloc_null_allocates', 100, 5000),
                       ('realloc_zero_tracked', 50, 2500), ('free_tracked', 1000, 50000), ('free_unknown', 100, 5000), ('free_null', 50, 2500),
                       ('FREE_nulled_argument', 1000, 50000), ('level_toggles', 500, 25000), ('primitive_stale_key', 100, 5000),
                       ('primitive_unknown_key', 50, 2500), ('prim_rem_middle', 500, 25000), ('prim_shrunk_to_zero', 20, 1000),
                       ('table_reached_20_records', 100, 5000), ('dumps', 10, 500)):
        chk.require(name, chk.pick(q, t))
    chk.min_cases = per * vf.NCPU
