#!/usr/bin/env python3
"""tools/benign_prep2.py <PROP> <first-k> [N]: like benign_prep.py for a further round: names <PROP>-<first-k>.. and the prompt lists the
titles of the changes already stored in /verif/benign for that property (text only) so that the new ones differ."""
import sys, json, subprocess, glob, os
pid = sys.argv[1]; k0 = int(sys.argv[2]); n = int(sys.argv[3]) if len(sys.argv) > 3 else 4
props = {json.loads(l)['id']: json.loads(l) for l in open('/verif/properties.jsonl')}
D = '/tmp/benign-%s' % pid
subprocess.run('git -C /repo worktree remove --force %s 2>/dev/null; rm -rf %s; git -C /repo worktree add -q --detach %s HEAD && rsync -a --exclude .git /repo/ %s/' % (D, D, D, D), shell=True, check=True)
p = props[pid]
t = open('/verif/tools/benign_prompt.tmpl').read()
t = (t.replace('{WT}', D).replace('{ID}', pid).replace('{TITLE}', p['title']).replace('{STATEMENT}', p['statement'])
      .replace('{QUANT}', p['quantifier']['text']).replace('{FILES}', ', '.join(p['anchors']['files'])).replace('{N}', str(n)))
t = t.replace('For each change k = 1..%d:' % n, 'For each change k = %d..%d:' % (k0, k0 + n - 1))
prev = []
for d in sorted(glob.glob('/verif/benign/%s-*' % pid)):
    try:
        m = json.load(open(os.path.join(d, 'meta.json')))
        prev.append('  - %s (%s)' % (m.get('title', ''), ', '.join(m.get('files_touched', []) if isinstance(m.get('files_touched'), list) else [str(m.get('files_touched', ''))])))
    except Exception:
        pass
if prev:
    t += '\n\nChanges of this kind that were already produced in an earlier round -- yours must be different (other functions or other mechanisms):\n' + '\n'.join(prev) + '\n'
open('/tmp/benignprompt-%s.txt' % pid, 'w').write(t)
print(D, '/tmp/benignprompt-%s.txt' % pid, len(prev))
