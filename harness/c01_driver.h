/* C01: mutating operations against the model, history generator, single-step table, main. */
#ifndef C01_DRIVER_H
#define C01_DRIVER_H

enum { OP_APPEND, OP_APPEND_PTR, OP_APPEND_CHAR, OP_PREPEND, OP_PREPEND_PTR, OP_PREPEND_CHAR,      /* keep these six first */
       OP_SPLICE, OP_SPLICE_PTR, OP_TRIM, OP_REVERSE, OP_UPCASE, OP_DOWNCASE, OP_CLEAR, OP_SPRINTF, OP_DONE, OP_DUP, OP_DEL, OP_QUERY, NOPS };
static const char *const OPNAME[] = { "append", "append_from_ptr", "append_char", "prepend", "prepend_from_ptr", "prepend_char",
    "splice", "splice_from_ptr", "trim", "reverse", "upcase", "downcase", "clear", "sprintf", "done", "dup", "del", "query" };

typedef struct {
    int r;                     /* route */
    char *text; long tlen;     /* text argument (owned; NULL = NULL pointer / NULL object argument) */
    int other_slot;            /* >=0: object argument is pool[other_slot] (may be the target itself) */
    int ch;
    idx_t idx, cnt;
    int tmpl, d;
    int nsub;
} args_t;

static int nonzero_char(void)
{
    static const char pick[] = " \tazAZ09_\xe9\xff\x01\n";
    return (unsigned char) pick[vh_below(sizeof pick - 1)];
}

static void gen_args(args_t *a, int op, slot_t *s, int si)
{
    memset(a, 0, sizeof *a);
    a->r = (int) vh_below(2);
    a->other_slot = -1;
    a->nsub = 3;
    switch (op) {
        case OP_APPEND: case OP_PREPEND: case OP_SPLICE:
            if (vh_coin(30)) {                 /* another live object, sometimes the target itself */
                int j = (int) vh_below(NPOOL);
                if (vh_coin(12)) j = si;
                if (pool[j].o && pool[j].mlen + s->mlen < MAXLEN) { a->other_slot = j; break; }
            }
            /* fall through */
        case OP_APPEND_PTR: case OP_PREPEND_PTR: case OP_SPLICE_PTR: {
            int tc = gen_tc();
            if (s->mlen > MAXLEN - 16400 && (tc == TC_BIG || tc == TC_CHUNK)) tc = TC_ALNUM;
            a->text = gen_text_class(tc, &a->tlen);
            if ((op == OP_SPLICE || op == OP_SPLICE_PTR) && vh_coin(12)) { free(a->text); a->text = NULL; a->tlen = 0; }
            break;
        }
        case OP_APPEND_CHAR: case OP_PREPEND_CHAR: case OP_CLEAR: a->ch = nonzero_char(); break;
        case OP_SPRINTF: {
            a->tmpl = (int) vh_below(8);
            int tc = gen_tc();
            a->text = gen_text_class(tc, &a->tlen);
            a->d = vh_coin(20) ? INT_MIN : vh_coin(20) ? 0 : (int) vh_next();
            a->ch = nonzero_char();
            break;
        }
        default: break;
    }
    if (op == OP_SPLICE || op == OP_SPLICE_PTR) {
        a->idx = gen_idx(s->mlen);
        a->cnt = gen_idx(s->mlen);
        if (a->cnt < 0 && vh_coin(65)) a->cnt = vh_coin(50) ? 0 : (idx_t) vh_range(0, s->mlen + 1);     /* negative cnt is a weak region: reduced weight */
    }
}
static void free_args(args_t *a) { free(a->text); a->text = NULL; }

static const char *const SPF[] = { "", "%s", "%d", "%c", "%%", "<%s|%d|%c>%%", "%s%s", "plain text, no conversions" };

/* apply one mutating operation to pool[si]; everything is journaled before the call */
static void apply(int si, int op, args_t *a)
{
    slot_t *s = &pool[si];
    obj_t o = s->o;
    int r = a->r;
    long len = s->mlen;
    const char *opn = OPNAME[op];
    int sc = state_class(s);
    const char *x = a->text; long xl = a->tlen;       /* argument text as the model sees it */
    obj_t xo = NULL; int xtemp = 0;
    spif_bool_t ret = TRUE;
    int argc_ = 0, outcome = 1;
    vh_count(opn, 1);
    vh_count(r ? "route_table" : "route_direct", 1);
    if (!o->s) vh_count("op_on_null_text", 1);

    if (op == OP_APPEND || op == OP_PREPEND || op == OP_SPLICE) {
        if (a->other_slot >= 0) { xo = pool[a->other_slot].o; x = pool[a->other_slot].m; xl = pool[a->other_slot].mlen; if (a->other_slot == si) vh_count("self_as_argument", 1); }
        else if (a->text) { xo = mk_other(a->text, a->tlen); xtemp = 1; }
        argc_ = xo ? (a->other_slot == si ? 1 : !xo->s ? 2 : xl == 0 ? 3 : xl == 1 ? 4 : xl < 4000 ? 5 : 6) : 0;
    } else if (op == OP_APPEND_PTR || op == OP_PREPEND_PTR || op == OP_SPLICE_PTR)
        argc_ = !x ? 0 : xl == 0 ? 3 : xl == 1 ? 4 : xl < 4000 ? 5 : 6;
    /* x may alias s->m (self as argument): copy before the model is replaced */
    char *xc = x ? cat3(x, xl, "", 0, "", 0) : NULL;

    switch (op) {
        case OP_APPEND: case OP_PREPEND:
            vh_op("s%d %s(%s%s) r%d", si, opn, a->other_slot >= 0 ? (a->other_slot == si ? "itself " : "pool object ") : !xo->s ? "never-filled object " : "", vh_q(xc, xl > 50 ? 50 : xl), r);
            ret = op == OP_APPEND ? c_append(r, o, xo) : c_prepend(r, o, xo);
            m_take(s, op == OP_APPEND ? cat3(s->m, len, xc, xl, "", 0) : cat3(xc, xl, s->m, len, "", 0), len + xl);
            break;
        case OP_APPEND_PTR: case OP_PREPEND_PTR: {
            char *p = vh_heapstr(xc);
            vh_op("s%d %s(%s) r%d", si, opn, vh_q(xc, xl > 50 ? 50 : xl), r);
            ret = op == OP_APPEND_PTR ? c_append_from_ptr(r, o, p) : c_prepend_from_ptr(r, o, p);
            free(p);
            m_take(s, op == OP_APPEND_PTR ? cat3(s->m, len, xc, xl, "", 0) : cat3(xc, xl, s->m, len, "", 0), len + xl);
            break;
        }
        case OP_APPEND_CHAR: case OP_PREPEND_CHAR: {
            char c = (char) a->ch;
            vh_op("s%d %s(0x%02x) r%d", si, opn, (unsigned char) c, r);
            ret = op == OP_APPEND_CHAR ? c_append_char(r, o, (spif_char_t) c) : c_prepend_char(r, o, (spif_char_t) c);
            m_take(s, op == OP_APPEND_CHAR ? cat3(s->m, len, &c, 1, "", 0) : cat3(&c, 1, s->m, len, "", 0), len + 1);
            argc_ = (unsigned char) c >= 0x80 ? 1 : m_isspace((unsigned char) c) ? 2 : 3;
            break;
        }
        case OP_SPLICE: case OP_SPLICE_PTR: {
            idx_t idx = a->idx, cnt = a->cnt, ni = idx < 0 ? idx + len : idx;
            int inrange = ni >= 0 && ni < len;
            char *p = (op == OP_SPLICE_PTR && xc) ? vh_heapstr(xc) : NULL;
            snap_t before = snap(o);
            vh_op("s%d %s(%lld, %lld, %s%s) on length %ld r%d", si, opn, (long long) idx, (long long) cnt,
                  op == OP_SPLICE ? (a->other_slot >= 0 ? (a->other_slot == si ? "itself " : "pool object ") : xo && !xo->s ? "never-filled object " : "") : "", xc ? vh_q(xc, xl > 50 ? 50 : xl) : "NULL", len, r);
            ret = op == OP_SPLICE ? c_splice(r, o, idx, cnt, xo) : c_splice_from_ptr(r, o, idx, cnt, p);
            free(p);
            argc_ = argc_ * 1024 + idx_class(idx, len) * 32 + (cnt < 0 ? 0 : cnt == 0 ? 1 : !inrange ? 2 : cnt < len - ni ? 3 : cnt == len - ni ? 4 : 5);
            if (!inrange || (cnt >= 0 && cnt > len - ni)) {
                /* refused position / count: failure value and the value bit-identical */
                outcome = 0;
                vh_count("refused_positions", 1);
                vh_evals(1);
                if (ret) vh_fail(key(opn, "refused-accepted"), "%s(%lld,%lld) on length %ld is outside the text and must be refused, it returned TRUE", opn, (long long) idx, (long long) cnt, len);
                check_snap(o, before, opn, "refused-changed");
                ret = TRUE;
            } else if (cnt >= 0) {
                m_take(s, cat3(s->m, (long) ni, xc ? xc : "", xl, s->m + ni + cnt, len - (long) ni - (long) cnt), len + xl - (long) cnt);
            } else {
                /* weak region: negative count.  Refused without change, or some in-range removal t[0,i)+x+t[j,len), i<=j<=len */
                outcome = 2;
                vh_evals(1);
                if (!ret) { vh_count("splice_negcnt_refused", 1); check_snap(o, before, opn, "negcnt-refused-changed"); }
                else {
                    vh_count("splice_negcnt_accepted", 1);
                    idx_t rl = F(get_len)(o), j = len - (rl - ni - xl);
                    if (rl < ni + xl || j < ni || j > len || !o->s || (size_t) rl >= (vh_alloc_size(o->s) ? vh_alloc_size(o->s) : (size_t) rl + 1))
                        vh_fail(key(opn, "negcnt-not-a-slice"), "%s(%lld,%lld) on length %ld gave length %lld, which is not t[0,i)+x+t[j,len) for any in-range j", opn, (long long) idx, (long long) cnt, len, (long long) rl);
                    m_take(s, cat3(s->m, (long) ni, xc ? xc : "", xl, s->m + j, len - (long) j), (long) rl);
                }
                ret = TRUE;
            }
            break;
        }
        case OP_TRIM: {
            long a0 = 0, b0 = len;
            while (a0 < b0 && m_isspace((unsigned char) s->m[a0])) a0++;
            while (b0 > a0 && m_isspace((unsigned char) s->m[b0 - 1])) b0--;
            vh_op("s%d trim() of %s r%d", si, vh_q(s->m, len > 50 ? 50 : len), r);
            ret = c_trim(r, o);
            argc_ = (a0 > 0) + 2 * (b0 < len) + 4 * (a0 == b0);
            m_take(s, cat3(s->m + a0, b0 - a0, "", 0, "", 0), b0 - a0);
            if (!len) ret = TRUE;
            break;
        }
        case OP_REVERSE: case OP_UPCASE: case OP_DOWNCASE: case OP_CLEAR: {
            char *n = m_alloc(len);
            for (long i = 0; i < len; i++)
                n[i] = op == OP_REVERSE ? s->m[len - 1 - i] : op == OP_UPCASE ? (char) m_upper((unsigned char) s->m[i]) : op == OP_DOWNCASE ? (char) m_lower((unsigned char) s->m[i]) : (char) a->ch;
            vh_op("s%d %s(%s) of %s r%d", si, opn, op == OP_CLEAR ? vh_q(&(char) { (char) a->ch }, 1) : "", vh_q(s->m, len > 50 ? 50 : len), r);
            ret = op == OP_REVERSE ? c_reverse(r, o) : op == OP_UPCASE ? c_upcase(r, o) : op == OP_DOWNCASE ? c_downcase(r, o) : c_clear(r, o, (spif_char_t) a->ch);
            m_take(s, n, len);
            if (!len) ret = TRUE;              /* boolean result on an empty text is not asserted */
            break;
        }
        case OP_SPRINTF: {
            const char *fmt = SPF[a->tmpl];
            size_t cap = (size_t) a->tlen * 2 + 128;
            char *e = malloc(cap);
            int n;
            switch (a->tmpl) { case 1: case 6: n = snprintf(e, cap, fmt, a->text, a->text); break; case 2: n = snprintf(e, cap, fmt, a->d); break; case 3: n = snprintf(e, cap, fmt, a->ch); break;
                               case 5: n = snprintf(e, cap, fmt, a->text, a->d, a->ch); break; default: n = snprintf(e, cap, fmt, 0); break; }
            char *f = vh_heapstr(fmt), *sarg = vh_heapstr(a->text);
            vh_op("s%d sprintf(\"%s\", s=%s, d=%d, c=0x%02x) r%d", si, fmt, vh_q(a->text, a->tlen > 40 ? 40 : a->tlen), a->d, a->ch, r);
            ret = c_sprintf(r, o, a->tmpl, f, sarg, a->d, a->ch);
            free(f); free(sarg);
            m_set(s, e, n);
            free(e);
            argc_ = a->tmpl * 4 + (n == 0 ? 0 : n < 4000 ? 1 : 2);
            if (n == 0) ret = TRUE;            /* Appendix A.1: result asserted only for non-empty output */
            break;
        }
        case OP_DONE:
            vh_op("s%d done() r%d", si, r);
            ret = c_done(r, o);
            m_set(s, "", 0);
            break;
        default: break;
    }
    free(xc);
    vh_evals(1);
    if (!ret) vh_fail(key(opn, "returned-false"), "%s returned FALSE for an operation the ideal sequence accepts", opn);
    check_all(opn);
    if (xtemp) c_del(0, xo);
    COV(vh_mix(vh_mix((uint64_t) op * 2 + (uint64_t) r, (uint64_t) sc), (uint64_t) argc_ * 4 + (uint64_t) outcome));
    battery(s, a->nsub);
}

/* pick an empty slot or -1 */
static int free_slot(void) { int k[NPOOL], n = 0; for (int i = 0; i < NPOOL; i++) if (!pool[i].o) k[n++] = i; return n ? k[vh_below((uint64_t) n)] : -1; }
static int live_slot(void) { int k[NPOOL], n = 0; for (int i = 0; i < NPOOL; i++) if (pool[i].o) k[n++] = i; return n ? k[vh_below((uint64_t) n)] : -1; }

static void do_dup(int si)
{
    int dj = free_slot();
    if (dj < 0) return;
    slot_t *s = &pool[si], *d = &pool[dj];
    int r = (int) vh_below(2), sc = state_class(s);
    vh_count("dup", 1);
    vh_op("s%d = dup(s%d holding %s) r%d", dj, si, vh_q(s->m, s->mlen > 50 ? 50 : s->mlen), r);
    obj_t c = c_dup(r, s->o);
    vh_evals(1);
    if (!c) vh_fail(key("dup", "failed"), "dup returned NULL");
    if (c == s->o || (c->s && c->s == s->o->s)) vh_fail(key("dup", "shared"), "copy shares storage with the original");
    d->o = c;
    m_set(d, s->m, s->mlen);
    if (!IS_MY_CLASS(c) || c_type(r, c) != c_type(r, s->o)) vh_fail(key("dup", "class"), "copy is not of the original's class");
    check_all("dup");
    COV(vh_mix(vh_mix(0xd0 + (uint64_t) r, (uint64_t) sc), 0));
    battery(d, 2);
}
static void do_del(int si)
{
    int r = (int) vh_below(2);
    vh_count("del", 1);
    vh_op("s%d del() r%d", si, r);
    spif_bool_t ok = c_del(r, pool[si].o);
    pool[si].o = NULL;
    m_take(&pool[si], NULL, 0);
    if (!ok) vh_fail(key("del", "returned-false"), "del returned FALSE");
    check_all("del");
}

static void pool_reset(void)
{
    for (int i = 0; i < NPOOL; i++) {
        /* objects of a failed case are abandoned, not freed: their state may be corrupt */
        pool[i].o = NULL; free(pool[i].m); pool[i].m = NULL; pool[i].mlen = 0;
    }
}
static void pool_delete(void)
{
    for (int i = 0; i < NPOOL; i++) if (pool[i].o) do_del(i);
}

/* ---- random histories ---- */
static int pick_op(slot_t *s)
{
    static const int W[NOPS] = { 9, 9, 8, 7, 7, 7, 9, 9, 7, 4, 3, 3, 3, 5, 4, 4, 3, 3 };
    int tot = 0;
    for (int i = 0; i < NOPS; i++) tot += W[i];
    for (;;) {
        int x = (int) vh_below((uint64_t) tot), op = 0;
        while (x >= W[op]) x -= W[op++];
        if (s->mlen > MAXLEN - 20 && op <= OP_PREPEND_CHAR) continue;
        return op;
    }
}

static void history(void)
{
    int nops = (int) vh_range(1, 60);
    long idx = vh_case_idx;
    int forced_op = -1;
    /* every third history starts from a never-filled string whose first operation is forced, cycling through all operations;
       the six append/prepend forms get two thirds of those */
    if (idx % 3 == 0) {
        long k = idx / 3;
        forced_op = (k % 3) ? (int) ((k / 3 * 2 + (k % 3 - 1)) % 6) : (int) (k / 3 % (OP_DONE + 1));
        int r = (int) (k & 1);
        int viadone = (k / 7) % 5 == 0;           /* never-filled by done() instead of by new() */
        if (viadone) { construct(&pool[0], 0, CF_PTR, r); args_t a; gen_args(&a, OP_DONE, &pool[0], 0); apply(0, OP_DONE, &a); }
        else construct(&pool[0], 0, CF_NEW, r);
        if (forced_op <= OP_PREPEND_CHAR) { char nm[48]; snprintf(nm, sizeof nm, "first_op_%s", OPNAME[forced_op]); vh_count(nm, 1); }
        vh_count("forced_first_op_histories", 1);
    }
    for (int step = 0; step < nops; step++) {
        int si = forced_op >= 0 ? 0 : live_slot();
        if (si < 0 || (forced_op < 0 && vh_coin(8) && free_slot() >= 0)) {
            int fs = free_slot();
            static const int CW[NCF] = { 22, 24, 18, 8, 14, 14 };
            int x = (int) vh_below(100), f = 0;
            while (x >= CW[f]) x -= CW[f++];
            construct(&pool[fs], fs, f, (int) vh_below(2));
            if (pool[fs].o) battery(&pool[fs], 2);
            continue;
        }
        slot_t *s = &pool[si];
        int op = forced_op >= 0 ? forced_op : pick_op(s);
        forced_op = -1;
        if (op == OP_DUP) { do_dup(si); continue; }
        if (op == OP_DEL) { do_del(si); continue; }
        if (op == OP_QUERY) { vh_count("query", 1); vh_op("s%d queries", si); battery(s, 6); continue; }
        args_t a;
        gen_args(&a, op, s, si);
        apply(si, op, &a);
        free_args(&a);
        if (op == OP_DONE && vh_coin(70)) {          /* re-init after done, any form */
            static const int CW[NCF] = { 15, 30, 20, 9, 13, 13 };
            int x = (int) vh_below(100), f = 0;
            while (x >= CW[f]) x -= CW[f++];
            vh_count("reinit_after_done", 1);
            construct(s, si, f, (int) vh_below(2));
            battery(s, 2);
        }
    }
    if (vh_case_idx % 5 == 0 && pool[0].o)
        vh_sample("history %ld: %d ops, slot0 ends as %s (len %ld, size %lld)", vh_case_idx, nops, vh_q(pool[0].m, pool[0].mlen > 40 ? 40 : pool[0].mlen), pool[0].mlen, (long long) pool[0].o->size);
    vh_count("histories", 1);
    pool_delete();
}

/* ---- exhaustive single-step table: (base text) x (operation) x (route) x (all boundary arguments) ---- */
#define NBASE 6
static const char *const BASE[NBASE] = { NULL /* new() */, "" /* new_from_ptr("") */, "a", "aB", " aB1\t", "   " };
static const char *const TXT[] = { "", "x", " ", "xyZ", "\xe9\xff", NULL /* 4096 x 'k' */, NULL /* 4095 */ };
#define NTXT 7
#define NTABLE (NBASE * (OP_DONE + 3) * 2)

static void base_make(int b, int r)
{
    slot_t *s = &pool[0];
    if (!BASE[b]) { s->o = c_new(r); m_set(s, "", 0); }
    else { char *h = vh_heapstr(BASE[b]); s->o = c_new_from_ptr(r, h); free(h); m_set(s, BASE[b], (long) strlen(BASE[b])); }
    if (!s->o) vh_fail(key("new", "failed"), "constructor returned NULL");
    check_obj(s, BASE[b] ? "new_from_ptr" : "new");
}
static char *table_text(int k, long *n)
{
    if (TXT[k]) { *n = (long) strlen(TXT[k]); return cat3(TXT[k], *n, "", 0, "", 0); }
    *n = k == 5 ? 4096 : 4095;
    char *p = m_alloc(*n); memset(p, 'k', (size_t) *n); return p;
}
static void table_case(long t)
{
    int r = (int) (t % 2), op = (int) (t / 2 % (OP_DONE + 3)), b = (int) (t / 2 / (OP_DONE + 3));
    args_t a;
    long steps = 0;
    vh_count("table_cases", 1);
#define STEP(body) do { base_make(b, r); memset(&a, 0, sizeof a); a.r = r; a.other_slot = -1; a.nsub = 1; body; pool_delete(); steps++; } while (0)
    if (op <= OP_PREPEND_PTR && op != OP_APPEND_CHAR) {
        for (int k = 0; k < NTXT; k++) STEP(a.text = table_text(k, &a.tlen); apply(0, op, &a); free_args(&a));
        if (op == OP_APPEND || op == OP_PREPEND) STEP(a.other_slot = 0; apply(0, op, &a));       /* itself */
    } else if (op == OP_APPEND_CHAR || op == OP_PREPEND_CHAR || op == OP_CLEAR) {
        static const int CH[] = { 'x', ' ', 0xe9, 0xff, 1, '\n' };
        for (int k = 0; k < 6; k++) STEP(a.ch = CH[k]; apply(0, op, &a));
    } else if (op == OP_SPLICE || op == OP_SPLICE_PTR) {
        long len = BASE[b] ? (long) strlen(BASE[b]) : 0;
        for (int i = 0; i < NBIDX; i++) for (int c = 0; c < NBIDX; c++) for (int k = -1; k < 4; k++)
            STEP(a.idx = bidx(i, len); a.cnt = bidx(c, len); if (k >= 0) a.text = table_text(k, &a.tlen); apply(0, op, &a); free_args(&a));
    } else if (op == OP_SPRINTF) {
        for (int k = 0; k < 8; k++) for (int j = 0; j < 4; j++) STEP(a.tmpl = k; a.text = table_text(j == 3 ? 5 : j, &a.tlen); a.d = j ? -12345 : 0; a.ch = 'c'; apply(0, op, &a); free_args(&a));
    } else if (op <= OP_DONE) {
        STEP(apply(0, op, &a));
        STEP(apply(0, op, &a); apply(0, op, &a));            /* twice in a row */
    } else if (op == OP_DONE + 1) {                            /* dup, then both mutated */
        STEP(do_dup(0); for (int j = 0; j < NPOOL; j++) if (j && pool[j].o) { a.ch = 'y'; apply(j, OP_APPEND_CHAR, &a); a.ch = 'z'; apply(0, OP_PREPEND_CHAR, &a); });
    } else {                                                   /* substr/substr_to_ptr over the whole boundary grid */
        long len = BASE[b] ? (long) strlen(BASE[b]) : 0;
        base_make(b, r);
        for (int i = 0; i < NBIDX; i++) for (int c = 0; c < NBIDX; c++) { q_substr_at(&pool[0], bidx(i, len), bidx(c, len), r); steps++; }
        battery(&pool[0], 0);
        pool_delete();
    }
    vh_count("table_steps", steps);
}

int main(int argc, char **argv)
{
    vh_init(argc, argv, CASE_STREAM);   /* the two classes draw different histories */
    while (vh_next_case()) {
        pool_reset();
        memset(&rd, 0, sizeof rd);
        if (VH_CASE_TRY()) {
            if (vh_case_idx < NTABLE) table_case(vh_case_idx);
            else history();
        }
        vh_case_done();
    }
    return vh_finish();
}
#endif
