/* C16: NULL-argument calls fail soft.  DESIGN.md §4 C16.
 * The case table (c16_cases.inc) is generated from the frozen guard table gen/c16_guards.tsv.
 * Each (table row, runtime debug level) cell runs in a forked child. */
#define _GNU_SOURCE
#include <config.h>
#include <libast.h>
#include <libast_internal.h>
#include <math.h>
#include <sys/wait.h>
#include <sys/mman.h>
#include <poll.h>
#include "vh.h"

struct c16_res {
    int reached_end;
    int value_ok;
    char got[64];
    long mallocs;          /* allocations observed inside the call window */
    long heap_delta;
    int snap_changed;
    int balanced_only;      /* constructor wrappers: the object is allocated and released again -- only the balance is required */
    char snap_what[96];
};
struct c16_case { void (*fn)(struct c16_res *, int); const char *func; const char *desc; const char *vc; int has_scalar; };
/* integer arguments (indices, counts, sizes) by variant: in range, zero, negative, past the end of the 2-element samples */
static const long C16_SCALARS[] = { 1, 0, -1, 7 };
#define C16_NVARIANTS 4
#define C16_SCALAR(v) (C16_SCALARS[(v) % C16_NVARIANTS])

/* ---- allocation window monitor (ASan malloc hooks; weak so that non-ASan builds link) ---- */
extern int __sanitizer_install_malloc_and_free_hooks(void (*mh)(const volatile void *, size_t), void (*fh)(const volatile void *)) __attribute__((weak));
static volatile int win_open;
static volatile long win_mallocs;
static void mhook(const volatile void *p, size_t n) { if (win_open) win_mallocs++; }
static void fhook(const volatile void *p) { }
static size_t heap0;

static void c16_globals_snap(void);
static void c16_call_begin(struct c16_res *r) { c16_globals_snap(); heap0 = vh_heap_bytes(); win_mallocs = 0; win_open = 1; }
static void c16_call_end(struct c16_res *r) { win_open = 0; r->mallocs = win_mallocs; r->heap_delta = (long) vh_heap_bytes() - (long) heap0; r->reached_end = 1; }

/* ---- snapshots of the other (valid) arguments: the heap block and, one level down, every heap block it points to ---- */
#define MAXSNAP 40
static struct { const void *p; size_t n; void *copy; char what[40]; } snaps[MAXSNAP];
static int nsnaps;
static void c16_snap_begin(struct c16_res *r) { nsnaps = 0; }
static void snap_one(const void *p, const char *what)
{
    size_t n = vh_alloc_size(p);
    if (!n || nsnaps >= MAXSNAP) return;
    for (int i = 0; i < nsnaps; i++) if (snaps[i].p == p) return;
    snaps[nsnaps].p = p; snaps[nsnaps].n = n; snaps[nsnaps].copy = malloc(n); memcpy(snaps[nsnaps].copy, p, n);
    snprintf(snaps[nsnaps].what, sizeof snaps[nsnaps].what, "%s", what);
    nsnaps++;
}
static void c16_snap_arg(struct c16_res *r, const void *p, const char *type)
{
    size_t n = vh_alloc_size(p);
    if (!n) return;
    snap_one(p, type);
    int first = nsnaps;
    for (size_t off = 0; off + sizeof(void *) <= n; off += sizeof(void *)) {
        void *q; memcpy(&q, (const char *) p + off, sizeof q);
        if (q && vh_alloc_size(q)) { char w[40]; snprintf(w, sizeof w, "%.28s+%zu", type, off); snap_one(q, w); }
    }
    (void) first;
}
#ifdef C16_GLOBALS_INC
#include C16_GLOBALS_INC
static char *gsnap; static size_t gsnap_n;
static void c16_globals_snap(void)
{
    size_t n = 0;
    for (int i = 0; C16_GLOBALS[i].name; i++) n += C16_GLOBALS[i].n;
    if (!gsnap) { gsnap = malloc(n ? n : 1); gsnap_n = n; }
    size_t o = 0;
    for (int i = 0; C16_GLOBALS[i].name; i++) { memcpy(gsnap + o, C16_GLOBALS[i].p, C16_GLOBALS[i].n); o += C16_GLOBALS[i].n; }
}
static const char *c16_globals_changed(void)
{
    size_t o = 0;
    for (int i = 0; C16_GLOBALS[i].name; i++) { if (memcmp(gsnap + o, C16_GLOBALS[i].p, C16_GLOBALS[i].n)) return C16_GLOBALS[i].name; o += C16_GLOBALS[i].n; }
    return NULL;
}
#else
static void c16_globals_snap(void) { }
static const char *c16_globals_changed(void) { return NULL; }
#endif

static void c16_snap_check(struct c16_res *r)
{
    { const char *g = c16_globals_changed(); if (g) { r->snap_changed = 1; snprintf(r->snap_what, sizeof r->snap_what, "library variable %s", g); return; } }
    for (int i = 0; i < nsnaps; i++) {
        if (vh_alloc_size(snaps[i].p) != snaps[i].n || memcmp(snaps[i].p, snaps[i].copy, snaps[i].n)) {
            r->snap_changed = 1; snprintf(r->snap_what, sizeof r->snap_what, "%s", snaps[i].what);
            return;
        }
    }
}

/* ---- factories for valid sample arguments ---- */
enum { KL, KV, KM };
static spif_charptr_t mk_cstr(void) { return (spif_charptr_t) vh_heapstr("abc"); }
/* odd variants: the same text at an address whose bit 31 is set (an answer computed from a pointer's low 32 bits goes wrong there) */
static spif_charptr_t mk_cstr_v(int v)
{
    if (!(v & 1)) return mk_cstr();
    static char *page;
    if (!page) {
        void *want = (void *) (uintptr_t) 0x5000a0000000ULL;          /* bits 31 and 29 set */
        page = mmap(want, 4096, PROT_READ | PROT_WRITE, MAP_PRIVATE | MAP_ANONYMOUS | MAP_FIXED_NOREPLACE, -1, 0);
        if (page == MAP_FAILED) page = NULL;
    }
    if (!page) return mk_cstr();
    strcpy(page + 64, "abc");
    return (spif_charptr_t) (page + 64);
}
/* object samples by variant: odd variants are the minimal / partly empty forms of each class */
static spif_str_t mk_str(int v) { return (v & 1) ? spif_str_new() : spif_str_new_from_ptr((spif_charptr_t) "sample"); }
static spif_ustr_t mk_ustr(int v) { return (v & 1) ? spif_ustr_new() : spif_ustr_new_from_ptr((spif_charptr_t) "sample"); }
static spif_mbuff_t mk_mbuff(int v) { return (v & 1) ? spif_mbuff_new() : spif_mbuff_new_from_ptr((spif_byteptr_t) "sam\0ple", 7); }
static spif_obj_t mk_obj0(void) { return (spif_obj_t) spif_str_new_from_ptr((spif_charptr_t) "obj"); }
static spif_obj_t mk_obj(int v) { return (v & 1) ? (spif_obj_t) spif_objpair_new_from_value(mk_obj0()) : mk_obj0(); }     /* odd: a pair without a key */
static spif_objpair_t mk_pair(int v) { return (v & 1) ? spif_objpair_new_from_value(mk_obj0()) : spif_objpair_new_from_both(mk_obj0(), mk_obj0()); }
static spif_tok_t mk_tok(int v) { if (v & 1) return spif_tok_new(); spif_tok_t t = spif_tok_new_from_ptr((spif_charptr_t) "a b c"); spif_tok_eval(t); return t; }
static spif_url_t mk_url(int v) { return (v & 1) ? spif_url_new() : spif_url_new_from_ptr((spif_charptr_t) "http://user:pw@host:80/path?q"); }
static spif_regexp_t mk_regexp(int v) { return spif_regexp_new_from_ptr((spif_charptr_t) ((v & 1) ? "x*" : "a.c")); }     /* odd: a pattern that matches the empty text */
static spif_socket_t mk_socket(void) { return spif_socket_new(); }
static void fill(spif_obj_t c, int k)
{
    for (int i = 0; i < 2; i++) {
        char lab[8]; snprintf(lab, sizeof lab, "e%d", i);
        spif_obj_t e = (spif_obj_t) spif_str_new_from_ptr((spif_charptr_t) lab);
        if (k == KM) SPIF_MAP_SET((spif_map_t) c, e, (spif_obj_t) spif_str_new_from_ptr((spif_charptr_t) "v"));
        else if (k == KV) SPIF_VECTOR_INSERT((spif_vector_t) c, e);
        else SPIF_LIST_APPEND((spif_list_t) c, e);
    }
}
/* odd variants of the list samples hold a NULL placeholder between their elements (what insert_at beyond the end leaves behind) */
static int c16_empty_variant(int v) { return v == 2; }      /* variant 2: containers with no members at all */
static void gap(spif_obj_t c, int k, int v) { if (k == KL && (v & 1)) SPIF_LIST_INSERT_AT((spif_list_t) c, (spif_obj_t) spif_str_new_from_ptr((spif_charptr_t) "far"), 4); }
static spif_array_t mk_array_v(int k, int v)
{
    spif_obj_t c = k == KM ? (spif_obj_t) SPIF_MAP_NEW(array) : k == KV ? (spif_obj_t) SPIF_VECTOR_NEW(array) : (spif_obj_t) SPIF_LIST_NEW(array);
    if (!c16_empty_variant(v)) { fill(c, k); gap(c, k, v); } return (spif_array_t) c;
}
static spif_array_t mk_array(int k) { return mk_array_v(k, 0); }
static spif_linked_list_t mk_llist_v(int k, int v)
{
    spif_obj_t c = k == KM ? (spif_obj_t) SPIF_MAP_NEW(linked_list) : k == KV ? (spif_obj_t) SPIF_VECTOR_NEW(linked_list) : (spif_obj_t) SPIF_LIST_NEW(linked_list);
    if (!c16_empty_variant(v)) { fill(c, k); gap(c, k, v); } return (spif_linked_list_t) c;
}
static spif_linked_list_t mk_llist(int k) { return mk_llist_v(k, 0); }
static spif_dlinked_list_t mk_dlist_v(int k, int v)
{
    spif_obj_t c = k == KM ? (spif_obj_t) SPIF_MAP_NEW(dlinked_list) : k == KV ? (spif_obj_t) SPIF_VECTOR_NEW(dlinked_list) : (spif_obj_t) SPIF_LIST_NEW(dlinked_list);
    if (!c16_empty_variant(v)) { fill(c, k); gap(c, k, v); } return (spif_dlinked_list_t) c;
}
static spif_dlinked_list_t mk_dlist(int k) { return mk_dlist_v(k, 0); }
static spif_list_t mk_list(void) { return (spif_list_t) mk_array(KL); }
static spif_vector_t mk_vector(void) { return (spif_vector_t) mk_array(KV); }
static spif_map_t mk_map(void) { return (spif_map_t) mk_array(KM); }
static void *mk_array_iter(void) { return (void *) SPIF_LIST_ITERATOR((spif_list_t) mk_array(KL)); }
static void *mk_llist_iter(void) { return (void *) SPIF_LIST_ITERATOR((spif_list_t) mk_llist(KL)); }
static void *mk_dlist_iter(void) { return (void *) SPIF_LIST_ITERATOR((spif_list_t) mk_dlist(KL)); }
static spif_iterator_t mk_iter(void) { return SPIF_LIST_ITERATOR((spif_list_t) mk_array(KL)); }
static FILE *mk_fp(void) { FILE *f = tmpfile(); if (f) { fputs("line one\nline two\n", f); rewind(f); } return f; }
static int mk_fd(void) { int fd = memfd_create("c16", 0); if (fd >= 0) { if (write(fd, "data\n", 5) < 0) { } lseek(fd, 0, SEEK_SET); } return fd; }
static spif_obj_t *mk_objarray(void) { spif_obj_t *a = malloc(4 * sizeof *a); for (int i = 0; i < 4; i++) a[i] = mk_obj0(); return a; }
static spif_charptr_t *mk_strv(void) { spif_charptr_t *v = malloc(3 * sizeof *v); v[0] = mk_cstr(); v[1] = mk_cstr(); v[2] = NULL; return v; }
static spif_linked_list_item_t mk_llitem(void) { return mk_llist(KL)->head; }
static spif_dlinked_list_item_t mk_dlitem(void) { return mk_dlist(KL)->head; }
static spif_ipsockaddr_t mk_ipaddr(void) { return calloc(1, sizeof(struct sockaddr_in)); }
static spif_unixsockaddr_t mk_unaddr(void) { return calloc(1, sizeof(struct sockaddr_un)); }
static spifmem_memrec_t *mk_memrec(void) { spifmem_memrec_t *r = calloc(1, sizeof *r); r->ptrs = calloc(4, sizeof *r->ptrs); return r; }
static void *c16_ctx_handler(char *a, void *b) { return b; }
static char *c16_builtin(char *a) { return a; }

#ifdef C16_PROBE
#include "c16_probe_cases.inc"     /* candidates: pointer positions without a guard of their own (tools/gen_c16.py --probe-rows) */
#else
#include "c16_cases.inc"
#endif

/* (runtime debug level, silent) cells */
static const int CELLS_Q[][2] = { {0, 0}, {1, 0}, {1, 1}, {5, 0} };
static const int CELLS_T[][2] = { {0, 0}, {1, 0}, {1, 1}, {5, 0}, {2, 0}, {3, 0}, {0, 1} };

static void run_child(struct c16_case *c, int level, int silent_on, int variant, int rfd, int efd)
{
    struct c16_res res;
    memset(&res, 0, sizeof res);
    dup2(efd, 2);
    DEBUG_LEVEL = 0;
    libast_print_warning("warm-up %d\n", 1);          /* stdio warmed up outside the measured window */
    if (__sanitizer_install_malloc_and_free_hooks) __sanitizer_install_malloc_and_free_hooks(mhook, fhook);
    DEBUG_LEVEL = (unsigned) level;
    if (silent_on) libast_set_silent(TRUE);
    c->fn(&res, variant);
    if (write(rfd, &res, sizeof res) < 0) { }
    _exit(0);
}

#ifdef C16_PROBE
/* probe mode (not a check): run every candidate at levels 0 and 1, variants 0 and 1, and print what happened; checks/c16_probe.py
 * turns the positions that demonstrably fail soft into gen/c16_transitive.tsv */
int main(int argc, char **argv)
{
    signal(SIGPIPE, SIG_IGN);
    for (long ci = 0; ci < C16_NCASES; ci++) {
        struct c16_case *c = &C16_CASES[ci];
        for (int level = 0; level <= 1; level++) for (int variant = 0; variant <= 1; variant++) {
            int rp[2], ep[2];
            if (pipe(rp) || pipe(ep)) return 3;
            fflush(stdout);
            pid_t pid = fork();
            if (pid == 0) { close(rp[0]); close(ep[0]); alarm(20); run_child(c, level, 0, variant, rp[1], ep[1]); }
            close(rp[1]); close(ep[1]);
            char errbuf[6000]; size_t eo = 0; ssize_t k;
            while ((k = read(ep[0], errbuf + eo, sizeof errbuf - 1 - eo)) > 0) { eo += (size_t) k; if (eo >= sizeof errbuf - 1) { char sink[4096]; while (read(ep[0], sink, sizeof sink) > 0) { } break; } }
            errbuf[eo] = 0;
            struct c16_res res; memset(&res, 0, sizeof res);
            ssize_t got = read(rp[0], &res, sizeof res);
            close(rp[0]); close(ep[0]);
            int st = 0; waitpid(pid, &st, 0);
            char *diag = strstr(errbuf, "warm-up 1\n"); diag = diag ? diag + 10 : errbuf;
            int fatal_path = WIFEXITED(st) && WEXITSTATUS(st) == 255 && strstr(errbuf, "FATAL:") != NULL;
            int normal = WIFEXITED(st) && WEXITSTATUS(st) == 0 && got == (ssize_t) sizeof res && res.reached_end;
            printf("P\t%ld\t%d\t%d\t%s\t%s\t%ld\t%ld\t%d\t%d\t%d\n", ci, level, variant, normal ? "normal" : fatal_path ? "fatal" : "crash",
                   res.got[0] ? res.got : "void", res.mallocs, res.heap_delta, res.snap_changed,
                   strstr(diag, "ASSERT failed") != NULL, strstr(diag, "REQUIRE failed") != NULL);
        }
    }
    return 0;
}
#else
int main(int argc, char **argv)
{
    vh_init(argc, argv, "C16");
    int thorough = !strcmp(vh_tier, "thorough");
    const int (*cells)[2] = thorough ? CELLS_T : CELLS_Q;
    int nlev = thorough ? 7 : 4;
    signal(SIGPIPE, SIG_IGN);
    while (vh_next_case()) {
        if (VH_CASE_TRY()) {
            /* cell index = ((row * nlev) + levelcell) * NVARIANTS + variant; rows without integer arguments run variant 0 only */
            long cell = vh_case_idx;
            if (cell >= (long) C16_NCASES * nlev * C16_NVARIANTS) { vh_case_done(); continue; }
            int variant = (int) (cell % C16_NVARIANTS);
            long rc = cell / C16_NVARIANTS;
            struct c16_case *c = &C16_CASES[rc / nlev];
            int level = cells[rc % nlev][0], silent_on = cells[rc % nlev][1];
            if (variant && !c->has_scalar) { vh_count("cells_without_integer_arguments_skipped", 1); vh_case_done(); continue; }
            vh_op("%s at runtime debug level %d, silent %s, integer arguments = %ld", c->desc, level, silent_on ? "on" : "off", C16_SCALAR(variant));
            int rp[2], ep[2];
            if (pipe(rp) || pipe(ep)) vh_fail("harness:pipe", "pipe failed");
            fflush(stdout); fflush(stderr);
            pid_t pid = fork();
            if (pid == 0) { close(rp[0]); close(ep[0]); run_child(c, level, silent_on, variant, rp[1], ep[1]); }
            close(rp[1]); close(ep[1]);
            /* drain stderr (bounded) then the result */
            char errbuf[6000]; size_t eo = 0; ssize_t k;
            while ((k = read(ep[0], errbuf + eo, sizeof errbuf - 1 - eo)) > 0) { eo += (size_t) k; if (eo >= sizeof errbuf - 1) { char sink[4096]; while (read(ep[0], sink, sizeof sink) > 0) { } break; } }
            errbuf[eo] = 0;
            struct c16_res res; memset(&res, 0, sizeof res);
            ssize_t got = read(rp[0], &res, sizeof res);
            close(rp[0]); close(ep[0]);
            int st = 0; waitpid(pid, &st, 0);
            vh_evals(1);
            vh_cov(vh_mix(vh_hash_str(c->desc, 3), (uint64_t) level * 16 + (uint64_t) silent_on * 8 + (uint64_t) variant));
            char k1[96];
            int fatal_path = WIFEXITED(st) && WEXITSTATUS(st) == 255 && (silent_on || strstr(errbuf, "FATAL:") != NULL);
            if (silent_on) vh_count("silent_cells", 1);
            if (variant) vh_count("integer_argument_variants", 1);
            int normal = WIFEXITED(st) && WEXITSTATUS(st) == 0 && got == (ssize_t) sizeof res && res.reached_end;
            /* strip the warm-up line for reporting */
            char *diag = strstr(errbuf, "warm-up 1\n"); diag = diag ? diag + 10 : errbuf;
            if (level >= 1 && fatal_path) {
                vh_count("fatal_exit_at_level_ge1", 1);
            } else if (normal) {
                if (!res.value_ok) { snprintf(k1, sizeof k1, "%s:value", c->func); vh_fail(k1, "%s at level %d: returned %s", c->desc, level, res.got); }
                if (res.snap_changed) { snprintf(k1, sizeof k1, "%s:argument-changed", c->func); vh_fail(k1, "%s at level %d: another argument (%s) was modified", c->desc, level, res.snap_what); }
                if ((!res.balanced_only && res.mallocs != 0) || res.heap_delta != 0) { snprintf(k1, sizeof k1, "%s:allocated", c->func); vh_fail(k1, "%s at level %d: %ld allocations, heap delta %ld bytes during the call", c->desc, level, res.mallocs, res.heap_delta); }
                vh_count(level == 0 ? "soft_fail_level0" : "soft_fail_level_ge1", 1);
                if (level == 0 && strstr(diag, "Warning:")) vh_count("warning_printed_level0", 1);
            } else {
                /* memory fault, sanitizer report, wrong exit path, or carried on and died */
                const char *what = WIFSIGNALED(st) ? "signal" : "exit";
                snprintf(k1, sizeof k1, "%s:crash", c->func);
                for (char *p = diag; *p; p++) if (*p == '\n' || *p == '\t') *p = ' ';
                vh_fail(k1, "%s at level %d: child ended by %s %d (reached_end=%d): %.700s", c->desc, level, what,
                        WIFSIGNALED(st) ? WTERMSIG(st) : WEXITSTATUS(st), res.reached_end, diag);
            }
            vh_count(c->vc, 1);
            if ((cell % 811) == 0) vh_sample("%s @level %d -> %s", c->desc, level, fatal_path && level >= 1 ? "fatal exit 255" : res.got[0] ? res.got : "void/ok");
        }
        vh_case_done();
    }
    for (int i = 0; C16_SKIPPED[i]; i++) vh_count("skipped_rows", 1);
    return vh_finish();
}
#endif
