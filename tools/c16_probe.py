#!/usr/bin/env python3
"""tools/c16_probe.py [SRC]: find the pointer positions that are guarded further down the call chain.

Not a check.  Run once on the tree the C16 table is frozen from (the repaired /repo), after
`tools/gen_c16.py --probe-rows SRC` has listed every (entry point, route, pointer parameter) that has no guard macro of its
own.  Each candidate is called with NULL in that position (other arguments valid) in a forked child at runtime debug levels
0 and 1, with the full and the minimal argument samples, twice.  A position becomes an obligation (a row of
gen/c16_transitive.tsv, judged by checks/c16.py exactly like the rows of gen/c16_guards.tsv) only if ALL of this was observed:

  * level 0: the call returned normally, every time, with the same value, and that value is a failure value of the return
    type (FALSE, NULL, -1, 0, a SPIF_CMP_* value, or nothing for void);
  * nothing stayed allocated and no other argument changed;
  * a guard did the refusing: "ASSERT failed" was printed at level 0, or "REQUIRE failed"/"ASSERT failed" at level 1
    (that is what makes it a *guarded* position rather than a function that happens to cope with NULL);
  * level 1: the same normal outcome, or the library's fatal exit.

Everything else (crashes, non-failure values, silent handling) is left out: the statement only speaks of guarded arguments."""
import os, sys, subprocess, collections, re, tempfile, shutil
sys.path.insert(0, os.path.join(os.path.dirname(os.path.dirname(os.path.abspath(__file__))), 'lib'))
import vf

CMP = {'-1': 'CMPL', '0': 'CMPE', '1': 'CMPG'}


def is_ptr(t):
    t = t.strip()
    return t.endswith('*') or re.match(r'^spif_(?!bool|char_t|uchar|stridx|ustridx|memidx|listidx|int|uint|long|ulong|short|ushort|cmp|sockport|fd|sockfd)\w+_t$', t) is not None


def main():
    rows = [l.rstrip('\n').split('\t') for l in open(os.path.join(vf.ROOT, 'gen', 'c16_probe.tsv')) if not l.startswith('#') and l.strip()]
    exe = vf.build_harness('c16_probe', 'asan', ['c16.c'], cflags=['-Wno-incompatible-pointer-types', '-Wno-int-conversion', '-Wno-discarded-qualifiers', '-DC16_PROBE'])
    obs = collections.defaultdict(list)
    for rep in range(2):
        d = tempfile.mkdtemp(prefix='c16probe-')
        try:
            out = subprocess.run([exe], cwd=d, stdout=subprocess.PIPE, stderr=subprocess.DEVNULL, text=True, env=dict(os.environ, **vf.ASAN_ENV), timeout=1800).stdout
        finally:
            shutil.rmtree(d, ignore_errors=True)
        for l in out.splitlines():
            a = l.split('\t')
            if a[0] == 'P':
                obs[int(a[1])].append(dict(level=int(a[2]), variant=int(a[3]), status=a[4], got=a[5], mallocs=int(a[6]), delta=int(a[7]), snap=int(a[8]), a=int(a[9]), r=int(a[10])))
    kept, why = [], collections.Counter()
    legal = []          # positions where NULL is silently accepted (normal return at both levels, no guard diagnostic): NULL is a legal value there
    for i, r in enumerate(rows):
        o = obs.get(i, [])
        if len(o) == 8 and all(x['status'] == 'normal' and not x['a'] and not x['r'] for x in o):
            legal.append(r[:9])
        l0 = [x for x in o if x['level'] == 0]
        l1 = [x for x in o if x['level'] == 1]
        if len(l0) != 4 or len(l1) != 4:
            why['incomplete'] += 1
            continue
        if any(x['status'] != 'normal' for x in l0):
            why['level0 ' + l0[0]['status']] += 1
            continue
        if len({x['got'] for x in l0}) != 1 or any(x['delta'] or x['snap'] for x in l0):
            why['unstable value / left allocated / argument changed'] += 1
            continue
        if not (any(x['a'] for x in l0) or any(x['a'] or x['r'] for x in l1)):
            why['no guard diagnostic (copes with NULL on its own)'] += 1
            continue
        if any(x['status'] == 'crash' for x in l1) or any(x['status'] == 'normal' and (x['got'] != l0[0]['got'] or x['delta'] or x['snap']) for x in l1):
            why['level1 differs'] += 1
            continue
        got, rtype = l0[0]['got'], r[5].strip()
        allocs = any(x['mallocs'] for x in o if x['status'] == 'normal')
        if rtype == 'void':
            vc = 'VOID'
        elif rtype == 'spif_cmp_t':
            vc = CMP.get(got)
        elif rtype == 'spif_bool_t':
            vc = 'FALSE' if got == '0' else None
        elif is_ptr(rtype):
            vc = ('NULLBAL' if allocs else 'NULL') if got == '0' else None
        else:
            vc = 'MINUS1' if got == '-1' else 'ZERO' if got == '0' else None
        if vc is None:
            why['not a failure value (%s)' % got] += 1
            continue
        if allocs and vc != 'NULLBAL':
            why['allocates'] += 1
            continue
        kept.append(r[:9] + ['TRANSITIVE', vc, '(NULLBAL)' if vc == 'NULLBAL' else 'observed'])
    with open(os.path.join(vf.ROOT, 'gen', 'c16_transitive.tsv'), 'w') as f:
        f.write('# guards that sit further down the call chain: positions observed to fail soft on the repaired tree %s (tools/c16_probe.py)\n'
                % subprocess.run(['git', '-C', vf.SRC, 'rev-parse', '--short', 'HEAD'], stdout=subprocess.PIPE, text=True).stdout.strip())
        f.write('# same columns as c16_guards.tsv\n')
        for r in kept:
            f.write('\t'.join(r) + '\n')
    with open(os.path.join(vf.ROOT, 'gen', 'c16_legalnull.tsv'), 'w') as f:
        f.write('# pointer positions where NULL was observed to be a legal value on the repaired tree (normal return at levels 0 and 1, no guard diagnostic):\n')
        f.write('# tools/gen_c16.py --emit gives every guarded row of the same entry point a companion in which these are NULL as well\n')
        for r in legal:
            f.write('\t'.join(r) + '\n')
    print('candidates', len(rows), 'kept', len(kept), 'legal-NULL positions', len(legal))
    for k, v in why.most_common():
        print('  left out: %-60s %d' % (k, v))
    for r in kept:
        print('  +', r[1], 'param', r[7], r[2], r[3], r[10])


if __name__ == '__main__':
    main()
